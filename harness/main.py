import sys, os, argparse, importlib
sys.path.insert(0, os.path.dirname(os.path.abspath(__file__)))
import core

def main():
    ap = argparse.ArgumentParser()
    ap.add_argument('pid')
    ap.add_argument('--tier', default=os.environ.get('VERIF_TIER', 'quick'), choices=['quick', 'thorough'])
    ap.add_argument('--replay')
    a = ap.parse_args()
    pid = a.pid.upper()
    seed = int(os.environ.get('VERIF_SEED', '20260926'))
    mod = importlib.import_module('props.' + pid.lower())
    if a.replay:
        sys.exit(core.replay(mod, a.replay))
    sys.exit(core.run_check(mod, a.tier, seed))

if __name__ == '__main__':
    main()
