# generators of the C03 check: exhaustive small scope, structured random, malformed, pinned, shipped styles
import itertools, os
from core import norm, S, REPO
from props.c03_util import I, Sx, Id, Q, F, cmd, printable, enc_command

BUILTINS = ['>', '<', '=', '*', ':=', '+', '-', 'add.period$', 'call.type$', 'change.case$', 'chr.to.int$', 'cite$',
            'duplicate$', 'empty$', 'format.name$', 'if$', 'int.to.chr$', 'int.to.str$', 'missing$', 'newline$',
            'num.names$', 'pop$', 'preamble$', 'purify$', 'quote$', 'skip$', 'substring$', 'stack$', 'swap$',
            'text.length$', 'text.prefix$', 'top$', 'type$', 'warning$', 'while$', 'width$', 'write$']
PRINTERS = ('top$', 'stack$', 'int.to.str$')
ZERO_ARITY = ['quote$', 'skip$', 'newline$', 'stack$', 'cite$', 'type$', 'preamble$', 'call.type$']

ARITY = {'ENTRY': 3, 'EXECUTE': 1, 'FUNCTION': 2, 'INTEGERS': 1, 'ITERATE': 1, 'MACRO': 2, 'READ': 0, 'REVERSE': 1, 'SORT': 0, 'STRINGS': 1}
INTS = [I(-2), I(0), I(1), I(3)]
STRS = [Sx(''), Sx('a'), Sx('ab{c}'), Sx("{\\'e}x y"), Sx('A. B and C D'), Sx('t'), Sx(' ')]
OBJS = [F(I(1)), Q('gi'), Q('gs'), Id('gi'), Id('gs'), Q('skip$')]

def is_fr(tok):
    return tok[0] in (3, 4)

def straight(tokens, pre=(), entry=False):
    """FUNCTION {f} {tokens}, run once by EXECUTE (or per entry by ITERATE)"""
    cmds = []
    if entry:
        cmds.append(cmd('ENTRY', [Id('title'), Id('author'), Id('note'), Id('year')], [Id('ei')], [Id('es')]))
    cmds += [cmd('INTEGERS', [Id('gi')]), cmd('STRINGS', [Id('gs')])]
    cmds += list(pre)
    cmds.append(cmd('FUNCTION', [Id('f')], list(tokens)))
    if entry:
        cmds += [cmd('READ'), cmd('ITERATE', [Id('f')])]
    else:
        cmds.append(cmd('EXECUTE', [Id('f')]))
    return cmds

BIB2 = '@article{k1, title = {The {T}itle}, author = "A. B and C D", year = ""}\n@book{K2, title = "x", note = jan, year = {  }, crossref = {k1}}\n'

def admissible(tokens):
    names = [S(t[1]) for t in tokens if t[0] == 2]
    if 'while$' in names and any(t == F(I(1)) for t in tokens):
        return False      # { #1 } as a loop condition never ends
    if any(n in PRINTERS for n in names) and any(is_fr(t) for t in tokens):
        return False      # printing interpreter objects is outside the modelled domain
    return True

def gen_exhaustive(tier, rng):
    pool = INTS + STRS + OBJS + [Id(b) for b in BUILTINS]
    for n in (0, 1, 2):
        for toks in itertools.product(pool, repeat=n):
            if admissible(toks):
                yield ('exhaustive', 1, [straight(toks), [], ''])
    # three tokens: the first one an operand or a built-in that needs none (anything else underflows at once)
    first = INTS + STRS + OBJS + [Id(b) for b in ZERO_ARITY]
    for a in first:
        for b in pool:
            for c in pool:
                toks = (a, b, c)
                if admissible(toks) and (tier != 'quick' or rng.random() < 0.08):
                    yield ('exhaustive', 1, [straight(toks), [], ''])
    if tier != 'quick':
        for toks in itertools.product(first, pool, pool, pool):
            if rng.random() < 0.02 and admissible(toks):
                yield ('exhaustive4', 1, [straight(toks), [], ''])
    # operand triples for the ternary built-ins (and pairs for the binary ones with special pools)
    ops = INTS + STRS + [F(I(1)), Q('gi'), Id('gi')]
    for a in ops:
        for b in ops:
            for c in ops:
                yield ('exhaustive_ternary', 1, [straight([a, b, c, Id('substring$')]), [], ''])
                yield ('exhaustive_ternary', 1, [straight([a, b, c, Id('if$')]), [], ''])
    names = [Sx(''), Sx('A. B and C D'), Sx('a'), Sx('{x and y} and von Z, Jr, Q'), Sx('Donald Ervin Knuth and de la Fontaine, Jean'), I(1), F(I(1))]
    ns = INTS + [I(2), I(-1), I(-3), I(4), Sx('a'), Q('gi')]
    fmts = [Sx('{ff~}{vv~}{ll}{, jj}'), Sx('{f.~}{ll}'), Sx('{ff~~}{vv~~}{ll}'), Sx(''), Sx('{'), Sx('a'), I(1), F(I(1)), Q('gi'), Q('skip$')]
    for a in names:
        for b in ns:
            for c in fmts:
                yield ('exhaustive_ternary', 1, [straight([a, b, c, Id('format.name$')]), [], ''])
    # assignment: every value x every target
    for v in ops + [Q('gs'), Id('title')]:
        for t in [Q('gi'), Q('gs'), Q('ei'), Q('es'), Q('f0'), Q('skip$'), Q('title'), Q('crossref'), Q('sort.key$'), I(1), Sx('a'), F(I(1))]:
            for rd in [Id('gi'), Id('gs'), Id('ei'), Id('es'), Id('sort.key$')]:
                pre = [cmd('FUNCTION', [Id('f0')], [])]
                yield ('exhaustive_assign', 1, [straight([v, t, Id(':='), rd], pre=pre, entry=True), ['k1', 'K2'], BIB2])
    # per-entry programs of <= 2 tokens over the pool + entry things
    epool = pool + [Id('title'), Id('author'), Id('note'), Id('year'), Id('crossref'), Id('ei'), Id('es'), Q('ei'), Q('es'), Id('sort.key$'), Q('title')]
    for n in (1, 2):
        for toks in itertools.product(epool, repeat=n):
            if admissible(toks) and (tier != 'quick' or n == 1 or rng.random() < 0.5):
                yield ('exhaustive_entry', 1, [straight(toks, entry=True), ['K2', 'k1'], BIB2])


# every kind of value (int, str, missing field, field value, function, reference to each kind of interpreter
# object) as operand of every built-in, inside ITERATE: the dynamic typing of the Python code, exhaustively
KINDS = [I(0), I(2), Sx(''), Sx('ab'), Id('note'), Id('title'), Id('year'), F(I(1)), F(), Q('gi'), Q('gs'), Q('ei'), Q('es'),
         Q('title'), Q('crossref'), Q('skip$'), Q('f0')]
UNARY = ['add.period$', 'chr.to.int$', 'duplicate$', 'empty$', 'int.to.chr$', 'int.to.str$', 'missing$', 'num.names$', 'pop$',
         'purify$', 'text.length$', 'top$', 'warning$', 'width$', 'write$']
BINARY = ['>', '<', '=', '*', ':=', '+', '-', 'change.case$', 'text.prefix$', 'swap$', 'while$']
TERNARY = ['substring$', 'format.name$', 'if$']
def gen_kinds(tier, rng):
    pre = [cmd('FUNCTION', [Id('f0')], [I(7)])]
    def case(toks):
        return ('exhaustive_kinds', 1, [straight(toks, pre=pre, entry=True), ['k1'], BIB2])
    for a in KINDS:
        for b in UNARY:
            yield case([a, Id(b)])
            if b == 'write$':
                yield case([a, Id(b), Id('newline$')])
    for a in KINDS:
        for b in KINDS:
            for op in BINARY:
                if op == 'while$' and a in (F(I(1)), Q('f0')):
                    continue          # a condition that is always true
                yield case([a, b, Id(op)])
    for a in KINDS:
        for b in KINDS:
            for c in KINDS:
                for op in TERNARY:
                    if tier != 'quick' or rng.random() < 0.2:
                        yield case([a, b, c, Id(op)])


# substring$: every start / length around both ends of strings of length 1..6 (incl. starts far beyond the left end)
def gen_substring(tier, rng):
    for t in ['a', 'ab', 'abc', 'a{b}c', 'abcdef']:
        n = len(t)
        for start in range(-(n + 4), n + 4):
            for ln in range(-1, n + 3):
                yield ('exhaustive_substring', 1, [straight([Sx(t), I(start), I(ln), Id('substring$')]), [], ''])


# the string built-ins on the operand shapes of C12's streams (its pools are imported read-only) plus white space inside
# special characters (double blanks, tabs, a blank before the closing brace)
SPECIAL_WS = ['{\\relax  IBM  PC}', '{\\relax\tIBM PC}', '{\\relax IBM PC }', 'x {\\TeX  and  More} Y', "{\\'E  }cole", '{\\LaTeX \t e}  Z',
              'A {\\ss  } B', '{\\AA\t}', '{\\a B}  {\\c  D} E', 'The {\\TeX  book \\noop }', '{\\  x}', '{\\x  }']
def bst_literal_ok(t):
    return all(c not in '"\n\r\x0b\x0c\x1c\x1d\x1e\x85\u2028\u2029' for c in t)
def gen_string_builtins(tier, rng):
    from props import c12
    pool = [t for t in list(c12.PINNED) + SPECIAL_WS if bst_literal_ok(t)]
    extra = 8 if tier == 'quick' else 200
    while extra > 0:
        t = c12.rand_string(rng)
        if bst_literal_ok(t):
            pool.append(t); extra -= 1
    for t in pool:
        for b in ('purify$', 'text.length$', 'width$', 'add.period$', 'num.names$', 'empty$'):
            yield ('string_builtins', 1, [straight([Sx(t), Id(b)]), [], ''])
        for m in ('l', 'u', 't', 'T'):
            yield ('string_builtins', 1, [straight([Sx(t), Sx(m), Id('change.case$')]), [], ''])
        for k in (-1, 0, 1, 2, 3, 7):
            yield ('string_builtins', 1, [straight([Sx(t), I(k), Id('text.prefix$')]), [], ''])
        for a, b in ((1, 2), (2, 3), (-1, 2), (-3, 2), (0, 1)):
            yield ('string_builtins', 1, [straight([Sx(t), I(a), I(b), Id('substring$')]), [], ''])


# write$ / newline$ with long pending lines: runs of 1..4 blanks placed around column 79 of the first line and of the
# continuation lines (78..82 and the later multiples), words that overflow, several write$ pieces
def gen_write_long(tier, rng):
    n = 260 if tier == 'quick' else 3000
    for _ in range(n):
        line, col = '', 0
        for seg in range(rng.randint(1, 3)):
            target = rng.randint(75, 84) if seg == 0 else rng.randint(73, 82)     # where the next run of blanks starts
            words = ''
            while len(words) < target:
                w = ''.join(rng.choice('abcdefgh.,') for _ in range(rng.randint(1, 9)))
                if len(words) + len(w) + 1 > target:
                    w = w[:max(1, target - len(words))] if len(words) < target else ''
                    words += w
                    break
                words += w + rng.choice([' ', ' ', ' ', '  '])
            line += words + ' ' * rng.randint(1, 4)
        line += ''.join(rng.choice('xyz') for _ in range(rng.randint(0, 12)))
        if rng.random() < 0.2:
            line = ' ' * rng.randint(1, 3) + line
        cut = sorted(rng.sample(range(1, len(line)), min(len(line) - 1, rng.randint(0, 2))))
        pieces = [line[a:b] for a, b in zip([0] + cut, cut + [len(line)])]
        toks = []
        for pc in pieces:
            toks += [Sx(pc), Id('write$')]
        toks.append(Id('newline$'))
        if rng.random() < 0.3:
            toks += [Sx('tail  x'), Id('write$'), Id('newline$')]
        yield ('write_long', 1, [straight(toks), [], ''])

# width$ with backslashes at every brace level, inside and outside special characters
WIDTH_ARGS = ['a\\b', '{a\\b}', '{{\\ab}}', '{\\ab}', '{\\a}', "{\\'e}x", 'a{b\\c}d', '{{a\\b}}', '\\', '{\\}', 'x{\\^o}{y\\z}', '{\\a{b}c}', '{{{\\a}}}',
              'a\\{b}', '{a}\\b', '{\\ }', 'ab{c}', "{\\'c{d}}e", '{x}{\\y}{{\\z}}', '\\\\', '{\\\\}', '{a\\}']
def gen_width(tier, rng):
    for t in WIDTH_ARGS:
        yield ('width_backslash', 1, [straight([Sx(t), Id('width$')]), [], ''])
        yield ('width_backslash', 1, [straight([Sx('p' + t + 'q'), Id('width$')]), [], ''])

# ----------------------------------------------------------------------------------------
# structured random programs
STR_POOL = ['', 'a', 'abc', 'Hello World', 'ab{c}d', "{\\'e}cole {T}e{X}", 'x: y. Z', 'The {\\TeX}book: a Story', '  ', 'e.g.', 'wow!',
            'is it?', '{{a}}', 'a}b', '{\\ss}', 'un{bal', 'A-B~C', 'Knuth, Donald E. and Lamport, Leslie', 'de la Vall{\\\'e}e Poussin, Charles',
            'von Last, Jr, First and {Others and Co}', 'x' * 90 + ' y z', 'word ' * 30, '1999', 'tab\there']
NAME_POOL = ['Knuth, Donald E. and Lamport, Leslie', "de la Vall{\\'e}e Poussin, Charles Louis", 'von Last, Jr, First and {Others and Co}',
             'A. B and C D', 'Jean-Pierre Hansen', 'abc', '']
FMT_POOL = ['{ff~}{vv~}{ll}{, jj}', '{f.~}{vv~}{ll}', '{vv~}{ll}{, jj}{, f.}', '{ll}', '{l{}}', 'x {f{.}~}', '',
            '{ff~~}{vv~~}{ll}', '{vv~}{ll~~}{jj}', '{f.~~}{ll}', '{ff~}{ll}']

class Ctx(object):
    def __init__(self, rng, loops=True):
        self.rng = rng
        self.fields = ['title', 'author', 'year', 'note', 'month']
        self.eints = ['e.cnt', 'Elabel']
        self.estrs = ['e.str', 'label']
        self.gints = ['gi1', 'gi2']
        self.gstrs = ['gs1', 'gs2']
        self.funcs = []          # (name, kind, entry_ctx)
        self.entry = False
        self.read = False
        self.loops = loops
        self.depth = 0

    def pick(self, l):
        return self.rng.choice(l)

    def int_e(self, d):
        r = self.rng
        k = r.random()
        if d <= 0 or k < 0.3:
            c = r.random()
            if c < 0.5: return [I(r.choice([-3, -1, 0, 1, 2, 5, 10, 65, 100000]))]
            if c < 0.75: return [Id(self.pick(self.gints))]
            if c < 0.85 and self.entry: return [Id(self.pick(self.eints))]
            if c < 0.9: return [Id(self.pick(['global.max$', 'entry.max$']))]
            return [I(r.randint(-5, 130))]
        k = r.random()
        if k < 0.2: return self.int_e(d - 1) + self.int_e(d - 1) + [Id(self.pick(['+', '-']))]
        if k < 0.35: return self.int_e(d - 1) + self.int_e(d - 1) + [Id(self.pick(['<', '>', '=']))]
        if k < 0.45: return self.str_e(d - 1) + self.str_e(d - 1) + [Id(self.pick(['=', '=', '=', '=', '=', '=', '<', '>']))]   # < > on strings: Python only
        if k < 0.55: return self.str_e(d - 1) + [Id(self.pick(['text.length$', 'width$', 'num.names$']))]
        if k < 0.65: return self.str_e(d - 1) + [Id('empty$')]
        if k < 0.72: return self.str_e(d - 1) + [Id('missing$')]
        if k < 0.78: return [I(r.randint(33, 126)), Id('int.to.chr$'), Id('chr.to.int$')]
        if k < 0.9: return self.int_e(d - 1) + [F(*self.int_e(d - 1)), F(*self.int_e(d - 1)), Id('if$')]
        if k < 0.95: return self.int_e(d - 1) + [Id('duplicate$'), Id('+')]
        return self.int_e(d - 1) + self.int_e(d - 1) + [Id('swap$'), Id('-')]

    def str_e(self, d):
        r = self.rng
        k = r.random()
        if d <= 0 or k < 0.3:
            c = r.random()
            if c < 0.45: return [Sx(self.pick(STR_POOL))]
            if c < 0.6: return [Id(self.pick(self.gstrs))]
            if c < 0.85 and self.entry:
                return [Id(self.pick(self.fields + self.estrs + ['crossref', 'sort.key$', 'cite$', 'type$']))]
            if c < 0.9: return [Id('quote$')]
            if c < 0.95 and self.read: return [Id('preamble$')]
            return [Sx(self.pick(NAME_POOL))]
        k = r.random()
        if k < 0.2: return self.str_e(d - 1) + self.str_e(d - 1) + [Id('*')]
        if k < 0.3: return self.str_e(d - 1) + self.int_e(d - 1) + self.int_e(d - 1) + [Id('substring$')]
        if k < 0.38: return self.str_e(d - 1) + self.int_e(d - 1) + [Id('text.prefix$')]
        if k < 0.46: return self.str_e(d - 1) + [Id('purify$')]
        if k < 0.56: return self.str_e(d - 1) + [Sx(self.pick(['l', 'u', 't', 'L', 'T', 'title'])), Id('change.case$')]
        if k < 0.64: return self.str_e(d - 1) + [Id('add.period$')]
        if k < 0.72: return self.int_e(d - 1) + [Id('int.to.str$')]
        if k < 0.76: return [I(r.randint(32, 126)), Id('int.to.chr$')]
        if k < 0.86:
            names = self.pick(NAME_POOL[:5])
            n = 1 if r.random() < 0.7 else 2
            if r.random() < 0.06: n = r.choice([0, 5, -1, -2, 3])
            return [Sx(names), I(n), Sx(self.pick(FMT_POOL)), Id('format.name$')]
        if k < 0.95: return self.int_e(d - 1) + [F(*self.str_e(d - 1)), F(*self.str_e(d - 1)), Id('if$')]
        return self.str_e(d - 1) + self.str_e(d - 1) + [Id('swap$'), Id('pop$')]

    def stmt(self, d):
        r = self.rng
        k = r.random()
        if k < 0.16: return self.int_e(2) + [Q(self.pick(self.gints)), Id(':=')]
        if k < 0.3: return self.str_e(2) + [Q(self.pick(self.gstrs)), Id(':=')]
        if k < 0.4 and self.entry: return self.int_e(2) + [Q(self.pick(self.eints)), Id(':=')]
        if k < 0.5 and self.entry: return self.str_e(2) + [Q(self.pick(self.estrs + ['sort.key$'])), Id(':=')]
        if k < 0.62: return self.str_e(2) + [Id('write$')]
        if k < 0.68: return [Id('newline$')]
        if k < 0.72: return self.str_e(1) + [Id('warning$')]
        if k < 0.76: return self.pick([self.int_e, self.str_e])(2) + [Id('pop$')]
        if k < 0.8: return self.pick([self.int_e, self.str_e])(1) + [Id('top$')]
        if k < 0.81: return [Id('skip$')]
        if d > 0 and k < 0.9:
            return self.int_e(2) + [F(*self.block(d - 1)), F(*self.block(d - 1)) if r.random() < 0.7 else Q('skip$'), Id('if$')]
        if d > 0 and k < 0.95 and self.loops and self.depth < 2:
            c = 'cnt%d' % self.depth
            self.depth += 1
            body = self.block(d - 1)
            self.depth -= 1
            return [I(r.randint(0, 3)), Q(c), Id(':='), F(Id(c), I(0), Id('>')), F(*(body + [Id(c), I(1), Id('-'), Q(c), Id(':=')])), Id('while$')]
        cands = [f for f in self.funcs if f[1] == 'stmt' and (self.entry or not f[2])]
        if cands:
            return [Id(self.pick(cands)[0])]
        return self.str_e(1) + [Id('write$')]

    def block(self, d):
        out = []
        for _ in range(self.rng.randint(0, 3)):
            out += self.stmt(d)
        return out

KEYS = ['k1', 'k2', 'Key3', 'a', 'zz']
TYPES = ['article', 'book', 'misc', 'Unknown', 'ARTICLE']
VALS = ['{The Title}', '"a {B} c"', '1999', 'jan', 'mac', '"x" # mac # {y}', '{Knuth, Donald E. and Lamport, Leslie}', '{}', '"{\\\'e}cole"', '{  }',
        '{von Last, Jr, First and {Others and Co}}', '{zeta}', '{Alpha}', '{alpha}']

def gen_bib(rng, keys):
    out = []
    if rng.random() < 0.3:
        out.append('@preamble{"\\newcommand{\\x}{y}" # mac}' if rng.random() < 0.5 else '@preamble{"pre"}')
    for k in keys:
        fields = []
        for f in ['title', 'author', 'year', 'note', 'month', 'Other']:
            if rng.random() < 0.55:
                fields.append('%s = %s' % (f if rng.random() < 0.8 else f.upper(), rng.choice(VALS)))
        if rng.random() < 0.3:
            fields.append('crossref = {%s}' % rng.choice(KEYS + ['nokey']))
        out.append('@%s{%s,\n  %s\n}' % (rng.choice(TYPES), k, ',\n  '.join(fields)))
    return '\n'.join(out) + '\n'

def gen_program(rng, loops=True):
    """returns (commands, citations, bib) -- a well-typed program of the documented shape"""
    cx = Ctx(rng, loops)
    cmds = [cmd('ENTRY', [Id(f) for f in cx.fields], [Id(v) for v in cx.eints], [Id(v) for v in cx.estrs]),
            cmd(rng.choice(['INTEGERS', 'integers', 'Integers']), [Id(v) for v in cx.gints + ['cnt0', 'cnt1']]),
            cmd('STRINGS', [Id(v) for v in cx.gstrs])]
    if rng.random() < 0.7:
        cmds.append(cmd('MACRO', [Id('mac')], [Sx('Macro Text')]))
    if rng.random() < 0.2:
        cmds.append(cmd('MACRO', [Id(rng.choice(['mac', 'jan', 'other']))], [Sx(rng.choice(['Redefined', '']))]))
    for j in range(rng.randint(0, 2)):
        name = 'h%d' % j
        cmds.append(cmd('FUNCTION', [Id(name)], cx.block(2)))
        cx.funcs.append((name, 'stmt', False))
    cx.entry = True
    cx.read = True
    for j in range(rng.randint(0, 2)):
        name = 'eh%d' % j
        cmds.append(cmd('FUNCTION', [Id(name)], cx.block(2)))
        cx.funcs.append((name, 'stmt', True))
    for t in ['article', 'book', 'misc', 'default.type']:
        if rng.random() < 0.7:
            cmds.append(cmd('FUNCTION', [Id(t)], cx.block(2) + [Sx(t + ':'), Id('write$')] + cx.str_e(2) + [Id('write$'), Id('newline$')]))
    cmds.append(cmd('FUNCTION', [Id('presort')], cx.str_e(2) + [Q('sort.key$'), Id(':=')]))
    cmds.append(cmd('FUNCTION', [Id('out')], [Id('cite$'), Id('write$'), Sx(' '), Id('write$'), Id('sort.key$'), Id('write$'), Id('newline$')] + cx.block(1) + [Id('call.type$')]))
    cmds.append(cmd('FUNCTION', [Id('out2')], cx.block(2) + [Id('cite$'), Id('write$'), Id('newline$')]))
    cx.entry = False
    cmds.append(cmd('FUNCTION', [Id('fin')], cx.block(2) + [Id('newline$')]))
    if rng.random() < 0.3:
        cmds.append(cmd('EXECUTE', [Id(rng.choice(['h0', 'fin']) if any(f[0] == 'h0' for f in cx.funcs) else 'fin')]))
    cmds.append(cmd('READ'))
    tail = []
    for _ in range(rng.randint(1, 5)):
        k = rng.random()
        if k < 0.3: tail.append(cmd('ITERATE', [Id('presort')])); tail.append(cmd('SORT'))
        elif k < 0.55: tail.append(cmd('ITERATE', [Id(rng.choice(['out', 'out2']))]))
        elif k < 0.75: tail.append(cmd('REVERSE', [Id(rng.choice(['out', 'out2']))]))
        elif k < 0.9: tail.append(cmd('EXECUTE', [Id('fin')]))
        else: tail.append(cmd('ITERATE', [Id('presort')]))
    cmds += tail
    nk = rng.randint(0, 4)
    keys = rng.sample(KEYS, nk)
    bib = gen_bib(rng, keys)
    k = rng.random()
    if k < 0.2: cites = ['*']
    elif k < 0.3: cites = []
    else:
        cites = rng.sample(keys, rng.randint(0, len(keys))) if keys else []
        if rng.random() < 0.15: cites.append('nokey')
        if rng.random() < 0.1 and cites: cites.append(cites[0].upper())
        if rng.random() < 0.1 and cites: cites.append(cites[0])
    return cmds, cites, bib

# ----------------------------------------------------------------------------------------
# malformed: token-level and command-level mutations of valid (loop-free) programs
SAFE_BUILTINS = [b for b in BUILTINS if b not in ('while$', 'call.type$') + PRINTERS]

def rand_token(rng, earlier_funcs):
    k = rng.random()
    if k < 0.2: return I(rng.choice([-1, 0, 1, 2, 70, 2147483648, -2147483649, 1114112]))
    if k < 0.4: return Sx(rng.choice(STR_POOL))
    if k < 0.7: return Id(rng.choice(SAFE_BUILTINS))
    if k < 0.8: return Id(rng.choice(['gi1', 'gs1', 'title', 'e.cnt', 'e.str', 'crossref', 'sort.key$', 'undefined.fn'] + earlier_funcs))
    if k < 0.92: return Q(rng.choice(['gi1', 'gs1', 'title', 'e.cnt', 'e.str', 'crossref', 'sort.key$', 'skip$', 'undefined.var', 'pop$']))
    return F(*[rand_token(rng, earlier_funcs) for _ in range(rng.randint(0, 2))])

def strip_fr_printers(body):
    return body

def mutate(rng, cmds):
    cmds = [[c[0], [list(g) for g in c[1]]] for c in cmds]
    k = rng.random()
    if k < 0.6:
        fidx = [i for i, c in enumerate(cmds) if S(c[0]).upper() == 'FUNCTION' and len(c[1]) == 2]
        if not fidx:
            return cmds
        for _ in range(rng.randint(1, 2)):
            i = rng.choice(fidx)
            body = cmds[i][1][1]
            earlier = [S(cmds[j][1][0][0][1]) for j in fidx if j < i]
            op = rng.random()
            pos = rng.randrange(len(body)) if body else 0
            if op < 0.3 and body: del body[pos]
            elif op < 0.45 and body: body.insert(pos, body[pos])
            elif op < 0.8:
                tok = rand_token(rng, earlier)
                if body and rng.random() < 0.6: body[pos] = tok
                else: body.insert(pos, tok)
            elif len(body) > 1:
                p = rng.randrange(len(body) - 1)
                body[p], body[p + 1] = body[p + 1], body[p]
        return cmds
    op = rng.random()
    i = rng.randrange(len(cmds))
    if op < 0.2 and cmds[i][1]:
        cmds[i][1] = cmds[i][1][:-1] + [[]]               # an empty last group (a missing group is a syntax error: C15)
    elif op < 0.35:
        del cmds[i]                                       # e.g. no READ, no ENTRY, an undefined function
    elif op < 0.5:
        if S(cmds[i][0]).upper() != 'READ':
            cmds.insert(i, cmds[i])                       # declared twice
    elif op < 0.6:
        j = rng.randrange(len(cmds)); cmds[i], cmds[j] = cmds[j], cmds[i]
    elif op < 0.7:
        cmds.insert(rng.randrange(len(cmds) + 1), cmd('SORT'))
    elif op < 0.8:
        cmds.insert(rng.randrange(len(cmds) + 1), cmd(rng.choice(['ITERATE', 'REVERSE', 'EXECUTE']), [rng.choice([Id('nofunc'), Id('gi1'), Id('skip$'), I(1), Sx('x'), F(), Id('title'), Id('cite$')])]))
    elif op < 0.9:
        cmds.insert(3, cmd(rng.choice(['INTEGERS', 'STRINGS']), [Id(rng.choice(['gi1', 'gs1', 'swap$', 'title', 'sort.key$', 'new']))]))
    else:
        nm = rng.choice(['ENTRY', 'MACRO', 'FUNCTION'])
        cmds.insert(rng.randrange(len(cmds) + 1), cmd(nm, *([[rng.choice([Id('x'), I(1), Sx('s'), F()] if nm != 'MACRO' else [Id('x'), Sx('s'), Q('q')])], [Id('y')], []][:ARITY[nm]])))
    return cmds

def has_fr_print(cmds):
    """a printer applied where a function / quoted variable may be on the stack: stay inside the domain by
    dropping such programs only when they really print one (decided by the run itself: see c03.py)"""
    return False


# ----------------------------------------------------------------------------------------
# programs that read no database: fully checked by the reference evaluator of c03_oracle
def gen_exec_program(rng):
    cx = Ctx(rng, loops=True)
    cmds = [cmd('INTEGERS', [Id(v) for v in cx.gints + ['cnt0', 'cnt1']]), cmd('STRINGS', [Id(v) for v in cx.gstrs])]
    for j in range(rng.randint(1, 4)):
        name = 'h%d' % j
        cmds.append(cmd('FUNCTION', [Id(name)], cx.block(3) + (cx.pick([cx.int_e, cx.str_e])(3) if rng.random() < 0.5 else [])))
        cx.funcs.append((name, 'stmt', False))
        if rng.random() < 0.6:
            cmds.append(cmd('EXECUTE', [Id(name)]))
    cmds.append(cmd('EXECUTE', [Id(cx.funcs[-1][0])]))
    return cmds, [], ''

# ITERATE / REVERSE / SORT and entry variables, made visible in the output (read by c03_oracle.oracle_probe)
PROBE_TITLES = ['b', 'a', 'B', 'ab', 'a b', 'zz', '', 'a', 'b', '10', '9', 'a{b}', 'Z']
PROBE_MARKS = ('first', 'count', 'iterate', 'reverse', 'sorted', 'reset')
def probe_header(with_default):
    def mark(l):
        return cmd('FUNCTION', [Id('mark.' + l)], [Sx('#' + l), Id('write$'), Id('newline$')])
    def typ(name, tag):
        return cmd('FUNCTION', [Id(name)], [Sx(tag), Id('write$'), Id('newline$')])
    sep = [Sx(':'), Id('*')]
    cmds = [cmd('ENTRY', [Id('title'), Id('note')], [Id('n'), Id('m')], [Id('t')]), cmd('INTEGERS', [Id('g')]), cmd('MACRO', [Id('emp')], [Sx('')]), cmd('MACRO', [Id('jan')], [Sx('January')]),
            typ('misc', '[M]'), typ('book', '[B]')] + ([typ('default.type', '[D]')] if with_default else []) + [
            cmd('FUNCTION', [Id('probe.show')], [Sx('<'), Id('cite$'), Id('*')] + sep + [Id('n'), Id('int.to.str$'), Id('*')] + sep +
                                                [Id('sort.key$'), Id('*')] + sep + [Id('m'), Id('int.to.str$'), Id('*')] + sep + [Id('t'), Id('*')] + sep +
                                                # a field that occurs in the entry, however empty, is a string; only an absent one is missing
                                                [Id('note'), Id('missing$'), Id('int.to.str$'), Id('*')] + sep + [Id('note'), Id('empty$'), Id('int.to.str$'), Id('*'),
                                                Sx(':['), Id('*'), Id('note'), Id('*'), Sx(']>'), Id('*'), Id('write$'), Id('newline$'), Id('call.type$')]),
            cmd('FUNCTION', [Id('probe.count')], [Id('g'), I(1), Id('+'), Q('g'), Id(':='), Id('g'), Q('n'), Id(':='),
                                                 Id('g'), I(7), Id('+'), Q('m'), Id(':='), Sx('x'), Id('g'), Id('int.to.str$'), Id('*'), Q('t'), Id(':='),
                                                 Id('title'), Id('duplicate$'), Id('missing$'), F(Id('pop$'), Sx('')), Q('skip$'), Id('if$'), Q('sort.key$'), Id(':='), Id('probe.show')]),
            # back to the default values: an assignment of #0 / "" is an assignment like any other
            cmd('FUNCTION', [Id('probe.reset')], [I(0), Q('m'), Id(':='), Sx(''), Q('t'), Id(':='), Id('probe.show')])]
    cmds += [mark(l) for l in PROBE_MARKS]
    cmds += [cmd('READ'), cmd('EXECUTE', [Id('mark.first')]), cmd('ITERATE', [Id('probe.show')]),
             cmd('EXECUTE', [Id('mark.count')]), cmd('ITERATE', [Id('probe.count')])]
    return cmds
PROBE_STEPS = {
    'sorted': [cmd('SORT'), cmd('EXECUTE', [Id('mark.sorted')]), cmd('ITERATE', [Id('probe.show')])],
    'iterate': [cmd('EXECUTE', [Id('mark.iterate')]), cmd('ITERATE', [Id('probe.show')])],
    'reverse': [cmd('EXECUTE', [Id('mark.reverse')]), cmd('REVERSE', [Id('probe.show')])],
    'count': [cmd('EXECUTE', [Id('mark.count')]), cmd('ITERATE', [Id('probe.count')])],
    'reset': [cmd('EXECUTE', [Id('mark.reset')]), cmd('ITERATE', [Id('probe.reset')])],
    'reset_rev': [cmd('EXECUTE', [Id('mark.reset')]), cmd('REVERSE', [Id('probe.reset')])],
}
def order_probe(rng):
    cmds = probe_header(rng.random() < 0.7)
    for _ in range(rng.randint(1, 6)):
        k = rng.random()
        cmds += PROBE_STEPS['sorted' if k < 0.3 else 'iterate' if k < 0.45 else 'reverse' if k < 0.65 else 'count' if k < 0.8 else 'reset' if k < 0.9 else 'reset_rev']
    keys = rng.sample(['k1', 'k2', 'k3', 'k4', 'k5', 'k6', 'k7'], rng.randint(0, 7))
    lines = ['@string{mine = "Mine"}\n'] if rng.random() < 0.5 else []
    for k in keys:
        fields = []
        if rng.random() >= 0.15:
            fields.append('title = {%s}' % rng.choice(PROBE_TITLES))
        if rng.random() < 0.65:      # present, often empty in one of the ways a .bib file can say it
            fields.append('note = %s' % rng.choice(['{}', '""', 'emp', '{  }', '" "', '{x}', '"N"', '{}', 'emp # ""',
                                                      # macros the style defines (jan, emp), the database may define (mine), nobody defines (the other months!)
                                                      'jan', 'JAN # " x"', 'feb', 'Feb # " y"', 'dec', 'mine', '"a" # nope # "b"', 'Jan # mine']))
        if rng.random() < 0.35:
            fields.append('crossref = {%s}' % rng.choice(['p1', 'p2', 'p3']))
        lines.append('@%s{%s}\n' % (rng.choice(['misc', 'misc', 'book', 'BOOK', 'weird']), ', '.join([k] + fields)))
    # the cross-referenced parents come last in the file (known finding F13), with a non-empty, an empty and no note
    lines += ['@book{p1, note = {P}, title = {pt}}\n', '@misc{p2, note = {}}\n', '@misc{p3, title = {q}}\n']
    bib = ''.join(lines)
    cites = rng.sample(keys, rng.randint(0, len(keys)))
    cites = [c.upper() if rng.random() < 0.2 else c for c in cites]
    if cites and rng.random() < 0.25:
        cites.insert(rng.randint(0, len(cites)), rng.choice(cites).swapcase())     # the same entry under two spellings
    if rng.random() < 0.2: cites = ['*']
    return cmds, cites, bib

# ----------------------------------------------------------------------------------------
PIN_BIB = ('@preamble{"PRE"}\n@article{k1, title = {The {T}itle: a story}, author = "Knuth, Donald E. and Lamport, Leslie", year = 1999}\n'
           '@book{K2, title = "x", note = jan, crossref = {k1}}\n@misc{a3, title = {Zeta}, month = mac}\n@weird{w4, author = {}}\n')

def pinned():
    P = []
    def ex(*toks):
        P.append([straight(list(toks)), [], ''])
    # defects of DESIGN.md section 4 that touch C03 (all repaired in /repo)
    ex(Sx('}'), Id('add.period$')); ex(Sx('}}'), Id('add.period$')); ex(Sx('a.}'), Id('add.period$')); ex(Sx('a}'), Id('add.period$'))
    ex(Sx('A B'), I(2), Sx('{ff}'), Id('format.name$')); ex(Sx('A B'), I(0), Sx('{ff}'), Id('format.name$'))
    ex(Sx(''), I(1), Id('text.prefix$')); ex(Sx('abc'), I(0), Id('text.prefix$'))
    ex(Sx('abc'), I(-1), I(5), Id('substring$')); ex(Sx('a{b}c'), I(-10), I(1), Id('substring$'))
    # what the golden runs never reach
    ex(Sx('abcdef'), I(-2), I(3), Id('substring$')); ex(I(2), I(5), Id('-')); ex(I(2), I(5), Id('<')); ex(I(5), I(2), Id('<'))
    ex(Sx('a'), Id('chr.to.int$')); ex(Sx('ab'), Id('chr.to.int$')); ex(I(1), Sx('x'), Id('top$'), Id('stack$')); ex(I(1), Sx('x'), I(-7), Id('stack$'))
    # Python-level quirks of the dynamic typing
    ex(I(1), I(2), Id('*')); ex(Sx('a'), Sx('b'), Id('+')); ex(I(0), Id('add.period$')); ex(I(1), Id('add.period$')); ex(I(0), Id('empty$'))
    ex(Q('gi'), Q('gi'), Id('=')); ex(Q('gi'), Q('gs'), Id('=')); ex(Q('skip$'), Q('skip$'), Id('=')); ex(Q('skip$'), Q('pop$'), Id('='))
    ex(Q('sort.key$'), Q('sort.key$'), Id('=')); ex(F(I(1)), F(I(1)), Id('=')); ex(F(I(1)), F(Sx('1')), Id('=')); ex(F(F()), F(F()), Id('='))
    ex(I(2147483647), Id('int.to.chr$')); ex(I(2147483648), Id('int.to.chr$')); ex(I(-2147483648), Id('int.to.chr$')); ex(I(-2147483649), Id('int.to.chr$'))
    ex(I(1114111), Id('int.to.chr$')); ex(I(1114112), Id('int.to.chr$')); ex(I(55296), Id('int.to.chr$'), Id('chr.to.int$'))
    ex(I(5), Id('write$')); ex(I(5), Id('write$'), Id('newline$')); ex(Sx('x'), Id('write$')); ex(F(), Id('write$'), Id('newline$'))
    ex(I(1), Q('gi'), Q('skip$'), Id('if$')); ex(I(0), Q('gi'), Q('gs'), Id('if$')); ex(I(1), I(2), I(3), Id('if$'))
    ex(I(3), Q('gi'), Id(':='), F(Id('gi')), F(Id('gi'), I(1), Id('-'), Q('gi'), Id(':='), Sx('x'), Id('write$')), Id('while$'), Id('newline$'))
    ex(Sx('{' * 101 + '}' * 101), Id('purify$')); ex(Sx('{' * 100 + '}' * 100), Id('text.length$')); ex(Sx('x ' * 100), Id('write$'), Id('newline$'))
    ex(Sx('abc'), Sx(''), Id('change.case$')); ex(Sx('abc'), I(0), Id('change.case$')); ex(Sx('abc'), I(1), Id('change.case$')); ex(Sx('aBc: De'), Sx('Tx'), Id('change.case$'))
    ex(Id('global.max$'), Id('entry.max$'), Id('+')); ex(I(7), Q('global.max$'), Id(':='), Id('global.max$'))
    ex(Id('cite$')); ex(Id('type$')); ex(Id('preamble$')); ex(Id('call.type$')); ex(Id('sort.key$')); ex(Sx('k'), Q('sort.key$'), Id(':='))
    ex(Id('nosuch')); ex(Q('nosuch')); ex(Id('GI'), Id('Gs'), Id('SWAP$')); ex(Q('f')); ex(Q('f'), Q('f'), Id('='))
    # commands
    P.append([[cmd('EXECUTE', [I(3)]), cmd('EXECUTE', [Sx('s')]), cmd('EXECUTE', [F(I(1))]), cmd('EXECUTE', [Q('skip$')]), cmd('EXECUTE', [Id('stack$')])], [], ''])
    P.append([[cmd('EXECUTE', [])], [], '']); P.append([[cmd('SORT')], [], '']); P.append([[cmd('SORT')], ['a'], ''])
    P.append([[cmd('ITERATE', [Id('skip$')])], [], '']); P.append([[cmd('ITERATE', [Id('skip$')])], ['a'], '']); P.append([[cmd('ITERATE', [Id('nofn')])], [], ''])
    P.append([[cmd('ENTRY', [Id('crossref')], [], [])], [], '']); P.append([[cmd('ENTRY', [Id('a'), Id('A')], [], [])], [], '']); P.append([[cmd('ENTRY', [], [Id('swap$')], [])], [], ''])
    P.append([[cmd('ENTRY', [I(1)], [], [])], [], '']); P.append([[cmd('ENTRY', [F()], [], [])], [], '']); P.append([[cmd('ENTRY', [Sx('a'), Q('b')], [], []), cmd('EXECUTE', [Q('a')]), cmd('EXECUTE', [Q('B')])], [], ''])
    P.append([[cmd('INTEGERS', [Id('x'), Id('X'), Id('swap$')]), cmd('EXECUTE', [Id('swap$')]), cmd('STRINGS', [Id('x')]), cmd('EXECUTE', [Id('x')])], [], ''])
    P.append([[cmd('FUNCTION', [Id('f')], []), cmd('FUNCTION', [Id('F')], [])], [], '']); P.append([[cmd('FUNCTION', [I(1)], [])], [], '']); P.append([[cmd('FUNCTION', [], [])], [], ''])
    P.append([[cmd('MACRO', [Id('a')], [Sx('x')]), cmd('MACRO', [Id('b')], [I(3)]), cmd('MACRO', [Id('a')], [Sx('y')]), cmd('MACRO', [I(1)], [Id('zz')])], [], ''])
    P.append([[cmd('MACRO', [F()], [Sx('x')])], [], ''])
    # scoping of entry variables under ITERATE / REVERSE / SORT
    prog = [cmd('ENTRY', [Id('title'), Id('author'), Id('year'), Id('note'), Id('month')], [Id('n')], [Id('s')]), cmd('INTEGERS', [Id('g')]), cmd('STRINGS', [Id('t')]),
            cmd('MACRO', [Id('mac')], [Sx('Macro Text')]),
            cmd('FUNCTION', [Id('count')], [Id('g'), I(1), Id('+'), Q('g'), Id(':='), Id('g'), Q('n'), Id(':='), Id('title'), Id('duplicate$'), Id('missing$'), F(Id('pop$'), Sx('')), Q('skip$'), Id('if$'), Q('sort.key$'), Id(':=')]),
            cmd('FUNCTION', [Id('show')], [Id('cite$'), Id('write$'), Sx('/'), Id('write$'), Id('n'), Id('int.to.str$'), Id('write$'), Sx('/'), Id('write$'), Id('sort.key$'), Id('write$'), Sx('/'), Id('write$'), Id('type$'), Id('write$'),
                                           Sx('/'), Id('write$'), Id('crossref'), Id('write$'), Sx('/'), Id('write$'), Id('note'), Id('write$'), Sx('/'), Id('write$'), Id('month'), Id('write$'), Id('newline$'), Id('call.type$')]),
            cmd('FUNCTION', [Id('article')], [Sx('ART '), Id('author'), Id('num.names$'), Id('int.to.str$'), Id('*'), Id('write$'), Id('newline$')]),
            cmd('FUNCTION', [Id('default.type')], [Sx('DEF'), Id('write$'), Id('newline$')]),
            cmd('READ'), cmd('ITERATE', [Id('count')]), cmd('ITERATE', [Id('show')]), cmd('SORT'), cmd('ITERATE', [Id('show')]), cmd('REVERSE', [Id('show')]),
            cmd('EXECUTE', [Id('preamble$')]), cmd('EXECUTE', [Id('cite$')]), cmd('REVERSE', [Id('count')]), cmd('ITERATE', [Id('show')])]
    for cites in (['*'], ['a3', 'k1', 'K2'], ['K2'], ['w4', 'nokey', 'a3'], [], ['k1', 'K1', 'k1']):
        P.append([prog, cites, PIN_BIB])
    P.append([[c for c in prog if S(c[0]) != 'READ'], ['k1'], PIN_BIB])
    P.append([[c for c in prog if S(c[0]) != 'SORT'] + [cmd('ITERATE', [Id('show')])], ['k1', 'a3'], PIN_BIB])
    P.append([[c for c in prog if not (S(c[0]) == 'ITERATE' and S(c[1][0][0][1]) == 'count')], ['k1', 'a3'], PIN_BIB])
    for p in P:
        yield ('pinned', 1, p)

def styles():
    """the style files shipped with the test-suite, over xampl.bib"""
    d = os.path.join(REPO, 'tests', 'data')
    if not os.path.isdir(d):
        d = '/repo/tests/data'
    if not os.path.isdir(d):
        return
    from pybtex.bibtex import bst
    try:
        bib = open(os.path.join(d, 'xampl.bib'), encoding='utf-8').read()
    except Exception:
        return
    for name in ('plain', 'unsrt', 'alpha'):
        p = os.path.join(d, name + '.bst')
        if not os.path.exists(p):
            continue
        cmds = norm([enc_command(c) for c in bst.parse_file(p)])
        if printable(cmds):
            yield ('styles', 1, [cmds, ['*'], bib])

def finalize(case):
    """a command with missing brace groups cannot be the last thing in a .bst file (the parser looks for the
    next brace and meets the end of file: C15's business) -- let a harmless command follow it"""
    stream, fn, (cmds, cites, bib) = case
    if cmds and len(cmds[-1][1]) < ARITY.get(S(norm(cmds[-1][0])).upper(), 0):
        cmds = list(cmds) + [cmd('EXECUTE', [Id('skip$')])]
    return (stream, fn, [cmds, cites, bib])

def gen_cases(tier, rng):
    for c in gen_all(tier, rng):
        yield finalize(c)

def gen_all(tier, rng):
    for c in pinned():
        yield c
    for c in styles():
        yield c
    for c in gen_exhaustive(tier, rng):
        yield c
    for c in gen_kinds(tier, rng):
        yield c
    for c in gen_substring(tier, rng):
        yield c
    for c in gen_string_builtins(tier, rng):
        yield c
    for c in gen_write_long(tier, rng):
        yield c
    for c in gen_width(tier, rng):
        yield c
    for i in range(1200 if tier == 'quick' else 10000):
        cmds, cites, bib = gen_program(rng, loops=True)
        yield ('random', 1, [cmds, cites, bib])
    for i in range(1200 if tier == 'quick' else 10000):
        yield ('random_exec', 1, list(gen_exec_program(rng)))
    for i in range(600 if tier == 'quick' else 6000):
        yield ('order_probe', 1, list(order_probe(rng)))
    for i in range(1200 if tier == 'quick' else 10000):
        cmds, cites, bib = gen_program(rng, loops=False)
        yield ('malformed', 1, [mutate(rng, cmds), cites, bib])
