# C10 -- the .bib reader is total: located pybtex errors only, confined to the bad entry.
# Model: coq/Model/Scanner.v + coq/Model/BibParser.v (+ BibtexStr.v, Names.v); theorems: coq/Props/C10.v
import itertools, random
from core import *
from props.bib_util import *

ID = 'C10'

def impl_parse3(arg): return parse_all_modes(S(arg[0]))
def impl_low(arg): return lowlevel_in_mode(arg[0], S(arg[1]))
def impl_confine(arg):
    a, bad, c = S(arg[0]), S(arg[1]), S(arg[2])
    return [parse_in_mode(2, a + bad + c), parse_in_mode(2, a + c), parse_in_mode(2, a),
            parse_in_mode(1, a + bad + c), parse_in_mode(1, a), parse_in_mode(0, a + bad + c)]
def impl_parse_capture(arg): return parse_in_mode(2, S(arg[0]))

DEFAULT_MONTHS = [['jan', 'January'], ['feb', 'February'], ['mar', 'March'], ['apr', 'April'], ['may', 'May'], ['jun', 'June'],
                  ['jul', 'July'], ['aug', 'August'], ['sep', 'September'], ['oct', 'October'], ['nov', 'November'], ['dec', 'December']]
DEFAULT_PF = ['author', 'editor']
def opts_kwargs(o):
    """wire options [wanted_opt, keyless, macros, person_fields] -> Parser(**kwargs); an option that has its
    default value is not passed at all (so the 'not given' code path is the one exercised)"""
    kw = {}
    if o[0]:
        kw['wanted_entries'] = [S(k) for k in o[0][0]]
    if o[1]:
        kw['keyless_entries'] = True
    macros = [[S(k), S(v)] for k, v in o[2]]
    if macros != DEFAULT_MONTHS:
        kw['macros'] = dict(macros)
    pf = [S(x) for x in o[3]]
    if pf != DEFAULT_PF:
        kw['person_fields'] = pf
    return kw
def impl_parse3_opts(arg): return parse_all_modes(S(arg[1]), opts_kwargs(arg[0]))
def impl_located(arg): return parse_in_mode(2, S(arg[0]))

FUNCS = {
    1: ('Parser().parse_string(text) in strict / non-strict / capture mode', impl_parse3, ('T', 'S')),
    2: ('list(LowLevelParser(text))', impl_low, ('T', 'I', 'S')),
    3: ('textutils.normalize_whitespace', impl_normalize_ws, ('T', 'S')),
    4: ('LowLevelParser.<PATTERN>.match', impl_match, ('T', 'X', 'S')),
    5: ('bibtex.month_names', impl_months, 'X'),
    6: ('Scanner.get_token', impl_get_token, ('T', 'X', 'S')),
    7: ('Scanner.skip_to', impl_skip_to, ('T', 'X', 'S')),
    8: ('capture-mode reading of x+bad+y, x+y, x (confinement)', impl_confine, ('T', 'S', 'S', 'S')),
    9: ('capture-mode reading', impl_parse_capture, ('T', 'S')),
    13: ('Parser(wanted_entries=, keyless_entries=, macros=, person_fields=).parse_string(text) in strict / non-strict / capture mode', impl_parse3_opts, ('T', 'X', 'S')),
    14: ('capture-mode reading of a text with one malformed construct at a known position', impl_located, ('T', 'X', 'X')),
}

def canon(fn, r):
    if fn in (1, 8, 13):
        return [canon_parse(x) for x in r]
    if fn in (9, 14):
        return canon_parse(r)
    if fn == 2:
        return canon_low(r)
    if fn == 5:
        return sorted(r)
    return r

TOK = ['@', 'a', '1', '{', '}', '(', ')', '"', ',', '=', '#', '%', ' ', '\n']
PREFIXES = ['@', '@a{', '@a(', '@a{k,', '@a{k,a=', '@a{k,a={', '@a{k,a="', '@a(k,a=1', '@string{a=', '@preamble{', '@comment{', '@a{k,author={', '@a{k,a=1,a=', '@a{k}@A{K,a=']

RULE = {
 'quick': 'exhaustive: every string of length <= 4 over the 14-symbol token alphabet {@ a 1 { } ( ) " , = # % space newline}, and every such string of length <= 3 after each of 14 state-reaching prefixes (@, @a{, @a{k,a=", @string{a=, ...), each read in strict, non-strict and capture mode; corruption: 9 three-entry files x every token of the middle entry x {delete, duplicate, truncate, replace by each of 12 token kinds}; random token soup, random Unicode noise, deep nesting around the limit of 100, pinned defect inputs; the token patterns against the live regex objects on all strings of length <= 4 over per-pattern alphabets; Scanner.get_token / skip_to / normalize_whitespace separately. distinct = distinct (function, argument); non-trivial = at least one error reported or at least one entry read.',
 'thorough': 'as quick plus every string @w with |w| = 4, strings of length <= 4 after 2 of the prefixes, pattern strings of length <= 5, 10x more random cases',
}
RULE = RULE['quick'] + ' || thorough: ' + RULE['thorough']
EXHAUSTIVE = {'quick': 'all strings of length <= 4 over {@ a 1 { } ( ) " , = # % space newline}; all strings of length <= 3 over the same alphabet after each of 14 prefixes',
              'thorough': 'all strings of length <= 4 and all strings @w with |w| = 4 over {@ a 1 { } ( ) " , = # % space newline}; all strings of length <= 3 after each of 14 prefixes and of length <= 4 after 2 of them'}
TRUSTED_BASE = ['modelled (not verified) code: pybtex/database/input/bibtex.py LowLevelParser and Parser, pybtex/scanner.py Scanner, textutils.normalize_whitespace, BibliographyData.add_entry/add_to_preamble, errors.report_error (three modes), LowLevelParser.get_error_context (only its partial operation), split_name_list and Person through Model/BibtexStr.v and Model/Names.v; regexes are hand-written matchers swept against the live objects',
                'non-strict mode is observed through the warnings printed to pybtex.io.stderr (replaced by a StringIO)']
ASSUMPTIONS = ['Python str.isspace / regex \\s = the 29 code points of Base/PyChar.is_space', 'str.lower() = ASCII lower on the characters used as keys / identifiers (non-ASCII cased letters are outside the generated domain)']
PARTIAL = ['for the reader with options (Model/BibParserOpt.v) totality, located errors, capture = non-strict and strict-raises-first are proved (*_options); the confinement theorems are about the default options',
           'character-level suffix confinement is proved under the semantic hypothesis that the corrupted text is never read past its own end (Props/C10.v suffix_confinement); that balanced corruptions satisfy it is checked by the oracle per generated case, not proved in general',
           'confinement is proved at command level (Props/C10.v: prefix_confinement_partial / suffix_confinement_partial); the character-level statement for arbitrary balanced corrupted text is left to the correspondence run and the oracle',
           'errors_located is proved for syntax errors (line = 1 + line breaks consumed, position inside the command); that the position is the "offending construct" in the user\'s sense is not formalised']

def describe(fn, arg):
    if fn in (1, 9):
        return {'text': S(arg[0])}
    if fn == 13:
        return {'Parser_kwargs': opts_kwargs(arg[0]), 'text': S(arg[1])}
    if fn == 14:
        return {'text': S(arg[0]), 'offending_position': arg[1], 'expected_line': line_at(S(arg[0]), arg[1])}
    if fn == 2:
        return {'mode': MODES.get(arg[0]), 'text': S(arg[1])}
    if fn == 8:
        return {'before': S(arg[0]), 'corrupted_entry': S(arg[1]), 'after': S(arg[2])}
    if fn in (4, 6, 7):
        return {'patterns': arg[0], 'text': S(arg[1])}
    if fn == 3:
        return {'text': S(arg[0])}
    return {'fn': fn}

def nontrivial(fn, arg, out):
    if fn in (1, 13):
        c = out[2]
        return c[0] == 0 and (len(c[1][0]) > 0 or len(c[1][2]) > 0)
    if fn == 8:
        c = out[0]
        return c[0] == 0 and len(c[1][2]) > 0
    return out != [] and out[:1] != [1]

# ---------------------------------------------------------------------------------------
# three-entry files for the corruption stream: token lists
def base_files():
    E = []
    E.append(['@', 'book', '{', 'k2', ',', 'title', '=', '{', 'The x', '}', ',', 'year', '=', '1999', '}'])
    E.append(['@', 'Article', '(', 'k2', ',', 'title', '=', '"', 'A {B} c', '"', ',', 'month', '=', 'jan', ')'])
    E.append(['@', 'misc', '{', 'k2', ',', 'author', '=', '{', 'A. Bee and Cee, D.', '}', ',', 'note', '=', 'mm', '#', '"', ' x', '"', '#', '12', ',', '}'])
    E.append(['@', 'string', '{', 'zz', '=', '"', 'Z', '"', '}'])
    E.append(['@', 'preamble', '{', '"', 'pre', '"', '#', 'mm', '}'])
    E.append(['@', 'comment', '{', 'anything', '}'])
    E.append(['@', 'inbook', '{', 'k2', ',', 'title', '=', '{', 'a {b {c}} d', '}', ',', 'TITLE', '=', '3', ',', 'editor', '=', '{', 'x, y, z, w', '}', '}'])
    E.append(['@', 'a', '{', 'k2', '}'])
    E.append(['@', 'b', '(', 'k2', ',', 'x', '=', '{', '(', '}', ')'])
    return E
KINDS = ['@', 'a', '1', '{', '}', '(', ')', '"', ',', '=', '#', '%']

def render_tokens(toks, rng):
    out = []
    for i, t in enumerate(toks):
        out.append(t)
        out.append(rng.choice([' ', ' ', '', '\n', '\r\n ', '\t']) if i + 1 < len(toks) else '')
    s = ''.join(out)
    return s

def join_tokens(toks, sep):
    # separator between tokens, but not inside value text (between an opening and closing delimiter the text token is glued)
    return sep.join(toks)

def corruption_cases(tier, rng):
    before = '@string{mm = "M"}\n@book{k1, title = {One}, author = {A B}}\n'
    after = '\n@book{k3, title = mm # {Three}, year = 1}\n@misc(k4, note = "n")\n'
    for toks in base_files():
        for sep in ([' '] if tier == 'quick' else [' ', '\n', '\r\n']):
            n = len(toks)
            for i in range(n):
                muts = [('delete', toks[:i] + toks[i + 1:]), ('duplicate', toks[:i + 1] + toks[i:]), ('truncate', toks[:i + 1])]
                for k in KINDS:
                    if k != toks[i]:
                        muts.append(('replace', toks[:i] + [k] + toks[i + 1:]))
                for name, m in muts:
                    yield ('corruption', 8, [before, sep.join(m), after])
            yield ('corruption', 8, [before, sep.join(toks), after])
            # data-level malformations: the key of an earlier / later entry (same and other letter case),
            # the whole entry written twice, a field name repeated (same and other letter case)
            if 'k2' in toks:
                ki = toks.index('k2')
                for k in ('k1', 'K1', 'k3', 'K3', 'k4', 'K2'):
                    yield ('corruption_data', 8, [before, sep.join(toks[:ki] + [k] + toks[ki + 1:]), after])
                    yield ('corruption_data', 8, [before, sep.join(toks[:ki] + [k] + toks[ki + 1:]) + '\n' + sep.join(toks), after])
                yield ('corruption_data', 8, [before, sep.join(toks) + sep + sep.join(toks), after])
                yield ('corruption_data', 8, [before, sep.join(toks) + '\n' + sep.join(toks[:ki] + ['K2'] + toks[ki + 1:]), after])
            eqs = [j for j, t in enumerate(toks) if t == '=' and j > 0]
            if len(eqs) >= 2 and toks[0] == '@' and toks[1] not in ('string', 'preamble', 'comment'):
                first = toks[eqs[0] - 1]
                for name in (first, first.upper(), first.capitalize()):
                    yield ('corruption_data', 8, [before, sep.join(toks[:eqs[1] - 1] + [name] + toks[eqs[1]:]), after])
    # random contexts
    for _ in range(200 if tier == 'quick' else 4000):
        toks = list(rng.choice(base_files()))
        i = rng.randrange(len(toks))
        op = rng.choice(['delete', 'duplicate', 'truncate', 'replace', 'replace'])
        if op == 'delete': m = toks[:i] + toks[i + 1:]
        elif op == 'duplicate': m = toks[:i + 1] + toks[i:]
        elif op == 'truncate': m = toks[:i + 1]
        else: m = toks[:i] + [rng.choice(KINDS)] + toks[i + 1:]
        yield ('corruption', 8, [before, render_tokens(m, rng), after])

PINNED = [
    '@a{k, author={~}}',                       # F1 (fixed): UnboundLocalError in find_pos
    '@\n@book{k3, title = {x}}',               # F25
    '@a{k, t = ' + '{' * 101 + 'x' + '}' * 101 + '}',
    '@a{k, t = ' + '{' * 100 + 'x' + '}' * 100 + '}',
    '@a{k, author = ' + '{' * 100 + '\\x' + '}' * 100 + '}',
    '@a{k, author = "' + '{' * 99 + ' and {\\x}' + '}' * 99 + '"}',
    '@a{k, t = ' + '{' * 3000,
    '@a{k, author = {a, b, c, d and e,f,g,h,i}}',
    '@a{k, a = 1, A = 2}@A{K, b = 3}@a{k2, x = undefined # "y"}',
    '@preamble{}@preamble{"a" # }',
    '@string{x = "1"} @a{, y = x}@b{}@c{,}',
    '@a{k,\r\n\r t = "x\ry\n" \n # }',
    '@a{k, t = "}"}', '@a(k, t = {)})', '@a(k}, t = 1)', '@a{k(, t = 1}',
    '@comment{ @a{k} }', '@COMMENT x', '@comment', '@string(a = b)', '@String{jan = "J"}@a{k, m = JAN}',
    '@a{k, t = {x}} junk %@b{k2}', '@@a{k}', '@a @b{k}', '@1{k}', '@a{k, 1 = 2}',
    '@a{k, A = 1, a = 2, Author = {X}, author = {Y}}',     # duplicates differing in case, upper-case first
]

OPTION_SETS = [
    [[[]], 0, DEFAULT_MONTHS, DEFAULT_PF],                    # wanted_entries=[]
    [[['*']], 0, DEFAULT_MONTHS, DEFAULT_PF],
    [[['k1', 'K3', 'k:9', 'k']], 0, DEFAULT_MONTHS, DEFAULT_PF],
    [[['k2', 'a']], 0, [], DEFAULT_PF],
    [[], 1, DEFAULT_MONTHS, DEFAULT_PF],                      # keyless_entries=True
    [[['unnamed-1', 'K2']], 1, DEFAULT_MONTHS, ['Author', 'translator']],
    [[], 0, [], DEFAULT_PF],                                  # macros={}
    [[], 0, [['Foo', 'bar'], ['JAN', 'J'], ['foo', 'baz'], ['a', '']], DEFAULT_PF],
    [[], 0, DEFAULT_MONTHS, []],                              # person_fields=[]
    [[['K']], 1, [['mm', 'x']], ['title', 'Note']],
]
OPTION_TEXTS = [
    '@string{a = undefinedmacro}', '@preamble{undefinedmacro}', '@string{a = b # "x"} @a{k, t = a # c}', '@preamble{"p" # q}@a{k2, t = q}',
    '@a{k2, crossref = {k9}, t = und}@b{k9, t = und}@c{k8, t = und}', '@a{k1, crossref = "K5"}@a{k5}@a{K1}', '@a{k, t = und}', '@a{K, author = {A and B}, Title = {t}, translator = {X, Y}}',
    '@a{t = 1, u = und}', '@a{, t = 1}@b{x = {y}}@c{k}', '@a(k2, note = mm # jan # foo # Foo)', '@a{k, t = {x}', '@a{k, t = und', '@a{k, author = {a, b, c, d}}@a{k3, a = a}@A{K3}',
]

NLS = ['\n', '\r', '\r\n', '\r', '\n', '\r\r\n', '\n\r']
NOBREAK_WS = ['\x0b', '\x0c', '\x1c', '\x1d', '\x1e', '\x85', '\u2028', '\u2029', ' ', '\t']
def located_cases(tier, rng):
    """texts with exactly one malformed construct whose position is known by construction ('§' marks it),
    over all three line terminators and mixtures, with whitespace that is NOT a line break mixed in"""
    templates = [
        '@a{k,|x|=|§}',              # token required where the value should start
        '@a{k,|x|§y}',               # '=' required
        '@a{k,|x|=|{v}|§@b{k2}',     # closing delimiter / ',' required
        '@a{k,|x|=|§"abc|def',       # unterminated string: the string starts at the quote
        '@a{k,|x|=|und§|,|y|=|1}',   # undefined macro
        '@a|§,|{k}',                 # '(' or '{' required
        '@a{k,|x|=|"a|§}|b"}',       # unbalanced braces (reported after the brace)
        '@a(|§,x=1)',                # entry key required
        '@a{k,|x|=|{v}|#|§}',        # value part required after '#'
        '@a{k,|x|=|{v}|§',           # premature end of file
    ]
    n = 40 if tier == 'quick' else 400
    for t in templates:
        for i in range(n):
            def ws():
                if i < len(NLS):
                    return NLS[i] * rng.choice([1, 1, 2])
                return ''.join(rng.choice(NLS + NOBREAK_WS + [' ', ' ']) for _ in range(rng.choice([0, 1, 1, 2, 3])))
            lines = []
            for j in range(rng.randint(0, 4)):
                lines.append(rng.choice(['@ok{k%d, t = {v}}' % j, 'junk text', '', '@string{s%d = "x"}' % j, '@ok{q%d,' % j + rng.choice(NLS) + ' t = {a' + rng.choice(NLS) + 'b}}']) + rng.choice(NLS) * rng.choice([1, 1, 2]))
            body = ''.join(ws() if c == '|' else c for c in t)
            if '§}|b' in t:
                pass
            text = ''.join(lines) + body
            pos = text.index('§')
            text = text.replace('§', '')
            if t.startswith('@a{k,|x|=|"a|§}'):
                pos += 1          # the error is raised right after the unbalanced brace has been consumed
            if t.endswith('§') and t.startswith('@a{k,|x|=|{v}|§'):
                pos = len(text)   # end of file
            yield ('located', 14, [text, pos])

def gen(tier, rng):
    yield ('tables', 5, [])
    for o in OPTION_SETS:
        for t in PINNED + OPTION_TEXTS:
            yield ('options_pinned', 13, [o, t])
        for p in PREFIXES:
            for n in range(0, 3):
                for tup in itertools.product(TOK, repeat=n):
                    yield ('options_exhaustive', 13, [o, p + ''.join(tup)])
    k = 0
    for c in corruption_cases('quick', random.Random(7)):
        k += 1
        if k % (6 if tier == 'quick' else 2) == 0:
            o = OPTION_SETS[(k // 2) % len(OPTION_SETS)]
            yield ('options_corruption', 13, [o, S(norm(c[2][0])) + S(norm(c[2][1])) + S(norm(c[2][2]))])
    for c in located_cases(tier, rng):
        yield c
    # the corruption contexts again with the entries on ONE line: the following entry starts right after the
    # corrupted one (separated by a blank / nothing / a tab), and the whole file on one line
    for gap, oneline in ((' ', False), ('', False), ('\t', False), (' ', True), ('', True)):
        k = 0
        for c in corruption_cases('quick', random.Random(13)):
            k += 1
            if k % (5 if tier == 'quick' else 2) == 0:
                b, bad, a = S(norm(c[2][0])), S(norm(c[2][1])), S(norm(c[2][2]))
                b = b.rstrip('\n') + gap
                a = gap + a.lstrip('\n')
                if oneline:
                    b, bad, a = b.replace('\n', ' '), bad.replace('\n', ' '), a.replace('\n', ' ')
                yield ('corruption_one_line', 8, [b, bad, a])
    for bad in ('@a(k)', '@a(k2)', '@misc (k2)'):      # a parenthesised key glued to ')' and to the next entry
        yield ('corruption_one_line', 8, ['@string{mm = "M"}\n@book{k1, title = {One}} ', bad, '@book{k3, title = mm # {Three}, year = 1}\n'])
    # the corruption contexts again with CR / CR LF / mixed line ends (error lines must stay inside the entry)
    for nl in ['\r', '\r\n', '\n\r']:
        k = 0
        for c in corruption_cases('quick', random.Random(11)):
            k += 1
            if k % (9 if tier == 'quick' else 3) == 0:
                yield ('corruption_line_ends', 8, [S(norm(c[2][0])).replace('\n', nl), S(norm(c[2][1])).replace(' ', rng.choice([' ', nl, ' ' + nl])), S(norm(c[2][2])).replace('\n', nl)])
    for t in PINNED:
        yield ('pinned', 1, [t])
        yield ('pinned', 2, [2, t])
        yield ('pinned', 2, [0, t])
    n_plain, n_pref = 4, 3
    for n in range(0, n_plain + 1):
        for tup in itertools.product(TOK, repeat=n):
            yield ('exhaustive', 1, [''.join(tup)])
    if tier == 'thorough':      # length 5: the strings that start a command
        for tup in itertools.product(TOK, repeat=4):
            yield ('exhaustive', 1, ['@' + ''.join(tup)])
    for p in PREFIXES:
        deep = tier == 'thorough' and p in ('@a{k,', '@a{k,a=')
        for n in range(0, n_pref + (2 if deep else 1)):
            for tup in itertools.product(TOK, repeat=n):
                yield ('exhaustive_prefixed', 1, [p + ''.join(tup)])
    for c in corruption_cases(tier, rng):
        yield c
    # random token soup / noise
    words = ['@', '@a', '@string', '@preamble', '@comment', '{', '}', '(', ')', '"', ',', '=', '#', '%', 'k', 'a', 'author', 'jan', '12', 'x y',
             ' and ', '\\', '~', '{\\x}', ' ', '\n', '\r', '\r\n', '\t', '\x85', ' ', '\xa0', '　', '\x1c', '-', '.', '€', '→', '°', '\x00', '\x7f', 'K', 'A']
    nrand = 1500 if tier == 'quick' else 15000
    for i in range(nrand):
        s = ''.join(rng.choice(words) for _ in range(rng.randint(1, 30)))
        yield ('random_soup', 1, [s])
        if i % 4 == 0:
            yield ('random_soup', 2, [rng.choice([0, 2]), s])
    for i in range(nrand // 3):
        # mostly valid entries with noise injected
        ents = []
        for _ in range(rng.randint(1, 4)):
            e = ''.join(rng.choice(base_files()))
            ents.append(e)
        s = rng.choice(['', ' ', '\n', 'junk ']).join(ents)
        for _ in range(rng.randint(0, 3)):
            j = rng.randrange(len(s) + 1)
            s = s[:j] + rng.choice(words) + s[j + rng.choice([0, 0, 1, 2]):]
        yield ('random_noisy_entries', 1, [s])
    for d in ([99, 100, 101, 102] if tier == 'quick' else [1, 50, 98, 99, 100, 101, 102, 103, 150, 400]):
        for (o, c) in (('{', '}'), ('"', '"')):
            inner = '{' * d + 'x' + '}' * d
            yield ('nesting', 1, ['@a{k, t = ' + o + inner + c + '}'])
            yield ('nesting', 1, ['@a{k, author = ' + o + inner + c + '}'])
            yield ('nesting', 1, ['@a{k, author = ' + o + '{' * d + '\\x' + '}' * d + c + '}'])
            yield ('nesting', 1, ['@a{k, t = ' + o + '{' * d + 'x' + '}' * (d - 1) + c + '}'])
    # the hand-written matchers against the live regex objects
    plen = 4 if tier == 'quick' else 5
    alph = {0: 'a@Z1_ ,', 1: 'a, }\n\x85', 2: 'a, }\n\x85', 3: '1a9 ٣'}
    for pid, al in alph.items():
        for n in range(0, plen + 1):
            for tup in itertools.product(al, repeat=n):
                yield ('pattern_sweep', 4, [[pid], ''.join(tup)])
    for cp in range(0, 0x250):
        for pid in range(4):
            yield ('pattern_sweep_codepoints', 4, [[pid], chr(cp) + 'a1'])
            yield ('pattern_sweep_codepoints', 4, [[pid], 'a' + chr(cp)])
    for lit in '{}()",=#@':
        for s in ['', lit, 'a' + lit, lit + lit, lit + 'a', ' ' + lit]:
            yield ('pattern_sweep', 4, [[4, ord(lit)], s])
    # scanner glue
    patsets = [[[0]], [[4, 40], [4, 123]], [[4, 34], [4, 123], [3], [0]], [[1]], [[2]], [[4, 44]], [[4, 35]], [[4, 61]], [[4, 125]], [[4, 41]]]
    sal = ['a', '1', ' ', '\n', '\r', '{', ',', '"', '\x85', '@']
    for ps in patsets:
        for n in range(0, 4):
            for tup in itertools.product(sal, repeat=n):
                yield ('get_token', 6, [ps, ''.join(tup)])
    for chars in ['@', '}{', '"}{']:
        for n in range(0, 5):
            for tup in itertools.product(['a', '\n', '\r', '{', '}', '"', '@'], repeat=n):
                yield ('skip_to', 7, [chars, ''.join(tup)])
    for n in range(0, 6 if tier == 'quick' else 7):
        for tup in itertools.product(['a', ' ', '\n', '\xa0'], repeat=n):
            yield ('normalize_whitespace', 3, [''.join(tup)])
    for i in range(300 if tier == 'quick' else 5000):
        yield ('normalize_whitespace', 3, [''.join(rng.choice(WS29 + ['a', 'b', '{', '.']) for _ in range(rng.randint(0, 20)))])

# ---------------------------------------------------------------------------------------
# the property itself, on the implementation's outputs
def n_lines(text):
    return line_at(text, len(text))

def strip_dirty(ents):
    return [e[1:] for e in ents]

def balanced(bad):
    """the corrupted entry's own delimiters balance: braces, double quotes, and the
    parentheses that stand outside all braces (where they act as entry delimiters)"""
    d = p = 0
    for c in bad:
        if c == '{': d += 1
        elif c == '}':
            d -= 1
            if d < 0:
                return False
        elif c == '(' and d == 0: p += 1
        elif c == ')' and d == 0:
            p -= 1
            if p < 0:
                return False
    return d == 0 and p == 0 and bad.count('"') % 2 == 0

def oracle_modes(text, out):
    st, ns, cp = out
    for name, r in (('strict', st), ('non-strict', ns), ('capture', cp)):
        if r[0] == 2:
            return 'a non-pybtex exception escaped the reader in %s mode' % name
    if cp[0] != 0:
        return 'reading did not continue after an error in capture mode (an error escaped)'
    if ns[0] != 0:
        return 'reading did not continue after an error in non-strict mode (an error escaped)'
    if strip_dirty(cp[1][0]) != strip_dirty(ns[1][0]) or [p[1] for p in cp[1][1]] != [p[1] for p in ns[1][1]]:
        return 'capture and non-strict modes yield different databases'
    if len(cp[1][2]) != len(ns[1][2]):
        return 'capture mode reported %d problems, non-strict mode %d' % (len(cp[1][2]), len(ns[1][2]))
    errs = cp[1][2]
    if not errs:
        if st[0] != 0:
            return 'strict mode raised although no problem is reported in capture mode'
        if strip_dirty(st[1][0]) != strip_dirty(cp[1][0]) or [p[1] for p in st[1][1]] != [p[1] for p in cp[1][1]]:
            return 'strict and capture modes yield different databases on an input without problems'
    else:
        if st[0] != 1:
            return 'strict mode did not raise although capture mode reports a problem'
    nl = n_lines(text)
    for e in errs:
        if e[1] != -1 and not (1 <= e[1] <= nl):
            return 'a syntax error carries line %d but the text has %d lines' % (e[1], nl)
    return None

def line_at(text, pos):
    """1 + the number of line breaks before position pos; a line break is LF, CR LF (once) or a lone CR
    (counted by hand: no str.splitlines, which also breaks at VT, FF, FS..RS, NEL, LS, PS)"""
    n, i = 1, 0
    while i < pos:
        c = text[i]
        if c == '\n':
            n += 1
        elif c == '\r':
            n += 1
            if i + 1 < len(text) and text[i + 1] == '\n':
                i += 1
        i += 1
    return n

def oracle(fn, arg, out):
    if fn == 1:
        return oracle_modes(S(arg[0]), out)
    if fn == 13:
        return oracle_modes(S(arg[1]), out)
    if fn == 14:
        text, pos = S(arg[0]), arg[1]
        if out[0] != 0:
            return 'the reader did not finish in capture mode'
        errs = [e for e in out[1][2] if e[1] != -1]
        if not errs:
            return 'no located error reported for a text with a malformed construct'
        want = line_at(text, pos)
        if errs[0][1] != want:
            return 'the error carries line %d, the offending construct is in line %d' % (errs[0][1], want)
        return None
    if fn == 9:
        if out[0] == 2:
            return 'a non-pybtex exception escaped the reader'
        return None
    if fn == 8:
        full, ac, a, full_ns, a_ns, full_st = out
        for r in (full, ac, a, full_ns, a_ns):
            if r[0] != 0:
                return 'the reader did not finish in capture / non-strict mode (%s)' % ('foreign exception' if r[0] == 2 else 'error escaped')
        if full_st[0] == 2:
            return 'a non-pybtex exception escaped the reader in strict mode'
        A, bad, C = S(arg[0]), S(arg[1]), S(arg[2])
        ea, eac, ef = strip_dirty(a[1][0]), strip_dirty(ac[1][0]), strip_dirty(full[1][0])
        # entries (keys, types, fields, persons) and preamble read BEFORE the malformed entry: unchanged, in every mode
        for mode, fa, ff in (('capture', a, full), ('non-strict', a_ns, full_ns), ('strict', a, full_st)):
            if ff[0] != 0 or fa[1][2]:      # (the text before must itself read without problems: it ends between commands)
                continue
            xa, xf = strip_dirty(fa[1][0]), strip_dirty(ff[1][0])
            if xf[:len(xa)] != xa:
                return 'a malformed entry altered the entries read before it (%s mode)' % mode
            if [p[1] for p in ff[1][1]][:len(fa[1][1])] != [p[1] for p in fa[1][1]]:
                return 'a malformed entry altered the preamble read before it (%s mode)' % mode
        if strip_dirty(full_ns[1][0]) != ef:
            return 'capture and non-strict modes yield different databases'
        # the line of every syntax error of the corrupted entry lies within the entry (or where reading resynchronised)
        lo = n_lines(A)
        hi = n_lines(A + bad + C)
        for e in full[1][2][len(a[1][2]):]:
            if e[1] != -1 and not (lo <= e[1] <= hi):
                return 'error line %d outside the lines %d..%d of the corrupted entry and what follows' % (e[1], lo, hi)
        if balanced(bad) and not ac[1][2]:      # the context itself (x+y) reads without any problem
            after = eac[len(ea):]
            if eac[:len(ea)] != ea:
                return None
            mid = ef[len(ea):]
            surv = [e for e in after if e in mid]
            lost = [e for e in after if e not in mid]
            if surv and mid[len(mid) - len(surv):] != surv:
                return 'a malformed entry with balanced braces and quotes altered the entries after it'
            head = mid[:len(mid) - len(surv)]
            n_data = len([e for e in full[1][2] if e[1] == -1])
            if len(lost) > n_data:
                return 'a malformed entry with balanced braces and quotes altered the entries after it'
            for e in lost:
                # the only legitimate loss: the corrupted text itself introduced an entry with the same key
                # (first key wins -- fixed by C01 -- and the later one is REPORTED as repeated: one data error each)
                if not any(S(m[0]).lower() == S(e[0]).lower() for m in head):
                    return 'a malformed entry with balanced braces and quotes altered the entries after it'
        return None
    return None

_NAME_CH = set('abcdefghijklmnopqrstuvwxyzABCDEFGHIJKLMNOPQRSTUVWXYZ0123456789@!$&*+-./:;<>?[\\]^_`|~\x7f')
def f25_shape(bad, after=''):
    """'@' is a NAME character: a stray '@' is glued to the type of the next entry, and the '@' of an entry that
    directly follows (no whitespace) a corrupted entry ending inside a name is glued to that name"""
    return (bad.rstrip().endswith('@') or (bad != '' and bad[-1] in _NAME_CH and after.startswith('@'))
            or (after.startswith('@') and re.search(r'\([^\s,]*$', bad) is not None))     # ... or inside a parenthesised key

KNOWN_SIGNATURES = {
    'F25': lambda kind, fn, arg, detail: fn == 8 and kind == 'oracle' and f25_shape(S(arg[1]), S(arg[2])) and 'altered the entries after it' in str(detail),
}

def replay_known(finding):
    p = finding.get('pinned')
    if not p:
        return None
    out = FUNCS[p['fn']][1](norm(p['arg']))
    return oracle(p['fn'], norm(p['arg']), out)
