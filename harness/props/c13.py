# C13 -- case-insensitive ordered containers.  Model: coq/Model/CIDict.v (+ CIDictStr.v);
# theorems: coq/Props/C13.v.  Cases are HISTORIES: (class, default, initial pairs, operations, probe keys);
# after the constructor and after every operation the public protocol is observed.
import ast, itertools, random, re
from core import *

ID = 'C13'

# ---------------------------------------------------------------------------------------------
# wire format (see coq/Extr/C13.v)
PLAIN, ORDERED, DEFAULT = 0, 1, 2
O_SET, O_GET, O_DEL, O_IN, O_GETD, O_POP, O_POPITEM, O_SETDEFAULT, O_UPDATE, O_CLEAR, O_LOWER, O_MUTATE = range(12)
S_ADD, S_DISCARD, S_REMOVE, S_IN, S_CANON, S_LOWER, S_CLEAR, S_IOR, S_ISUB, S_POP = range(10)
OPNAMES = ['setitem', 'getitem', 'delitem', 'contains', 'get', 'pop', 'popitem', 'setdefault', 'update', 'clear', 'lower', 'mutate']
SOPNAMES = ['add', 'discard', 'remove', 'contains', 'get_canonical_key', 'lower', 'clear', 'ior', 'isub', 'pop']
M_OP, M_LOWER, M_COPY, M_COPYITEMS, M_UPDATEFROM, M_NEW, M_NEWDEFAULT = range(7)
SM_OP, SM_LOWER, SM_COPY, SM_IORFROM, SM_ISUBFROM, SM_NEW = range(6)
CLSNAMES = ['CaseInsensitiveDict', 'OrderedCaseInsensitiveDict', 'CaseInsensitiveDefaultDict']


# Python values <-> the model's integer values.  The model only carries values around; the implementation is
# called with the real objects, so that falsy values and None (as values and as EXPLICIT defaults) are exercised.
# On the wire "no default given" is [] and "default None" is [NONE].
VBASE = -(10 ** 15)
NONE, FALSE, EMPTYSTR, VUNKNOWN = VBASE - 1, VBASE - 2, VBASE - 3, VBASE - 99
# MUTABLE values: a sequence [d1, ..., dn] of digits 1..9 is the integer SEQ - (d1...dn as a decimal number)
# (Model/CIDictStr.seq_base / mut_append).  Which Python object carries the sequence is the case's `kind`:
# 0 list (append), 1 dict (v[len(v)] = x), 2 set (v.add((len(v), x))), 3 an object with identity (box.items.append).
SEQ = -2 * 10 ** 15
EMPTYLIST = SEQ
FALSY = [NONE, 0, EMPTYSTR, EMPTYLIST, FALSE]
VNAMES = {NONE: 'None', FALSE: 'False', EMPTYSTR: "''"}
KINDNAMES = ['list', 'dict', 'set', 'Box']
_KIND = [0]

class Box(object):
    """a mutable default with identity (no __eq__): content in .items"""
    def __init__(self):
        self.items = []
    def __repr__(self):
        return repr(self.items)

def seq_digits(code):
    n = SEQ - code
    return [int(ch) for ch in str(n)] if n > 0 else []

def seq_code(digits):
    if any((not isinstance(d, int)) or isinstance(d, bool) or d < 1 or d > 9 for d in digits) or len(digits) > 15:
        return VUNKNOWN
    return SEQ - (int(''.join(map(str, digits))) if digits else 0)

def vdec(code):
    if code == NONE: return None
    if code == FALSE: return False
    if code == EMPTYSTR: return ''
    if code <= SEQ:
        ds = seq_digits(code)
        k = _KIND[0]
        if k == 0: return list(ds)
        if k == 1: return dict(enumerate(ds))
        if k == 2: return set(enumerate(ds))
        b = Box(); b.items = list(ds); return b
    return code

def vcode(x):
    if x is None: return NONE
    if x is False: return FALSE
    if isinstance(x, bool): return VUNKNOWN
    if isinstance(x, int): return x
    if isinstance(x, str): return EMPTYSTR if x == '' else VUNKNOWN
    try:
        if isinstance(x, list): return seq_code(x)
        if isinstance(x, dict): return seq_code([x[i] for i in range(len(x))])
        if isinstance(x, (set, frozenset)): return seq_code([v for _, v in sorted(x)])
        if isinstance(x, Box): return seq_code(x.items)
    except Exception:
        pass
    return VUNKNOWN

def mutate(v, x):
    """mutate the object in place; immutable objects raise like `None.append`"""
    if isinstance(v, list): v.append(x)
    elif isinstance(v, dict): v[len(v)] = x
    elif isinstance(v, set): v.add((len(v), x))
    elif isinstance(v, Box): v.items.append(x)
    else: raise AttributeError('%s object has no attribute append' % type(v).__name__)

def vshow(code):
    if code <= SEQ:
        return '<%s %r>' % (KINDNAMES[_KIND[0]] if 0 <= _KIND[0] < 4 else 'seq', seq_digits(code))
    return VNAMES.get(code, repr(code))

def enc_res(t, x):
    """result of operation kind t -> the model's `ret` encoding (by operation kind, so that a stored None and
    'no result' are not confused)"""
    if t in (O_GET, O_GETD, O_POP, O_SETDEFAULT):
        return [1, vcode(x)]
    if t == O_IN:
        return [2, int(x)] if isinstance(x, bool) else [9, norm(repr(x))]
    if t == O_POPITEM:
        if isinstance(x, tuple) and len(x) == 2 and isinstance(x[0], str):
            return [4, norm(x[0]), vcode(x[1])]
        return [9, norm(repr(x))]
    return [0] if x is None else [9, norm(repr(x))]

def enc_val(x):
    """return value of a set operation -> the model's `sret` encoding"""
    if x is None:
        return [0]
    if isinstance(x, bool):
        return [2, int(x)]
    if isinstance(x, str):
        return [3, norm(x)]
    return [9, norm(repr(x))]


def call(f, *a):
    try:
        return [0, f(*a)]
    except Exception:
        return [2]


_PARSE_CACHE = {}
def parse_repr_text(s):
    """'Name(<literal>)' -> [0, data] with data = list of [key, value] pairs / list of keys; [9, text] if it does not parse.
    repr() is compared as the data it prints: its punctuation and the class-name prefix are not part of the property."""
    r = _PARSE_CACHE.get(s)
    if r is None:
        try:
            m = re.match(r'^[A-Za-z_]+\((.*)\)$', s, flags=re.S)
            v = ast.literal_eval(m.group(1))
            if isinstance(v, dict):
                r = [0, [[norm(k), vcode(x)] for k, x in v.items()]]
            else:
                r = [0, [[norm(e[0]), vcode(e[1])] if isinstance(e, tuple) else norm(e) for e in list(v)]]
        except Exception:
            r = [9, norm(s)]
        if len(_PARSE_CACHE) < 200000:
            _PARSE_CACHE[s] = r
    return r


def observe_dict(c, probes):
    it = call(lambda: [norm(k) for k in c])
    items = call(lambda: [[norm(k), vcode(v)] for k, v in c.items()])
    ln = call(lambda: len(c))
    rp = call(lambda: repr(c))
    if rp[0] == 0:
        rp = parse_repr_text(rp[1])
    cont = [int(bool(call(lambda: p in c)[1:] == [True])) for p in probes]
    look = [call(lambda: vcode(c[p])) for p in probes]
    # extra (oracle only, removed by canon): keys(), values(), bool()
    extra = [call(lambda: [norm(k) for k in c.keys()]), call(lambda: [vcode(v) for v in c.values()]), call(lambda: int(bool(c)))]
    return [it[1] if it[0] == 0 else [[-1]], items, ln[1] if ln[0] == 0 else -1, rp, cont, look, extra]


def _classes():
    from pybtex.utils import CaseInsensitiveDict, OrderedCaseInsensitiveDict, CaseInsensitiveDefaultDict
    return (CaseInsensitiveDict, OrderedCaseInsensitiveDict, CaseInsensitiveDefaultDict)


def apply_op(c, op):
    """one operation on the real container c; returns (container now in the slot, encoded result)"""
    t = op[0]
    k = S(op[1]) if len(op) > 1 and t != O_UPDATE else None
    if t == O_SET:
        r = call(c.__setitem__, k, vdec(op[2]))
    elif t == O_GET:
        r = call(c.__getitem__, k)
    elif t == O_DEL:
        r = call(c.__delitem__, k)
    elif t == O_IN:
        r = call(c.__contains__, k)
    elif t == O_GETD:
        r = call(c.get, k, *[vdec(x) for x in op[2]])
    elif t == O_POP:
        r = call(c.pop, k, *[vdec(x) for x in op[2]])
    elif t == O_POPITEM:
        r = call(c.popitem)
    elif t == O_SETDEFAULT:
        r = call(c.setdefault, k, vdec(op[2]))
    elif t == O_UPDATE:
        pairs = [(S(a), vdec(b)) for a, b in op[1]]
        if len(pairs) % 2 == 0 and len(set(a for a, _ in pairs)) == len(pairs):
            pairs = dict(pairs)      # update(mapping) iterates the same pairs
        r = call(c.update, pairs)
    elif t == O_CLEAR:
        r = call(c.clear)
    elif t == O_MUTATE:
        r = call(lambda: mutate(c[k], op[2]))
    else:
        r = call(c.lower)
        if r[0] == 0:
            c = r[1]
            r = [0, None]
    if r[0] == 0:
        r = [0, enc_res(t if t not in (O_LOWER, O_MUTATE) else O_CLEAR, r[1])]
    return c, r


def impl_dict(arg):
    CLS = _classes()
    cls, dflt, init, ops, probes, obs_from = arg[:6]
    _KIND[0] = arg[6] if len(arg) > 6 else 0
    probes = [S(p) for p in probes]
    try:
        if cls == DEFAULT:
            c = CLS[2](lambda: vdec(dflt))
        else:
            c = CLS[cls]([(S(k), vdec(v)) for k, v in init])
    except Exception:
        return [[[2], []]]
    out = [[[0, [0]], observe_dict(c, probes) if obs_from <= 0 else []]]
    for op in ops:
        c, r = apply_op(c, op)
        out.append([r, observe_dict(c, probes) if obs_from <= len(out) else []])
    return out


def impl_multi(arg):
    """several live containers; every object ever created stays referenced (so sharing between them stays visible)"""
    CLS = _classes()
    ops, probes, obs_from = arg
    _KIND[0] = 0
    probes = [S(p) for p in probes]
    cs = []
    keep = []
    out = []
    for op in ops:
        t = op[0]
        idx = [op[1]] if t in (M_OP, M_LOWER, M_COPY, M_COPYITEMS) else ([op[1], op[2]] if t == M_UPDATEFROM else [])
        if any(i >= len(cs) for i in idx):
            # a container that an earlier, failed step should have created: like the model, Crash and no change
            out.append([[2], [observe_dict(c, probes) for c in cs] if obs_from <= len(out) else []])
            continue
        if t == M_OP:
            keep.append(cs[op[1]])
            cs[op[1]], r = apply_op(cs[op[1]], op[2])
        else:
            if t == M_LOWER:
                r = call(cs[op[1]].lower)
            elif t == M_COPY:
                r = call(CLS[op[2]], cs[op[1]])
            elif t == M_COPYITEMS:
                r = call(lambda: CLS[op[2]](cs[op[1]].items()))
            elif t == M_UPDATEFROM:
                r = call(cs[op[1]].update, cs[op[2]])
            elif t == M_NEW:
                r = call(CLS[op[1]], [(S(k), vdec(v)) for k, v in op[2]])
            else:
                d0 = op[1]
                r = call(CLS[2], lambda d0=d0: vdec(d0))
            if r[0] == 0:
                if t != M_UPDATEFROM:
                    cs.append(r[1])
                r = [0, [0]]
        out.append([r, [observe_dict(c, probes) for c in cs] if obs_from <= len(out) else []])
    return out


def observe_set(s, probes):
    it = call(lambda: sorted(list(s)))
    ln = call(lambda: len(s))
    rp = call(lambda: repr(s))
    rp = parse_repr_text(rp[1]) if rp[0] == 0 else [2]
    cont = [int(bool(call(lambda: p in s)[1:] == [True])) for p in probes]
    can = []
    for p in probes:
        r = call(s.get_canonical_key, p)
        can.append([0, norm(r[1])] if r[0] == 0 and isinstance(r[1], str) else ([2] if r[0] != 0 else [9]))
    return [[norm(x) for x in it[1]] if it[0] == 0 else [[-1]], ln[1] if ln[0] == 0 else -1,
            rp[1] if rp[0] == 0 else [[-1], rp], cont, can]


def apply_sop(s, op):
    t = op[0]
    k = S(op[1]) if len(op) > 1 and t not in (S_IOR, S_ISUB) else None
    if t == S_ADD:
        r = call(s.add, k)
    elif t == S_DISCARD:
        r = call(s.discard, k)
    elif t == S_REMOVE:
        r = call(s.remove, k)
    elif t == S_IN:
        r = call(s.__contains__, k)
    elif t == S_CANON:
        r = call(s.get_canonical_key, k)
    elif t == S_LOWER:
        r = call(s.lower)
        if r[0] == 0:
            s = r[1]; r = [0, None]
    elif t == S_CLEAR:
        r = call(s.clear)
    elif t == S_IOR:
        r = call(s.__ior__, [S(x) for x in op[1]])
        if r[0] == 0:
            r = [0, None]
    elif t == S_ISUB:
        r = call(s.__isub__, [S(x) for x in op[1]])
        if r[0] == 0:
            r = [0, None]
    else:
        r = call(s.pop)
    if r[0] == 0:
        r = [0, enc_val(r[1])]
    return s, r


def impl_set(arg):
    from pybtex.utils import CaseInsensitiveSet
    init, ops, probes, obs_from = arg
    probes = [S(p) for p in probes]
    try:
        s = CaseInsensitiveSet([S(k) for k in init])
    except Exception:
        return [0, [[[2], []]]]
    out = [[[0, [0]], observe_set(s, probes) if obs_from <= 0 else []]]
    for op in ops:
        s, r = apply_sop(s, op)
        out.append([r, observe_set(s, probes) if obs_from <= len(out) else []])
    return [0, out]


def impl_multiset(arg):
    from pybtex.utils import CaseInsensitiveSet
    ops, probes, obs_from = arg
    probes = [S(p) for p in probes]
    ss = []
    keep = []
    out = []
    for op in ops:
        t = op[0]
        idx = [op[1]] if t in (SM_OP, SM_LOWER, SM_COPY) else ([op[1], op[2]] if t in (SM_IORFROM, SM_ISUBFROM) else [])
        if any(i >= len(ss) for i in idx):
            return [3]      # like the model: an impossible history
        if t == SM_OP:
            keep.append(ss[op[1]])
            ss[op[1]], r = apply_sop(ss[op[1]], op[2])
        else:
            if t == SM_LOWER:
                r = call(ss[op[1]].lower)
            elif t == SM_COPY:
                r = call(CaseInsensitiveSet, ss[op[1]])
            elif t == SM_IORFROM:
                r = call(ss[op[1]].__ior__, ss[op[2]])
            elif t == SM_ISUBFROM:
                r = call(ss[op[1]].__isub__, ss[op[2]])
            else:
                r = call(CaseInsensitiveSet, [S(k) for k in op[1]])
            if r[0] == 0:
                if t not in (SM_IORFROM, SM_ISUBFROM):
                    ss.append(r[1])
                r = [0, [0]]
        out.append([r, [observe_set(x, probes) for x in ss] if obs_from <= len(out) else []])
    return [0, out]


def op_keys(op):
    t = op[0]
    if t == O_UPDATE:
        return [S(a) for a, _ in op[1]]
    return [S(op[1])] if len(op) > 1 else []

def sop_keys(op):
    t = op[0]
    if t in (S_IOR, S_ISUB):
        return [S(x) for x in op[1]]
    return [S(op[1])] if len(op) > 1 else []

def case_keys(fn, arg):
    """every key string occurring in a case"""
    ks = []
    if fn == 1:
        ks += [S(k) for k, _ in arg[2]] + [S(p) for p in arg[4]]
        for op in arg[3]:
            ks += op_keys(op)
    elif fn == 2:
        ks += [S(k) for k in arg[0]] + [S(p) for p in arg[2]]
        for op in arg[1]:
            ks += sop_keys(op)
    elif fn == 3:
        ks += [S(p) for p in arg[1]]
        for op in arg[0]:
            if op[0] == M_OP:
                ks += op_keys(op[2])
            elif op[0] == M_NEW:
                ks += [S(k) for k, _ in op[2]]
    else:
        ks += [S(p) for p in arg[1]]
        for op in arg[0]:
            if op[0] == SM_OP:
                ks += sop_keys(op[2])
            elif op[0] == SM_NEW:
                ks += [S(k) for k in op[1]]
    return ks

def lower_table(keys):
    """key -> key.lower() as computed by Python, closed under lower; ASCII keys are left to the model's own mapping"""
    tbl = {}
    todo = list(keys)
    while todo:
        k = todo.pop()
        if k in tbl or k.isascii():
            continue
        tbl[k] = k.lower()
        todo.append(tbl[k])
    return [[norm(k), norm(v)] for k, v in sorted(tbl.items())]

def model_op(op):
    # Mapping.get(key, default=None): get(k) IS get(k, None)
    return [O_GETD, op[1], [NONE]] if op[0] == O_GETD and not op[2] else op

def model_arg(fn, arg):
    """what the model is given in addition to / instead of the case:
    * the table key -> str.lower(key) for the non-ASCII keys of the case (the model's `lower` beyond ASCII);
    * get(k) as get(k, None);
    * MutableSet.pop takes `next(iter(self))`, i.e. hash order: the model is told which element came out on the
      implementation (and checks that it is a possible one)."""
    tbl = lower_table(case_keys(fn, arg))
    if fn == 1:
        return [arg[0], arg[1], arg[2], [model_op(o) for o in arg[3]], arg[4], arg[5], tbl]     # arg[6] (the kind of mutable objects) is the harness's business
    if fn == 3:
        return [[[M_OP, o[1], model_op(o[2])] if o[0] == M_OP else o for o in arg[0]], arg[1], arg[2], tbl]
    if fn == 2:
        ops = arg[1]
        if any(op[0] == S_POP for op in ops):
            out = impl_set(arg)[1]
            ops = []
            for i, op in enumerate(arg[1]):
                if op[0] == S_POP:
                    r = out[i + 1][0] if i + 1 < len(out) else [2]
                    ops.append([S_POP, r[1][1] if r[0] == 0 and r[1][0] == 3 else []])
                else:
                    ops.append(op)
            tbl = lower_table(case_keys(fn, arg) + [S(o[1]) for o in ops if o[0] == S_POP])
        return [arg[0], ops, arg[2], arg[3], tbl]
    ops = arg[0]
    if any(op[0] == SM_OP and op[2][0] == S_POP for op in ops):
        res = impl_multiset(arg)
        out = res[1] if res[0] == 0 else []
        ops = []
        for i, op in enumerate(arg[0]):
            if op[0] == SM_OP and op[2][0] == S_POP:
                r = out[i][0] if i < len(out) else [2]
                ops.append([SM_OP, op[1], [S_POP, r[1][1] if r[0] == 0 and r[1][0] == 3 else []]])
            else:
                ops.append(op)
        tbl = lower_table(case_keys(fn, arg) + [S(o[2][1]) for o in ops if o[0] == SM_OP and o[2][0] == S_POP])
    return [ops, arg[1], arg[2], tbl]


OPS_SCHEMA = ('L', 'X')
FUNCS = {
    1: ('pybtex.utils.CaseInsensitiveDict/OrderedCaseInsensitiveDict/CaseInsensitiveDefaultDict (history)', impl_dict,
        ('T', 'X', 'I', ('L', ('T', 'S', 'I')), OPS_SCHEMA, ('L', 'S'), 'N', 'X')),
    2: ('pybtex.utils.CaseInsensitiveSet (history)', impl_set, ('T', ('L', 'S'), OPS_SCHEMA, ('L', 'S'), 'N')),
    3: ('pybtex.utils mapping classes, several live containers (history)', impl_multi, ('T', ('L', 'X'), ('L', 'S'), 'N')),
    4: ('pybtex.utils.CaseInsensitiveSet, several live sets (history)', impl_multiset, ('T', ('L', 'X'), ('L', 'S'), 'N')),
}

# ---------------------------------------------------------------------------------------------
# canonicalisation: the oracle-only extras of a mapping observation are dropped.
def canon(fn, out):
    try:
        if fn == 1:
            return [[r, o[:6]] for r, o in out]
        if fn == 3:
            return [[r, [o[:6] for o in obs]] for r, obs in out]
    except Exception:
        pass
    return out


# ---------------------------------------------------------------------------------------------
# ORACLE: the property text as a plain Python reference -- an insertion-ordered map keyed by the
# lower-cased key that remembers the most recently written spelling.  Independent of pybtex.
class Ref:
    def __init__(self):
        self.rows = []          # [lower key, spelling, value] in order of first insertion
    def find(self, k):
        kl = k.lower()
        for r in self.rows:
            if r[0] == kl:
                return r
        return None
    def set(self, k, v):
        r = self.find(k)
        if r is None:
            self.rows.append([k.lower(), k, v])
        else:
            r[1] = k; r[2] = v
    def delete(self, k):
        r = self.find(k)
        if r is None:
            return False
        self.rows.remove(r)
        return True
    def items(self):
        return [[norm(r[1]), r[2]] for r in self.rows]
    def lower(self):
        for r in self.rows:
            r[1] = r[0]
    def resync(self, items):
        self.rows = [[S(k).lower(), S(k), v] for k, v in items]


def check_obs_dict(ref, cls, dflt, probes, o, factory_ok=True):
    """the observation after a step against the reference state; returns a message or None"""
    it, items, ln, rp, cont, look, extra = o
    exp_items = ref.items()
    exp_keys = [kv[0] for kv in exp_items]
    if it != exp_keys:
        return 'iteration yields %r, expected the last written spellings in first-insertion order %r' % ([S(k) for k in it], [S(k) for k in exp_keys])
    if items != [0, exp_items]:
        return 'items() = %r, expected %r' % (items, exp_items)
    if ln != len(exp_items):
        return 'len() = %r but iteration yields %d keys' % (ln, len(exp_items))
    if rp[0] != 0:
        return 'repr() raised or is not of the form Name(<literal>): %r' % (rp,)
    p = rp[1]
    if sorted(map(repr, p)) != sorted(map(repr, exp_items)) or (cls == ORDERED and p != exp_items):
        return 'repr() shows %r, which are not the items %r' % (p, exp_items)
    if extra[0] != [0, exp_keys] or extra[1] != [0, [kv[1] for kv in exp_items]] or extra[2] != [0, int(bool(exp_items))]:
        return 'keys()/values()/bool() = %r disagree with items() %r' % (extra, exp_items)
    for p_, cin, lk in zip(probes, cont, look):
        r = ref.find(p_)
        if cin != int(r is not None):
            return '%r in container = %r, expected %r' % (p_, bool(cin), r is not None)
        if r is not None:
            if lk != [0, r[2]]:
                return 'lookup [%r] = %r, expected %r (lookups ignore case)' % (p_, lk, r[2])
        elif cls == DEFAULT:
            if lk != [0, dflt]:
                return 'lookup of the absent key %r in the defaulting variant = %r, expected the default %r' % (p_, lk, dflt)
        elif lk[0] == 0:
            return 'lookup of the absent key %r returned %r' % (p_, lk)
    return None


def ref_apply(ref, cls, dflt, op, r, name):
    """one operation on the reference map `ref` of one container, judged against the implementation's result r;
    returns a message or None"""
    t = op[0]
    k = S(op[1]) if len(op) > 1 and t != O_UPDATE else None
    row = ref.find(k) if k is not None else None
    exp = None
    if t == O_SET:
        ref.set(k, op[2]); exp = [0, [0]]
    elif t == O_GET:
        exp = [0, [1, row[2]]] if row else ([0, [1, dflt]] if cls == DEFAULT else [2])
    elif t == O_DEL:
        exp = [0, [0]] if ref.delete(k) else [2]
    elif t == O_IN:
        exp = [0, [2, int(row is not None)]]
    elif t == O_GETD:
        d = [1, op[2][0]] if op[2] else [1, NONE]      # get(k) is get(k, None)
        if row:
            exp = [0, [1, row[2]]]
        elif cls == DEFAULT:
            # "yields its default for absent keys": either default is accepted
            if r not in ([0, d], [0, [1, dflt]]):
                return '%s: returned %r, expected %r' % (name, r, d)
            exp = r
        else:
            exp = [0, d]
    elif t == O_POP:
        if row:
            exp = [0, [1, row[2]]]; ref.delete(k)
        elif op[2]:
            exp = [0, [1, op[2][0]]]
        else:
            exp = [2]
    elif t == O_POPITEM:
        # which item is popped is not fixed by the property: any present item
        if not ref.rows:
            exp = [2]
        else:
            if not (r[0] == 0 and r[1][0] == 4 and [r[1][1], r[1][2]] in ref.items()):
                return '%s: returned %r which is not an item of %r' % (name, r, ref.items())
            ref.delete(S(r[1][1])); exp = r
    elif t == O_SETDEFAULT:
        if row:
            exp = [0, [1, row[2]]]
        else:
            ref.set(k, op[2]); exp = [0, [1, op[2]]]
    elif t == O_UPDATE:
        for a, b in op[1]:
            ref.set(S(a), b)
        exp = [0, [0]]
    elif t == O_CLEAR:
        ref.rows = []; exp = [0, [0]]
    elif t == O_LOWER:
        ref.lower(); exp = [0, [0]]
    elif t == O_MUTATE:
        # the object a lookup yields is mutated in place: a stored value changes, a yielded default is a fresh one
        v = row[2] if row else (dflt if cls == DEFAULT else None)
        if v is None:
            exp = [2]
        elif v > SEQ:
            exp = [2]           # not a mutable object
        else:
            exp = [0, [0]]
            if row:
                row[2] = SEQ - ((SEQ - v) * 10 + op[2])
    if r != exp:
        return '%s: result %r, expected %r' % (name, r, exp)
    return None


def oracle_dict(arg, out):
    cls, dflt, init, ops, probes, obs_from = arg[:6]
    probes = [S(p) for p in probes]
    if len(out) != len(ops) + 1:
        return 'constructor raised' if len(out) == 1 and out[0][0] == [2] else 'history truncated'
    ref = Ref()
    if cls != DEFAULT:
        for k, v in init:
            ref.set(S(k), v)
    m = check_obs_dict(ref, cls, dflt, probes, out[0][1]) if out[0][1] else None
    if m:
        return 'after the constructor: ' + m
    for i, op in enumerate(ops):
        r, o = out[i + 1]
        name = 'step %d %s' % (i + 1, describe_op(op))
        m = ref_apply(ref, cls, dflt, op, r, name)
        if m:
            return m
        m = check_obs_dict(ref, cls, dflt, probes, o) if o else None
        if m:
            return '%s: %s' % (name, m)
    return None


def oracle_multi(arg, out):
    """several live containers: one reference map per container; an operation on one must leave all others alone"""
    ops, probes, obs_from = arg
    probes = [S(p) for p in probes]
    if len(out) != len(ops):
        return 'history truncated'
    refs = []      # [Ref, cls, dflt]
    for i, (op, (r, obs)) in enumerate(zip(ops, out)):
        t = op[0]
        name = 'step %d %s' % (i + 1, describe_mop(op))
        idx = [op[1]] if t in (M_OP, M_LOWER, M_COPY, M_COPYITEMS) else ([op[1], op[2]] if t == M_UPDATEFROM else [])
        if any(j >= len(refs) for j in idx):
            return None     # ill-formed case (only produced by shrinking): not a statement about the property
        if t == M_OP:
            ref, cls, dflt = refs[op[1]]
            m = ref_apply(ref, cls, dflt, op[2], r, name)
            if m:
                return m
        else:
            if t == M_LOWER:
                src, cls, dflt = refs[op[1]]
                n = Ref(); n.rows = [[a, a, v] for a, _, v in src.rows]
                refs.append([n, cls, dflt])
            elif t in (M_COPY, M_COPYITEMS):
                src = refs[op[1]][0]
                n = Ref(); n.rows = [list(x) for x in src.rows]
                refs.append([n, op[2], 0])
            elif t == M_UPDATEFROM:
                dst, src = refs[op[1]][0], refs[op[2]][0]
                for _, sp, v in [list(x) for x in src.rows]:
                    dst.set(sp, v)
            elif t == M_NEW:
                n = Ref()
                for k, v in op[2]:
                    n.set(S(k), v)
                refs.append([n, op[1], 0])
            elif t == M_NEWDEFAULT:
                refs.append([Ref(), DEFAULT, op[1]])
            if r != [0, [0]]:
                return '%s: result %r, expected None' % (name, r)
        if obs:
            if len(obs) != len(refs):
                return '%s: %d containers observed, expected %d' % (name, len(obs), len(refs))
            for j, ((ref, cls, dflt), o) in enumerate(zip(refs, obs)):
                m = check_obs_dict(ref, cls, dflt, probes, o)
                if m:
                    return '%s: container %d: %s' % (name, j, m)
    return None


def check_obs_set(ref, probes, o):
    it, ln, rp, cont, can = o
    keys = sorted(ref)
    if sorted(S(x).lower() for x in it) != keys or len(it) != len(keys):
        return 'iteration yields %r, expected the keys %r (up to case)' % ([S(x) for x in it], keys)
    if ln != len(keys):
        return 'len() = %r but there are %d keys' % (ln, len(keys))
    if rp[:1] == [[-1]] or any(not isinstance(x, list) or any(not isinstance(y, int) for y in x) for x in rp) or sorted(S(x).lower() for x in rp) != keys:
        return 'repr() shows %r, which are not the keys %r' % (rp, keys)
    for p_, cin, c in zip(probes, cont, can):
        if cin != int(p_.lower() in ref):
            return '%r in set = %r, expected %r' % (p_, bool(cin), p_.lower() in ref)
        if p_.lower() in ref:
            if c != [0, norm(ref[p_.lower()])]:
                return 'get_canonical_key(%r) = %r, expected the last written spelling %r' % (p_, c, ref[p_.lower()])
        elif c[0] == 0:
            return 'get_canonical_key(%r) of an absent key returned %r' % (p_, c)
    return None


def sref_apply(ref, op, r, name):
    """one operation on the reference map (dict lower key -> spelling) of one set; returns (new ref, message)"""
    t = op[0]
    k = S(op[1]) if len(op) > 1 and t not in (S_IOR, S_ISUB) else None
    exp = [0, [0]]
    if t == S_ADD:
        ref[k.lower()] = k
    elif t == S_DISCARD:
        ref.pop(k.lower(), None)
    elif t == S_REMOVE:
        if k.lower() in ref:
            del ref[k.lower()]
        else:
            exp = [2]
    elif t == S_IN:
        exp = [0, [2, int(k.lower() in ref)]]
    elif t == S_CANON:
        exp = [0, [3, norm(ref[k.lower()])]] if k.lower() in ref else [2]
    elif t == S_LOWER:
        ref = dict((a, a) for a in ref)
    elif t == S_CLEAR:
        ref = {}
    elif t == S_IOR:
        for x in op[1]:
            ref[S(x).lower()] = S(x)
    elif t == S_ISUB:
        for x in op[1]:
            ref.pop(S(x).lower(), None)
    elif t == S_POP:
        if not ref:
            exp = [2]
        else:
            if not (r[0] == 0 and r[1][0] == 3 and S(r[1][1]).lower() in ref):
                return ref, '%s: returned %r which is not an element of %r' % (name, r, sorted(ref))
            del ref[S(r[1][1]).lower()]; exp = r
    if r != exp:
        return ref, '%s: result %r, expected %r' % (name, r, exp)
    return ref, None


def oracle_set(arg, out):
    init, ops, probes, obs_from = arg
    probes = [S(p) for p in probes]
    if out[0] != 0:
        return 'history failed'
    out = out[1]
    if len(out) != len(ops) + 1:
        return 'constructor raised' if len(out) == 1 and out[0][0] == [2] else 'history truncated'
    ref = {}
    for k in init:
        ref[S(k).lower()] = S(k)
    m = check_obs_set(ref, probes, out[0][1]) if out[0][1] else None
    if m:
        return 'after the constructor: ' + m
    for i, op in enumerate(ops):
        r, o = out[i + 1]
        name = 'step %d %s' % (i + 1, describe_sop(op))
        ref, m = sref_apply(ref, op, r, name)
        if m:
            return m
        m = check_obs_set(ref, probes, o) if o else None
        if m:
            return '%s: %s' % (name, m)
    return None


def multiset_well_indexed(ops):
    n = 0
    for op in ops:
        t = op[0]
        idx = [op[1]] if t in (SM_OP, SM_LOWER, SM_COPY) else ([op[1], op[2]] if t in (SM_IORFROM, SM_ISUBFROM) else [])
        if any(i >= n for i in idx):
            return False
        if t in (SM_LOWER, SM_COPY, SM_NEW):
            n += 1
    return True


def oracle_multiset(arg, out):
    ops, probes, obs_from = arg
    probes = [S(p) for p in probes]
    if out[0] != 0:
        return None if out == [3] and not multiset_well_indexed(ops) else 'history failed'
    out = out[1]
    if len(out) != len(ops):
        return 'history truncated'
    refs = []
    for i, (op, (r, obs)) in enumerate(zip(ops, out)):
        t = op[0]
        name = 'step %d %s' % (i + 1, describe_smop(op))
        if t == SM_OP:
            refs[op[1]], m = sref_apply(refs[op[1]], op[2], r, name)
            if m:
                return m
        else:
            if t in (SM_LOWER, SM_COPY):
                refs.append(dict((a, a) for a in refs[op[1]]))
            elif t == SM_IORFROM:
                for a in list(refs[op[2]]):
                    refs[op[1]][a] = a
            elif t == SM_ISUBFROM:
                for a in list(refs[op[2]]):
                    refs[op[1]].pop(a, None)
            elif t == SM_NEW:
                n = {}
                for k in op[1]:
                    n[S(k).lower()] = S(k)
                refs.append(n)
            if r != [0, [0]]:
                return '%s: result %r, expected None' % (name, r)
        if obs:
            if len(obs) != len(refs):
                return '%s: %d sets observed, expected %d' % (name, len(obs), len(refs))
            for j, (ref, o) in enumerate(zip(refs, obs)):
                m = check_obs_set(ref, probes, o)
                if m:
                    return '%s: set %d: %s' % (name, j, m)
    return None


def oracle(fn, arg, out):
    return {1: oracle_dict, 2: oracle_set, 3: oracle_multi, 4: oracle_multiset}[fn](arg, out)


# ---------------------------------------------------------------------------------------------
def describe_op(op):
    t = op[0]
    if t == O_UPDATE:
        return 'update([%s])' % ', '.join('(%r, %s)' % (S(a), vshow(b)) for a, b in op[1])
    a = [repr(S(op[1]))] if len(op) > 1 else []
    if t in (O_SET, O_SETDEFAULT):
        a.append(vshow(op[2]))
    if t == O_MUTATE:
        return 'mutate c[%r]: append %r' % (S(op[1]), op[2])
    if t in (O_GETD, O_POP) and op[2]:
        a.append(vshow(op[2][0]))
    return '%s(%s)' % (OPNAMES[t], ', '.join(a))


def describe_sop(op):
    t = op[0]
    if t in (S_IOR, S_ISUB):
        return '%s(%r)' % (SOPNAMES[t], [S(x) for x in op[1]])
    return '%s(%s)' % (SOPNAMES[t], repr(S(op[1])) if len(op) > 1 and t != S_POP else '')


def describe_mop(op):
    t = op[0]
    if t == M_OP:
        return 'c%d.%s' % (op[1], describe_op(op[2]))
    if t == M_LOWER:
        return 'new = c%d.lower()' % op[1]
    if t == M_COPY:
        return 'new = %s(c%d)' % (CLSNAMES[op[2]], op[1])
    if t == M_COPYITEMS:
        return 'new = %s(c%d.items())' % (CLSNAMES[op[2]], op[1])
    if t == M_UPDATEFROM:
        return 'c%d.update(c%d)' % (op[1], op[2])
    if t == M_NEW:
        return 'new = %s(%r)' % (CLSNAMES[op[1]], [(S(k), v) for k, v in op[2]])
    return 'new = CaseInsensitiveDefaultDict(lambda: %r)' % op[1]


def describe_smop(op):
    t = op[0]
    if t == SM_OP:
        return 's%d.%s' % (op[1], describe_sop(op[2]))
    if t == SM_LOWER:
        return 'new = s%d.lower()' % op[1]
    if t == SM_COPY:
        return 'new = CaseInsensitiveSet(s%d)' % op[1]
    if t == SM_IORFROM:
        return 's%d |= s%d' % (op[1], op[2])
    if t == SM_ISUBFROM:
        return 's%d -= s%d' % (op[1], op[2])
    return 'new = CaseInsensitiveSet(%r)' % [S(k) for k in op[1]]


def describe(fn, arg):
    if fn == 3:
        return {'ops': [describe_mop(o) for o in arg[0]], 'probes': [S(p) for p in arg[1]]}
    if fn == 4:
        return {'ops': [describe_smop(o) for o in arg[0]], 'probes': [S(p) for p in arg[1]]}
    if fn == 1:
        _KIND[0] = arg[6] if len(arg) > 6 and 0 <= arg[6] < 4 else 0
        return {'class': CLSNAMES[arg[0]], 'default': vshow(arg[1]), 'mutable values are': KINDNAMES[arg[6]] if len(arg) > 6 and 0 <= arg[6] < 4 else 'list', 'init': [(S(k), v) for k, v in arg[2]],
                'ops': [describe_op(o) for o in arg[3]], 'probes': [S(p) for p in arg[4]]}
    return {'class': 'CaseInsensitiveSet', 'init': [S(k) for k in arg[0]], 'ops': [describe_sop(o) for o in arg[1]],
            'probes': [S(p) for p in arg[2]]}


def nontrivial(fn, arg, out):
    """the history really runs and ends in (or passes through) a non-empty container"""
    if fn in (1, 2):
        steps = out if fn == 1 else (out[1] if out[0] == 0 else [])
        return len(steps) >= 2 and any(o and o[2 if fn == 1 else 1] > 0 for _, o in steps)
    steps = out if fn == 3 else (out[1] if out[0] == 0 else [])
    return len(steps) >= 2 and any(any(o[2 if fn == 3 else 1] > 0 for o in obs) for _, obs in steps)


# ---------------------------------------------------------------------------------------------
# generators
def k_(s): return s
def op_set(k, v): return [O_SET, k, v]

def dict_ops(keys, vals, dvals):
    """every operation with every argument over the given key / value alphabets"""
    ops = []
    for k in keys:
        for v in vals:
            ops.append([O_SET, k, v])
        ops.append([O_GET, k]); ops.append([O_DEL, k]); ops.append([O_IN, k])
        ops.append([O_GETD, k, []]); ops.append([O_POP, k, []])
        for d in dvals:
            ops.append([O_GETD, k, [d]]); ops.append([O_POP, k, [d]]); ops.append([O_SETDEFAULT, k, d])
    ops.append([O_POPITEM]); ops.append([O_CLEAR]); ops.append([O_LOWER])
    ks = list(keys)
    ops.append([O_UPDATE, []])
    ops.append([O_UPDATE, [[ks[0], vals[0]]]])
    ops.append([O_UPDATE, [[ks[1], vals[1]], [ks[0], vals[0]]]])
    ops.append([O_UPDATE, [[ks[2], vals[1]], [ks[1], vals[0]], [ks[3], vals[0]]]])
    ops.append([O_UPDATE, [[ks[0], vals[0]], [ks[1], vals[1]], [ks[0], vals[1]]]])
    return ops


def states(pairs_of_spellings, vals):
    """every reference state: an ordered selection of distinct lower-cased keys, each with a spelling and a value"""
    n = len(pairs_of_spellings)
    for r in range(n + 1):
        for sel in itertools.permutations(range(n), r):
            for sp in itertools.product(*[pairs_of_spellings[i] for i in sel]):
                for vs in itertools.product(vals, repeat=r):
                    yield list(zip(sp, vs))


def set_ops(keys):
    ops = []
    for k in keys:
        ops += [[S_ADD, k], [S_DISCARD, k], [S_REMOVE, k], [S_IN, k], [S_CANON, k]]
    ks = list(keys)
    ops += [[S_LOWER], [S_CLEAR], [S_POP], [S_IOR, []], [S_IOR, [ks[1], ks[2], ks[0]]], [S_IOR, [ks[3]]],
            [S_ISUB, []], [S_ISUB, [ks[0]]], [S_ISUB, [ks[1], ks[3]]]]
    return ops


RICH = 'abcABCxyzXYZ019_-+.:/ €°→ßςΣσſﬁİK'   # non-ASCII letters included: the model gets str.lower of every key as a table
# keys on which lower() and casefold() / upper().lower() differ, and groups of spellings of one key
UNI_SPELL = [('Maß', 'maß'), ('K', 'k')]
UNI_KEYS = ['Maß', 'maß', 'MAß', 'MASS', 'K', 'k', 'K', 'ς', 'Σ', 'σ', 'ſ', 's', 'ﬁ', 'İ', 'i̇']

def rich_key(rng, pool):
    if pool and rng.random() < 0.7:
        k = rng.choice(pool)
        r = rng.random()
        if r < 0.25: return k.upper()
        if r < 0.5: return k.lower()
        if r < 0.75: return ''.join(c.upper() if rng.random() < 0.5 else c.lower() for c in k)
        return k
    k = ''.join(rng.choice(RICH) for _ in range(rng.choice([0, 1, 1, 2, 2, 3, 5])))
    pool.append(k)
    return k

def rich_val(rng):
    return rng.choice([0, 1, 2, 3, -1, 7, 10, 42, -305, 2 ** 40, rng.randint(-1000, 1000), NONE, NONE, FALSE, EMPTYSTR, EMPTYLIST])

def random_op(rng, pool):
    t = rng.choice([O_SET] * 6 + [O_GET, O_DEL, O_DEL, O_DEL, O_IN, O_GETD, O_POP, O_POP, O_POPITEM, O_SETDEFAULT, O_SETDEFAULT, O_UPDATE, O_LOWER] + ([O_CLEAR] if rng.random() < 0.2 else []))
    k = rich_key(rng, pool)
    if t in (O_SET, O_SETDEFAULT):
        return [t, k, rich_val(rng)]
    if t in (O_GETD, O_POP):
        return [t, k, [rich_val(rng)] if rng.random() < 0.5 else []]
    if t == O_UPDATE:
        return [t, [[rich_key(rng, pool), rich_val(rng)] for _ in range(rng.randint(0, 4))]]
    if t in (O_POPITEM, O_CLEAR, O_LOWER):
        return [t]
    return [t, k]

def random_sop(rng, pool):
    t = rng.choice([S_ADD] * 6 + [S_DISCARD, S_DISCARD, S_REMOVE, S_REMOVE, S_IN, S_CANON, S_LOWER, S_IOR, S_ISUB, S_POP] + ([S_CLEAR] if rng.random() < 0.2 else []))
    if t in (S_IOR, S_ISUB):
        return [t, [rich_key(rng, pool) for _ in range(rng.randint(0, 4))]]
    if t in (S_LOWER, S_CLEAR, S_POP):
        return [t]
    return [t, rich_key(rng, pool)]

def random_multi_history(rng, maxlen):
    pool = []
    ops = []
    n = 0
    for _ in range(rng.randint(2, maxlen)):
        if n == 0 or (n < 5 and rng.random() < 0.25):
            t = rng.choice([M_NEW, M_NEW, M_NEWDEFAULT] + ([M_LOWER, M_LOWER, M_COPY, M_COPYITEMS] if n else []))
            if t == M_NEW:
                ops.append([t, rng.choice([PLAIN, ORDERED]), [[rich_key(rng, pool), rich_val(rng)] for _ in range(rng.choice([0, 1, 2, 4]))]])
            elif t == M_NEWDEFAULT:
                ops.append([t, rng.choice([0, 5, NONE])])
            elif t == M_LOWER:
                ops.append([t, rng.randrange(n)])
            else:
                ops.append([t, rng.randrange(n), rng.choice([PLAIN, ORDERED])])
            n += 1
        elif n >= 2 and rng.random() < 0.12:
            ops.append([M_UPDATEFROM, rng.randrange(n), rng.randrange(n)])
        else:
            ops.append([M_OP, rng.randrange(n), random_op(rng, pool)])
    return [ops, [rich_key(rng, pool) for _ in range(3)] + ['zz'], 0]

def random_multiset_history(rng, maxlen):
    pool = []
    ops = []
    n = 0
    for _ in range(rng.randint(2, maxlen)):
        if n == 0 or (n < 5 and rng.random() < 0.25):
            t = rng.choice([SM_NEW, SM_NEW] + ([SM_LOWER, SM_LOWER, SM_COPY] if n else []))
            ops.append([t, [rich_key(rng, pool) for _ in range(rng.choice([0, 1, 3]))]] if t == SM_NEW else [t, rng.randrange(n)])
            n += 1
        elif n >= 2 and rng.random() < 0.15:
            ops.append([rng.choice([SM_IORFROM, SM_IORFROM, SM_ISUBFROM]), rng.randrange(n), rng.randrange(n)])
        else:
            ops.append([SM_OP, rng.randrange(n), random_sop(rng, pool)])
    return [ops, [rich_key(rng, pool) for _ in range(3)] + ['zz'], 0]

def random_dict_history(rng, maxlen):
    cls = rng.choice([PLAIN, ORDERED, ORDERED, DEFAULT])
    pool = []
    init = [] if cls == DEFAULT else [[rich_key(rng, pool), rich_val(rng)] for _ in range(rng.choice([0, 0, 1, 2, 4]))]
    ops = [random_op(rng, pool) for _ in range(rng.randint(1, maxlen))]
    probes = [rich_key(rng, pool) for _ in range(4)] + ['zz']
    dflt = rng.choice([0, 0, 5, NONE, EMPTYLIST])
    kind = rng.randrange(4)
    if rng.random() < 0.4:
        # mutable values: a mutable factory, stored empty sequences, and "mutate the object the lookup returns"
        dflt = rng.choice([EMPTYLIST, EMPTYLIST, 0])
        nmut = 0
        for i in range(len(ops)):
            r = rng.random()
            if r < 0.25 and nmut < 10:
                ops[i] = [O_MUTATE, rich_key(rng, pool), rng.randint(1, 9)]; nmut += 1
            elif r < 0.4 and ops[i][0] in (O_SET, O_SETDEFAULT):
                ops[i] = [ops[i][0], ops[i][1], EMPTYLIST]
    return [cls, dflt, init, ops, probes, 0, kind]

def random_set_history(rng, maxlen):
    pool = []
    init = [rich_key(rng, pool) for _ in range(rng.choice([0, 0, 1, 3, 5]))]
    ops = [random_sop(rng, pool) for _ in range(rng.randint(1, maxlen))]
    return [init, ops, [rich_key(rng, pool) for _ in range(4)] + ['zz'], 0]


PINNED = [
    # the inputs of the repaired findings C13-F1 .. C13-F4 (regression)
    ('pinned', 1, [DEFAULT, 0, [], [[O_SETDEFAULT, 'k', 5]], ['k'], 0]),
    ('pinned', 1, [DEFAULT, 0, [], [[O_SET, 'A', 1], [O_LOWER], [O_GET, 'zz'], [O_SET, 'B', 2], [O_POP, 'x', [9]], [O_POP, 'a', [9]]], ['a', 'b', 'zz'], 0]),
    ('pinned', 1, [DEFAULT, 0, [], [[O_SET, 'A', 1], [O_LOWER]], ['a', 'b'], 0]),
    ('pinned', 1, [DEFAULT, 0, [], [[O_POP, 'x', [9]]], ['x'], 0]),
    ('pinned', 1, [PLAIN, 0, [['a', 1], ['A', 2], ['a', 3]], [], ['a'], 0]),
    ('pinned', 1, [ORDERED, 0, [['A', 2], ['a', 1], ['A', 3]], [], ['a'], 0]),
    # the doctest histories of utils.py
    ('pinned', 1, [PLAIN, 0, [['TesT', 1]], [[O_LOWER]], ['TesT', 'test', 'Test'], 0]),
    ('pinned', 1, [PLAIN, 0, [['TesT', 1]], [[O_SET, 'Test', 2], [O_GET, 'test'], [O_DEL, 'test'], [O_GETD, 'Test', []], [O_GETD, 'Test', [7]]], ['TesT', 'test', 'Test'], 0]),
    ('pinned', 1, [DEFAULT, 0, [], [[O_GET, 'a'], [O_SET, 'a', 1], [O_GET, 'A'], [O_SET, 'a', 3], [O_SET, 'B', 10], [O_GET, 'b']], ['a', 'A', 'b', 'c'], 0]),
    ('pinned', 1, [ORDERED, 0, [['Uno', 1], ['Dos', 2], ['Tres', 3]], [[O_LOWER]], ['uno'], 0]),
    ('pinned', 1, [ORDERED, 0, [['Uno', 1], ['Dos', 2], ['Tres', 3]], [[O_SET, 'Cuatro', 4], [O_SET, 'UNO', 11], [O_SET, 'cuatro', 44], [O_DEL, 'dos']], ['uno', 'CUATRO', 'Dos'], 0]),
    ('pinned', 2, [['aaa', 'Aaa', 'AAA'], [], ['aaa'], 0]),
    ('pinned', 2, [['Aaa', 'Bbb'], [[S_LOWER]], ['AAA', 'bbb', 'abc'], 0]),
    ('pinned', 2, [['Aaa', 'Bbb'], [[S_ADD, 'ccc'], [S_REMOVE, 'AAA'], [S_REMOVE, 'AAA'], [S_POP], [S_POP], [S_POP]], ['AAA', 'bbb', 'ccc'], 0]),
    # delete-then-reinsert in another case, overwrite after lower(), update/setdefault interleavings
    ('pinned', 1, [ORDERED, 0, [['a', 1], ['b', 2]], [[O_DEL, 'A'], [O_SET, 'A', 3]], ['a', 'b'], 0]),
    ('pinned', 1, [ORDERED, 0, [['Ab', 1], ['b', 2]], [[O_LOWER], [O_SET, 'AB', 3]], ['ab', 'b'], 0]),
    ('pinned', 1, [PLAIN, 0, [], [[O_UPDATE, [['a', 1], ['B', 2]]], [O_SETDEFAULT, 'A', 5], [O_SETDEFAULT, 'c', 5], [O_UPDATE, [['C', 6], ['b', 7]]]], ['a', 'b', 'c'], 0]),
    # several live containers: lower() / construction from a container must not share state with the original
    ('pinned', 1, [DEFAULT, EMPTYLIST, [], [[O_MUTATE, 'a', 1], [O_GET, 'b'], [O_SET, 'A', EMPTYLIST], [O_MUTATE, 'a', 7], [O_MUTATE, 'A', 3], [O_GET, 'zz'], [O_DEL, 'a'], [O_GET, 'a']], ['a', 'b', 'zz'], 0, 0]),
    ('pinned', 1, [DEFAULT, EMPTYLIST, [], [[O_MUTATE, 'a', 1], [O_GET, 'b']], ['a', 'b'], 0, 3]),
    ('pinned', 3, [[[M_NEW, ORDERED, [['Ab', 1], ['c', 2]]], [M_LOWER, 0], [M_OP, 1, [O_SET, 'AB', 3]], [M_OP, 0, [O_DEL, 'c']], [M_OP, 1, [O_SET, 'd', 4]], [M_OP, 0, [O_CLEAR]]], ['ab', 'c', 'd'], 0]),
    ('pinned', 3, [[[M_NEW, PLAIN, [['Ab', 1]]], [M_COPY, 0, ORDERED], [M_COPYITEMS, 1, PLAIN], [M_OP, 0, [O_SET, 'ab', 5]], [M_OP, 2, [O_DEL, 'AB']], [M_NEWDEFAULT, 0], [M_UPDATEFROM, 3, 0], [M_OP, 3, [O_LOWER]], [M_OP, 0, [O_POPITEM]]], ['ab', 'x'], 0]),
    ('pinned', 4, [[[SM_NEW, ['Ab', 'c']], [SM_LOWER, 0], [SM_COPY, 0], [SM_OP, 1, [S_ADD, 'D']], [SM_OP, 0, [S_DISCARD, 'C']], [SM_NEW, ['X']], [SM_IORFROM, 3, 0], [SM_OP, 0, [S_CLEAR]], [SM_ISUBFROM, 1, 3]], ['ab', 'c', 'd', 'x'], 0]),
]


def gen(tier, rng):
    for c in PINNED:
        yield c
    quick = tier == 'quick'
    # (a) exhaustive: every reference state x every operation with every argument, for the three mapping classes
    #     quick: 2 key pairs x values {1,2}; thorough adds 3 key pairs x value {1} and 2 key pairs x values {1,2,3}
    scopes = [([('a', 'A'), ('b', 'B')], [1, 2])]
    if not quick:
        scopes += [([('a', 'A'), ('b', 'B'), ('c', 'C')], [1]), ([('a', 'A'), ('b', 'B')], [1, 2, 3])]
    for spell, vals in scopes:
        keys = [s for p in spell for s in p]
        probes = keys + ['z']
        ops = dict_ops(keys, (vals if len(vals) > 1 else [1, 2]) + [NONE], [7, NONE, 0])
        for st in states(spell, vals):
            path = [[O_SET, k, v] for k, v in st]
            for cls in (PLAIN, ORDERED, DEFAULT):
                for op in ops:
                    yield ('exhaustive_state_x_op', 1, [cls, 0, [], path + [op], probes, len(path)])
                if cls != DEFAULT:
                    # the same state reached through the constructor
                    for op in ops[::3]:
                        yield ('exhaustive_state_x_op', 1, [cls, 0, [[k, v] for k, v in st], [op], probes, 0])
    # (b) exhaustive: every history of bounded length over a reduced operation alphabet
    small = [[O_SET, 'a', 1], [O_SET, 'A', 2], [O_SET, 'b', 1], [O_SET, 'B', 2], [O_DEL, 'a'], [O_DEL, 'B'],
             [O_POP, 'A', []], [O_POP, 'b', [NONE]], [O_POPITEM], [O_SETDEFAULT, 'A', 0], [O_SETDEFAULT, 'b', NONE],
             [O_UPDATE, [['B', 4], ['a', NONE]]], [O_CLEAR], [O_LOWER], [O_GETD, 'B', [NONE]]]
    for n in range(1, 4):
        for seq in itertools.product(small, repeat=n):
            for cls in ((ORDERED, DEFAULT) if n == 3 else (PLAIN, ORDERED, DEFAULT)):
                yield ('exhaustive_histories', 1, [cls, 0, [], list(seq), ['a', 'A', 'b', 'B', 'z'], n - 1])
    if not quick:
        small4 = [o for o in small if o not in ([O_SET, 'b', 1], [O_POP, 'b', [NONE]], [O_SETDEFAULT, 'b', NONE], [O_GETD, 'B', [NONE]])]
        for seq in itertools.product(small4, repeat=4):
            for cls in (ORDERED, DEFAULT):
                yield ('exhaustive_histories', 1, [cls, 0, [], list(seq), ['a', 'A', 'b', 'B', 'z'], 3])
    # (c) constructor: every list of <= 3 (quick) / 4 pairs over {a, A, b}
    for n in range(0, 4 if quick else 5):
        for ks in itertools.product(['a', 'A', 'b'], repeat=n):
            init = [[k, i + 1] for i, k in enumerate(ks)]
            for cls in (PLAIN, ORDERED):
                yield ('exhaustive_constructor', 1, [cls, 0, init, [[O_SET, 'B', 9], [O_LOWER]], ['a', 'A', 'b', 'z'], 0])
    # (d) sets: every state x every operation; every short history
    skeys = ['a', 'A', 'b', 'B'] if quick else ['a', 'A', 'b', 'B', 'c', 'C']
    sprobes = skeys + ['z']
    sops = set_ops(skeys)
    sspell = [('a', 'A'), ('b', 'B')] if quick else [('a', 'A'), ('b', 'B'), ('c', 'C')]
    for st in states(sspell, [0]):
        path = [[S_ADD, k] for k, _ in st]
        for op in sops:
            yield ('set_exhaustive_state_x_op', 2, [[], path + [op], sprobes, len(path)])
            yield ('set_exhaustive_state_x_op', 2, [[k for k, _ in st], [op], sprobes, 0])
    for n in range(0, 4 if quick else 5):
        for ks in itertools.product(['a', 'A', 'b'], repeat=n):
            yield ('set_exhaustive_constructor', 2, [list(ks), [[S_ADD, 'B'], [S_LOWER]], ['a', 'A', 'b', 'z'], 0])
    ssmall = [[S_ADD, 'a'], [S_ADD, 'A'], [S_ADD, 'B'], [S_DISCARD, 'A'], [S_DISCARD, 'b'], [S_REMOVE, 'a'], [S_REMOVE, 'B'],
              [S_LOWER], [S_CLEAR], [S_POP], [S_IOR, ['b', 'A']], [S_ISUB, ['a', 'B']]]
    for n in range(1, (3 if quick else 4) + 1):
        for seq in itertools.product(ssmall, repeat=n):
            yield ('set_exhaustive_histories', 2, [[], list(seq), ['a', 'A', 'b', 'B', 'z'], n - 1])
    # (g) several live containers: every state x every way of deriving a second container x every mutating
    #     operation on either of the two; all live containers observed after the fork and after the operation
    mprobes = ['a', 'A', 'b', 'B', 'c', 'z']
    mut_ops = [[O_SET, 'a', 5], [O_SET, 'A', 6], [O_SET, 'B', 7], [O_SET, 'c', 8], [O_DEL, 'a'], [O_DEL, 'B'], [O_POP, 'A', []],
               [O_POP, 'b', [NONE]], [O_POPITEM], [O_SETDEFAULT, 'c', NONE], [O_SETDEFAULT, 'A', 0], [O_UPDATE, [['b', 4], ['C', NONE]]],
               [O_CLEAR], [O_LOWER]]
    for st in states([('a', 'A'), ('b', 'B')], [1] if quick else [1, 2]):
        for cls in (PLAIN, ORDERED, DEFAULT):
            if cls == DEFAULT:
                base = [[M_NEWDEFAULT, 0]] + [[M_OP, 0, [O_SET, k, v]] for k, v in st]
            else:
                base = [[M_NEW, cls, [[k, v] for k, v in st]]]
            forks = [[[M_LOWER, 0]], [[M_COPY, 0, PLAIN]], [[M_COPY, 0, ORDERED]], [[M_COPYITEMS, 0, ORDERED]],
                     [[M_NEW, ORDERED, [['c', 0]]], [M_UPDATEFROM, 1, 0]], [[M_NEWDEFAULT, 0], [M_UPDATEFROM, 1, 0]]]
            for fork in forks:
                for tgt in (0, 1):
                    for op in mut_ops:
                        yield ('multi_exhaustive_fork_x_op', 3, [base + fork + [[M_OP, tgt, op]], mprobes, len(base) + len(fork) - 1])
    smut = [[S_ADD, 'a'], [S_ADD, 'A'], [S_ADD, 'B'], [S_ADD, 'c'], [S_DISCARD, 'A'], [S_DISCARD, 'b'], [S_REMOVE, 'a'], [S_LOWER],
            [S_CLEAR], [S_POP], [S_IOR, ['b', 'C']], [S_ISUB, ['a', 'B']]]
    for st in states([('a', 'A'), ('b', 'B')] if quick else [('a', 'A'), ('b', 'B'), ('c', 'C')], [0]):
        base = [[SM_NEW, [k for k, _ in st]]]
        sforks = [[[SM_LOWER, 0]], [[SM_COPY, 0]], [[SM_NEW, ['C']], [SM_IORFROM, 1, 0]], [[SM_NEW, ['a', 'C']], [SM_ISUBFROM, 1, 0]]]
        for fork in sforks:
            for tgt in (0, 1):
                for op in smut:
                    yield ('multiset_exhaustive_fork_x_op', 4, [base + fork + [[SM_OP, tgt, op]], mprobes, len(base) + len(fork) - 1])
    for _ in range(400 if quick else 3000):
        yield ('multi_random_histories', 3, random_multi_history(rng, 25))
    for _ in range(200 if quick else 1500):
        yield ('multiset_random_histories', 4, random_multiset_history(rng, 25))
    # (h) non-ASCII keys on which str.lower differs from casefold / from upper().lower(): every state over two
    #     groups of spellings x a reduced set of operations with every key of the pool, 3 classes; the same for the set
    uprobes = UNI_KEYS
    for st in states(UNI_SPELL, [1]):
        path = [[O_SET, k, v] for k, v in st]
        for cls in (PLAIN, ORDERED, DEFAULT):
            for k in UNI_KEYS:
                for op in ([O_SET, k, 2], [O_GET, k], [O_DEL, k], [O_IN, k], [O_GETD, k, [NONE]], [O_POP, k, []], [O_POP, k, [7]], [O_SETDEFAULT, k, 3]):
                    yield ('unicode_state_x_op', 1, [cls, 0, [], path + [op], uprobes, len(path)])
            for op in ([O_LOWER], [O_POPITEM], [O_CLEAR], [O_UPDATE, [['MAß', 5], ['Σ', 6], ['σ', 7], ['K', 8]]]):
                yield ('unicode_state_x_op', 1, [cls, 0, [], path + [op, [O_SET, 'MASS', 9], [O_DEL, 'maß']], uprobes, len(path)])
                if cls != DEFAULT:
                    yield ('unicode_state_x_op', 1, [cls, 0, [[k, v] for k, v in st], [op], uprobes, 0])
        for k in UNI_KEYS:
            for op in ([S_ADD, k], [S_DISCARD, k], [S_REMOVE, k], [S_CANON, k]):
                yield ('unicode_set_state_x_op', 2, [[k_ for k_, _ in st], [op, [S_LOWER], [S_POP]], uprobes, 0])
    yield ('unicode_multi', 3, [[[M_NEW, ORDERED, [['Maß', 1], ['Σ', 2], ['K', 3]]], [M_LOWER, 0], [M_COPY, 0, PLAIN], [M_OP, 1, [O_SET, 'MAß', 4]],
                                 [M_OP, 0, [O_DEL, 'k']], [M_NEWDEFAULT, NONE], [M_UPDATEFROM, 3, 2], [M_OP, 3, [O_POP, 'ς', [NONE]]], [M_OP, 3, [O_POP, 'σ', [NONE]]]], uprobes, 0])
    yield ('unicode_multi', 4, [[[SM_NEW, ['Maß', 'Σ', 'K']], [SM_LOWER, 0], [SM_COPY, 0], [SM_OP, 1, [S_ADD, 'MAß']], [SM_OP, 0, [S_DISCARD, 'k']],
                                 [SM_NEW, ['ς']], [SM_IORFROM, 3, 0], [SM_OP, 3, [S_CANON, 'σ']]], uprobes, 0])
    # (i) mutable values and mutable default factories (list, dict, set, an object with identity): the object a lookup
    #     returns is mutated in place -- a stored value changes, a default yielded for an absent key must be a fresh one
    mkeys = ['a', 'A', 'b', 'z']
    for kind in range(4):
        sts = list(states([('a', 'A'), ('b', 'B')], [EMPTYLIST]))
        for st in (sts if kind == 0 else sts[:5]):
            path = [[O_SET, k, v] for k, v in st]
            for cls, dfl in ((DEFAULT, EMPTYLIST), (DEFAULT, 0), (ORDERED, 0)):
                for k in mkeys:
                    for k2 in ('a', 'B', 'z', 'y'):
                        for op2 in ([O_MUTATE, k2, 2], [O_GET, k2], [O_DEL, k], [O_POP, k2, []], [O_SETDEFAULT, k2, EMPTYLIST]):
                            yield ('mutable_values', 1, [cls, dfl, [], path + [[O_MUTATE, k, 1], op2, [O_MUTATE, 'y', 3], [O_GET, 'x']],
                                                         ['a', 'b', 'z', 'y', 'x'], len(path), kind])
    # (e) random long histories with richer keys
    for _ in range(1500 if quick else 4000):
        yield ('random_histories', 1, random_dict_history(rng, 60))
    for _ in range(700 if quick else 2000):
        yield ('set_random_histories', 2, random_set_history(rng, 60))
    # (f) edge / malformed: operations on absent keys and on empty containers, empty and caseless keys, duplicates
    edge_keys = ['', ' ', '1', '_', 'a', 'A', '€', 'Aa', 'aA']
    for cls in (PLAIN, ORDERED, DEFAULT):
        for k in edge_keys:
            for op in ([O_GET, k], [O_DEL, k], [O_POP, k, []], [O_POP, k, [3]], [O_GETD, k, []], [O_SETDEFAULT, k, 3], [O_POPITEM], [O_CLEAR]):
                yield ('edge', 1, [cls, 4, [], [op, op, [O_SET, k.upper(), 1], op, op], edge_keys, 0])
            # None and the other falsy values, as stored values and as EXPLICIT defaults
            for f in FALSY:
                for dfl in ([0, NONE] if cls == DEFAULT else [0]):
                    yield ('falsy', 1, [cls, dfl, [], [[O_GETD, k, [f]], [O_POP, k, [f]], [O_SETDEFAULT, k, f], [O_GET, k], [O_GETD, k, [7]], [O_POP, k, [7]],
                                                       [O_SET, k, f], [O_GETD, k, [7]], [O_SETDEFAULT, k, 7], [O_POP, k, []]], edge_keys, 0])
        for _ in range(60 if quick else 300):
            ks = [rng.choice(edge_keys) for _ in range(rng.randint(2, 6))]
            init = [] if cls == DEFAULT else [[k, i] for i, k in enumerate(ks)]
            yield ('edge', 1, [cls, 0, init, [[O_UPDATE, [[k, 10 + i] for i, k in enumerate(ks)]], [O_POPITEM], [O_DEL, ks[0]], [O_DEL, ks[0]]], edge_keys, 0])
    for k in edge_keys:
        for op in ([S_REMOVE, k], [S_DISCARD, k], [S_CANON, k], [S_POP], [S_CLEAR]):
            yield ('set_edge', 2, [[], [op, [S_ADD, k.upper()], op, op], edge_keys, 0])


# ---------------------------------------------------------------------------------------------
# known findings (known_findings.d/C13.json)
KNOWN_SIGNATURES = {}

def replay_known(finding):
    p = finding.get('pinned')
    if not p:
        return None
    arg = norm(p['arg'])
    m = oracle(p['fn'], arg, FUNCS[p['fn']][1](arg))
    return ('still fails: ' + m) if m else None


def search_failing(ck, fn, arg, rng):
    """a model/implementation disagreement on a history: look for a prefix on which the ORACLE fails"""
    ops_i = {1: 3, 2: 1, 3: 0, 4: 0}[fn]
    for n in range(1, len(arg[ops_i]) + 1):
        a = list(arg); a[ops_i] = arg[ops_i][:n]
        if fn in (3, 4):
            a[2] = 0
        m = oracle(fn, a, FUNCS[fn][1](a))
        if m and not ck.match_known('oracle', fn, a, m):
            return (a, m)
    return None


def extra_checks(ck, tier, rng):
    # the hypothesis of the theorems (lower is idempotent) and the ASCII case mapping of the model,
    # against the running interpreter
    fails = []
    n = 0
    for cp in range(0x110000):
        if 0xD800 <= cp <= 0xDFFF:
            continue
        c = chr(cp); n += 1
        if c.lower().lower() != c.lower():
            fails.append(('U+%04X' % cp, 'str.lower is not idempotent on this code point', False))
        if cp < 128:
            m = chr(cp + 32) if 65 <= cp <= 90 else c
            if c.lower() != m:
                fails.append(('U+%04X' % cp, 'model to_lower=%r python=%r' % (m, c.lower()), False))
    # the key pool of the streams: lower is idempotent on it (also on upper/lower variants, which the random
    # generator derives), and repr() of a key parses back to the key
    pool = set(UNI_KEYS) | set(RICH)
    pool |= set(k.upper() for k in list(pool)) | set(k.lower() for k in list(pool))
    for k in sorted(pool):
        if k.lower().lower() != k.lower():
            fails.append((k, 'key pool: str.lower is not idempotent on this key', False))
        if ast.literal_eval(repr(k)) != k:
            fails.append((k, 'key pool: repr() of the key does not parse back', False))
    yield {'name': 'lower_idempotent_sweep', 'evaluations': n, 'failures': fails[:5],
           'info': 'str.lower(str.lower(c)) == str.lower(c) for every code point; model case mapping == str.lower on ASCII'}


RULE = ('A case is a HISTORY on one of the four classes: constructor arguments, then operations '
        '(setitem getitem delitem contains get pop popitem setdefault update clear lower; for the set add discard remove contains '
        'get_canonical_key lower clear |= -= pop); after the constructor and after every operation list(c), items(), len, repr, '
        '`p in c` and c[p] (get_canonical_key(p)) for every probe key are observed and compared with the extracted model, and judged by a '
        'plain-Python reference map (oracle). exhaustive_state_x_op: every reference state over the key/value alphabet (reached by setitem '
        'and, separately, by the constructor) x every operation with every argument; exhaustive_histories: every operation sequence up to '
        'the depth bound over a 15-operation alphabet; exhaustive_constructor: every list of pairs up to the bound; multi_*: histories over SEVERAL live containers (fn 3, 4): every reference state x 3 classes x every way of deriving a second container (lower(), cls(c), cls(c.items()), new.update(c)) x every mutating operation on either container, all live containers observed after every step; random: histories of '
        'length <= 60 over mixed-case keys of length 0..5 with digits, symbols and caseless non-ASCII characters. distinct = distinct '
        '(function, argument); non-trivial = the history passes through a non-empty container.')
EXHAUSTIVE = {
    'quick': 'mappings: all 41 reference states over keys {a,A,b,B} x values {1,2} x all 48 operation instances x 3 classes (state reached by setitem; a third of the operations also from the constructor); all histories of length <= 3 over a 15-operation alphabet; all constructor lists of <= 3 pairs over {a,A,b}. set: all 13 states over {a,A,b,B} x 29 operation instances (by add path and by constructor); all constructor lists of <= 3 keys over {a,A,b}; all histories of length <= 3 over 12 operations',
    'thorough': 'mappings: as quick, plus all 79 states over {a,A,b,B,c,C} x value 1 x 68 operation instances and all 85 states over {a,A,b,B} x values {1,2,3} x 52 operation instances, x 3 classes; all histories of length <= 3 over 15 operations and of length 4 over 11 operations; all constructor lists of <= 4 pairs. set: all 79 states over {a,A,b,B,c,C} x 39 operation instances; all constructor lists of <= 4 keys; all histories of length <= 4 over 12 operations',
}
TRUSTED_BASE = ['modelled (not verified) code: pybtex/utils.py:80-379 (the four container classes) and the MutableMapping / MutableSet mix-ins of CPython 3.12 Lib/_collections_abc.py that they inherit (get pop popitem clear update setdefault keys items values; remove pop clear |= -=)',
                'repr() is compared as the data it prints (parsed back with ast.literal_eval), not as text']
ASSUMPTIONS = ['lower is idempotent: lower (lower k) = lower k (hypothesis of the theorems; proved for the extracted ASCII instance; str.lower re-measured idempotent on every code point on every run)',
               'boolean key equality decides equality (proved for the extracted instance str_eqb)',
               'correspondence domain: keys are ASCII strings and strings with the non-ASCII characters of the pool (ß ς Σ σ ſ ﬁ İ Kelvin-K € ° →); for non-ASCII keys the extracted model uses the table key -> str.lower(key) that Python computes for the keys of the case (the theorems are about an abstract key type with an idempotent lower; idempotence on the pool is re-checked on every run)',
               'set iteration order (hash order) is unobservable: iterations of the set are compared sorted, and MutableSet.pop is modelled as "removes some element" (the element the implementation popped is passed to the model, which checks it is a member)']
PARTIAL = ['no theorem is partial.  The reference map of the defaulting variant answers get(k, d) of an absent key with the factory default ("yields its default for absent keys"), as the code does (default_get_no_insert); the oracle accepts d as well',
           'repr is modelled, proved and compared as the data it prints, not as text; set iteration order, the element returned by set.pop() and the item returned by popitem() are not fixed by the oracle',
           'not modelled: __eq__, update(**kwargs), &=, ^= and the binary set operators (outside the operation list of the property)']
