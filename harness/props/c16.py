# C16 -- the error reporting channel.  Model: coq/Model/Errors.v; theorems: coq/Props/C16.v
import itertools, random, io, os, sys, ast, tempfile, shutil, contextlib
from core import *

ID = 'C16'

# ------------------------------------------------------------------------------------------
# wire format of error objects (see coq/Extr/C16.v):  [id, msg, fname, kind, ctx]
#   fname: [] | [0, str] | [1]     kind: [0] | [1, etype, lineno?] | [2, lineno?]
#   ctx:   [0] | [1, text, lineno?, pos] | [2, text, start?, pos] | [3, line?]
def fn_value(fn):
    """wire file name -> the Python object: None, str, bytes, or an object that is neither (an int)"""
    if fn == []:
        return None
    if fn[0] == 0:
        return S(fn[1])
    if fn[0] == 2:
        return bytes(fn[1])
    return 5

def fn_text(fn):
    """what the property expects to see as file name in a rendering (independent of pybtex)"""
    v = fn_value(fn)
    if isinstance(v, bytes):
        return v.decode(sys.getfilesystemencoding() or 'utf-8', 'replace')
    return v if isinstance(v, str) else ''

def opt(v):
    return [] if v is None else [v]

def unopt(v):
    return None if v == [] else v[0]

class _NoDecode(int):
    pass

_PLAIN = None
def plain_classes():
    global _PLAIN
    if _PLAIN is None:
        from pybtex.exceptions import PybtexError
        from pybtex.bibtex.exceptions import BibTeXError
        from pybtex.database import BibliographyDataError
        from pybtex.database.convert import ConvertError
        _PLAIN = [PybtexError, BibTeXError, BibliographyDataError, ConvertError]
    return _PLAIN

_CUSTOM = {}
def mk_err(rec):
    """build the real exception object that has the attributes of the record"""
    from pybtex.scanner import Scanner, PybtexSyntaxError, TokenRequired
    eid, msg, fn, kind, ctx = rec
    msg = S(msg)
    filename = fn_value(fn)
    if kind[0] == 0:
        if ctx[0] != 0:
            raise ValueError('no such error class')
        cls = plain_classes()[eid % len(plain_classes())]
        return cls(msg, filename)
    if kind[0] == 1:
        etype, lineno = S(kind[1]), unopt(kind[2])
        if ctx[0] == 0:
            p = Scanner('', filename)
            p.lineno = lineno
            if etype == 'syntax error':
                return PybtexSyntaxError(msg, p)
            if etype == 'undefined string':
                from pybtex.database.input.bibtex import UndefinedMacro
                return UndefinedMacro(msg, p)
            cls = _CUSTOM.get(etype)
            if cls is None:
                cls = _CUSTOM[etype] = type('CustomSyntaxError', (PybtexSyntaxError,), {'error_type': etype})
            return cls(msg, p)
        if etype != 'syntax error' or not msg.endswith(' expected'):
            raise ValueError('no such error class')
        desc = msg[:-len(' expected')]
        if ctx[0] == 1:
            if unopt(ctx[2]) != lineno:
                raise ValueError('inconsistent lineno')
            p = Scanner(S(ctx[1]), filename)
            p.lineno = lineno
            p.pos = ctx[3]
            return TokenRequired(desc, p)
        if ctx[0] == 2:
            from pybtex.database.input.bibtex import LowLevelParser
            p = LowLevelParser(S(ctx[1]), filename=filename)
            p.lineno = lineno
            p.command_start = unopt(ctx[2])
            p.pos = ctx[3]
            return TokenRequired(desc, p)
        raise ValueError('no such error class')
    if kind[0] == 2:
        from pybtex.auxfile import AuxDataError, AuxDataContext
        if ctx[0] != 3:
            raise ValueError('no such error class')
        c = AuxDataContext(filename)
        c.lineno = unopt(kind[1])
        c.line = None if ctx[1] == [] else S(ctx[1][0])
        return AuxDataError(msg, c)
    raise ValueError('bad kind')

def reset_state(strict, code):
    import pybtex.errors as E, pybtex.io
    E.strict = bool(strict)
    E.error_code = code
    E.captured_errors = None
    buf = io.StringIO()
    pybtex.io.stderr = buf
    return E, buf

def observe(E, buf, lists, idof):
    cap = E.captured_errors
    if cap is None:
        c = []
    else:
        c = [k for k, l in enumerate(lists) if l is cap][:1] or [99]
    return [1 if E.strict else 0, E.error_code, c, [[idof.get(id(x), 999) for x in l] for l in lists], norm(buf.getvalue())]

# ------------------------------------------------------------------------------------------
def impl_format_error(arg):
    from pybtex.errors import format_error
    e = mk_err(arg[0])
    return call_impl_noerr(format_error, e, S(arg[1]))

def call_impl_noerr(f, *a):
    """like call_impl, but a PybtexError escaping from a renderer is a crash too"""
    try:
        return OK(f(*a))
    except Exception:
        return [2]

def impl_str(arg):
    e = mk_err(arg)
    try:
        r = str(e)
        return [0, norm(r)] if isinstance(r, str) else [2]
    except Exception:
        return [2]

def str_of(rec):
    r = impl_str(rec)
    return S(r[1]) if r[0] == 0 else '<str() raised>'

def impl_context(arg):
    e = mk_err(arg)
    def f():
        c = e.get_context()
        if c is not None and not isinstance(c, str):
            raise TypeError('context is not text')
        return [] if c is None else [norm(c)]
    try:
        return [0, f()]
    except Exception:
        return [2]

def canon_ctx(out):
    # None and '' are the same thing to format_error
    if out[0] == 0 and out[1] == [[]]:
        return [0, []]
    return out

class _Inner(Exception):
    pass

class _Outer(Exception):
    pass

def impl_hist(arg):
    """drive the API through a straight-line program; `with` blocks are entered and left by hand,
    exactly as the with statement does"""
    strict0, code0, ops = arg
    from pybtex.exceptions import PybtexError
    E, buf = reset_state(strict0, code0)
    stack, lists, events, idof = [], [], [], {}
    keep = []
    def unwind(ex, n):
        k = 0
        while stack and k < n:
            cm = stack.pop()
            k += 1
            if cm.__exit__(type(ex), ex, ex.__traceback__):
                return True      # swallowed
        return False
    for op in ops:
        try:
            if op[0] == 0:
                E.set_strict_mode(bool(op[1]))
            elif op[0] == 1:
                cm = E.capture()
                l = cm.__enter__()
                stack.append(cm)
                lists.append(l)
                events.append([0, len(lists) - 1])
            elif op[0] == 2:
                if stack:
                    stack.pop().__exit__(None, None, None)
            elif op[0] == 3:
                events.append([5])
                raise _Inner()
            elif op[0] == 4:
                events.append([5])
                raise _Outer()
            else:
                e = mk_err(op[1])
                keep.append(e)
                idof[id(e)] = op[1][0]
                lens = [len(l) for l in lists]
                blen = len(buf.getvalue())
                try:
                    E.report_error(e)
                except PybtexError as ex:
                    events.append([2, idof.get(id(ex), 999)])
                    raise
                except Exception:
                    events.append([4, op[1][0]])
                    raise
                grown = [k for k, l in enumerate(lists) if len(l) == lens[k] + 1 and l[-1] is e]
                if grown:
                    events.append([1, grown[0], op[1][0]])
                elif len(buf.getvalue()) > blen:
                    events.append([3, op[1][0]])
                else:
                    events.append([6, op[1][0]])    # lost
        except _Inner as ex:
            unwind(ex, 1)
        except Exception as ex:
            unwind(ex, len(stack))
    out = [observe(E, buf, lists, idof), len(stack), events]
    # leave the module clean
    while stack:
        stack.pop().__exit__(None, None, None)
    return out

def _run_body(comp, idof, keep):
    from pybtex.errors import report_error
    errs, ending = comp
    objs = [mk_err(r) for r in errs]
    fatal = mk_err(ending[1]) if ending[0] == 1 else None
    for r, o in zip(errs, objs):
        idof[id(o)] = r[0]
    if fatal is not None:
        idof[id(fatal)] = ending[1][0]
    keep.extend(objs + [fatal])
    def body():
        for o in objs:
            report_error(o)
        if fatal is not None:
            raise fatal
        if ending[0] == 2:
            raise ZeroDivisionError('foreign')
    return body

def _outcome(f, idof):
    from pybtex.exceptions import PybtexError
    try:
        f()
        return [0]
    except PybtexError as ex:
        return [1, idof.get(id(ex), 999)]
    except Exception:
        return [2]

def impl_modes(arg):
    code0, comp = arg
    res = []
    for strict in (1, 0):
        idof, keep = {}, []
        E, buf = reset_state(strict, code0)
        body = _run_body(comp, idof, keep)
        got = []
        def f():
            with E.capture() as lst:
                got.append(lst)
                body()
        oc = _outcome(f, idof)
        res.append([observe(E, buf, got, idof), oc, [idof.get(id(x), 999) for x in (got[0] if got else [])]])
    for strict in (0, 1):
        idof, keep = {}, []
        E, buf = reset_state(strict, code0)
        body = _run_body(comp, idof, keep)
        oc = _outcome(body, idof)
        res.append([observe(E, buf, [], idof), oc])
    return res

def impl_cmdline(arg):
    strict0, code0, strict_opt, comp = arg
    from pybtex.cmdline import CommandLine, standard_option
    idof, keep = {}, []
    E, buf = reset_state(strict0, code0)
    body = _run_body(comp, idof, keep)
    class CL(CommandLine):
        prog = 'c16'
        args = ''
        num_args = 0
        options = ((None, (standard_option('strict'),)),)
        def run(self, **kw):
            body()
    argv = sys.argv
    sys.argv = ['c16'] + (['--strict'] if strict_opt else [])
    try:
        try:
            CL()()
            st = [2]          # must leave through sys.exit
        except SystemExit as ex:
            code = ex.code
            st = [0, 0 if code is None else code] if isinstance(code, int) or code is None else [2]
        except Exception:
            st = [2]
    finally:
        sys.argv = argv
    return [observe(E, buf, [], idof), st]

def public_context(e):
    """get_context() as a res of an optional string, through the public method only"""
    try:
        c = e.get_context()
        if c is not None and not isinstance(c, str):
            return [2]
        return [0, [] if c is None else [norm(c)]]
    except Exception:
        return [2]

def impl_scanner(arg):
    from pybtex.scanner import Scanner, Literal
    from pybtex.exceptions import PybtexError
    from pybtex.errors import format_error
    text, lit, fn = S(arg[0]), S(arg[1]), arg[2]
    filename = fn_value(fn)
    sc = Scanner(text, filename)
    try:
        tok = sc.required([Literal(lit)])
        return [0, norm(tok.value)]
    except PybtexError as e:
        ln = getattr(e, 'lineno', None)
        return [1, opt(ln if isinstance(ln, int) else None), public_context(e), call_impl_noerr(format_error, e, 'ERROR: ')]

def impl_lineless(arg):
    """Scanner.required on a fresh scanner without line numbers (the name-format scanner)"""
    from pybtex.bibtex.names import NameFormatParser
    from pybtex.scanner import Literal
    from pybtex.exceptions import PybtexError
    from pybtex.errors import format_error
    sc = NameFormatParser(S(arg[0]), filename=fn_value(arg[2]))
    try:
        tok = sc.required([Literal(S(arg[1]))])
        return [0, norm(tok.value)]
    except PybtexError as e:
        ln = getattr(e, 'lineno', None)
        return [1, opt(ln if isinstance(ln, int) else None), public_context(e), call_impl_noerr(format_error, e, 'ERROR: ')]

def canon_context_value(c):
    """source lines exactly; of the marker line only its column (the glyphs are wording)"""
    if c[0] != 0 or c[1] == [] or c[1] == [[]]:
        return c[:1] + [[]] if c[0] == 0 else c
    lines = S(c[1][0]).split('\n')
    marker = lines[-1] if len(lines) > 1 else ''
    return [0, norm(lines[:-1] if len(lines) > 1 else lines), len(marker) - len(marker.lstrip(' '))]

def _mk_scanner(sc, cls):
    text, fn, ln, pos = S(sc[0]), fn_value(sc[1]), sc[2], sc[3]
    p = cls(text, filename=fn)
    p.lineno = ln
    p.pos = pos
    return p

def impl_construct(arg):
    """call the real constructor with the given parameters; observe the object through its public
    interface: str, get_context, format_error, lineno, get_filename"""
    from pybtex.scanner import Scanner, PybtexSyntaxError, PrematureEOF, TokenRequired
    from pybtex.errors import format_error
    tag = arg[0]
    if tag == 0:
        fn = arg[2]
        e = plain_classes()[len(arg[1]) % len(plain_classes())](S(arg[1]), fn_value(fn))
    elif tag == 1:
        et = S(arg[1])
        p = _mk_scanner(arg[3], Scanner)
        if et == 'syntax error':
            cls = PybtexSyntaxError
        elif et == 'undefined string':
            from pybtex.database.input.bibtex import UndefinedMacro as cls
        else:
            cls = _CUSTOM.get(et) or _CUSTOM.setdefault(et, type('CustomSyntaxError', (PybtexSyntaxError,), {'error_type': et}))
        e = cls(S(arg[2]), p)
    elif tag == 2:
        e = PrematureEOF(_mk_scanner(arg[1], Scanner))
    elif tag == 3:
        e = TokenRequired(S(arg[1]), _mk_scanner(arg[2], Scanner))
    elif tag == 4:
        from pybtex.database.input.bibtex import LowLevelParser
        p = _mk_scanner(arg[2], LowLevelParser)
        p.command_start = unopt(arg[3])
        e = TokenRequired(S(arg[1]), p)
    elif tag == 6:
        from pybtex.bibtex.names import NameFormatParser
        p = NameFormatParser(S(arg[2]), filename=fn_value(arg[3]))
        p.pos = arg[4]
        e = TokenRequired(S(arg[1]), p)
    elif tag == 7:
        from pybtex.bibtex.names import NameFormatParser
        p = NameFormatParser('', filename=fn_value(arg[3]))
        et = S(arg[1])
        cls = PybtexSyntaxError if et == 'syntax error' else (_CUSTOM.get(et) or _CUSTOM.setdefault(et, type('CustomSyntaxError', (PybtexSyntaxError,), {'error_type': et})))
        e = cls(S(arg[2]), p)
    else:
        from pybtex.auxfile import AuxDataError, AuxDataContext
        c = AuxDataContext(fn_value(arg[2][0]))
        c.lineno = unopt(arg[2][1])
        c.line = None if arg[2][2] == [] else S(arg[2][2][0])
        e = AuxDataError(S(arg[1]), c)
        c.lineno, c.line = 77, 'the parser went on'      # the error keeps what it was given (F22)
    try:
        st = str(e)
        st = [0, norm(st)] if isinstance(st, str) else [2]
    except Exception:
        st = [2]
    ln = getattr(e, 'lineno', None)
    if tag == 5:
        ln = None        # AuxDataError has no public line attribute; the line is part of str(e)
    try:
        f = e.get_filename()
        f = [0, [] if f is None else [norm(f)]] if (f is None or isinstance(f, str)) else [2]
    except Exception:
        f = [2]
    return [st, public_context(e), call_impl_noerr(format_error, e, 'ERROR: '), opt(ln if isinstance(ln, int) else None), f]

def impl_splitlines(arg):
    return norm(S(arg[1]).splitlines(bool(arg[0])))

def impl_int(arg):
    return norm('{0}'.format(arg))

# ---- real user input, three ways: every problem rendered (a) when it is raised in strict mode,
# (b) as printed in non-strict mode, (c) from the captured list after the run has finished
def _render_now(e):
    from pybtex.errors import format_error
    try:
        r = format_error(e, 'WARNING: ')
        return [0, norm(r)] if isinstance(r, str) else [2]
    except Exception:
        return [2]

def _three_renderings(thunk):
    """-> [strict, nonstrict, capture]
       strict    = [rendering of the error raised] or []        (rendered in the except clause)
       nonstrict = [printed text, error_code, fatal rendering?]  (fatal rendered in the except clause)
       capture   = [[renderings of the collected errors, made after the block was left], fatal rendering?]
       a foreign exception in any run -> [9] (another property's business)"""
    from pybtex.exceptions import PybtexError
    import pybtex.errors as E
    clear_memos()
    E_, buf = reset_state(1, 0)
    strict = []
    try:
        thunk()
    except PybtexError as ex:
        strict = [_render_now(ex)]
    except Exception:
        return [9]
    clear_memos()
    E_, buf = reset_state(0, 0)
    fatal = []
    try:
        thunk()
    except PybtexError as ex:
        fatal = [_render_now(ex)]
    except Exception:
        return [9]
    nonstrict = [norm(buf.getvalue()), E.error_code, fatal]
    clear_memos()
    E_, buf = reset_state(1, 0)
    lst, fatal = [], []
    try:
        with E.capture() as l:
            lst = l
            thunk()
    except PybtexError as ex:
        fatal = [_render_now(ex)]
    except Exception:
        return [9]
    capture = [[_render_now(e) for e in list(lst)], fatal, [] if E.captured_errors is None else [1]]
    reset_state(1, 0)
    return [strict, nonstrict, capture]

def impl_real_bib(arg):
    import pybtex.database as D
    text = S(arg)
    return _three_renderings(lambda: D.parse_string(text, 'bibtex'))

def impl_real_bst(arg):
    from pybtex.bibtex.interpreter import Interpreter
    from pybtex.bibtex import bst as BSTM
    from pybtex.database.input.bibtex import Parser
    text = S(arg)
    return _three_renderings(lambda: Interpreter(Parser, 'utf-8').run(BSTM.parse_string(text), [], [], min_crossrefs=2))

def impl_real_aux(arg):
    from pybtex import auxfile
    d = tempfile.mkdtemp(prefix='c16aux')
    try:
        p = os.path.join(d, 'x.aux')
        with open(p, 'w', encoding='utf-8', newline='') as f:
            f.write(S(arg))
        return _three_renderings(lambda: auxfile.parse_file(p, 'utf-8'))
    finally:
        shutil.rmtree(d, ignore_errors=True)

def _with_bytes_path(name, text, run):
    """write the text to a file whose name is the given bytes (possibly not valid UTF-8) in a fresh
    directory and run the three-mode comparison on its bytes path"""
    d = tempfile.mkdtemp(prefix='c16b')
    try:
        name = bytes(name).replace(b'/', b'_').replace(b'\x00', b'_') or b'x'
        p = os.path.join(os.fsencode(d), name)
        try:
            with open(p, 'w', encoding='utf-8', newline='') as f:
                f.write(S(text))
        except OSError:
            return [9]           # the file system refuses the name: nothing to check
        return _three_renderings(lambda: run(p))
    finally:
        shutil.rmtree(d, ignore_errors=True)

def impl_real_bib_bytes(arg):
    from pybtex.database.input.bibtex import Parser
    return _with_bytes_path(arg[0], arg[1], lambda p: Parser().parse_file(p))

def impl_real_bst_bytes(arg):
    from pybtex.bibtex import bst as BSTM
    return _with_bytes_path(arg[0], arg[1], lambda p: list(BSTM.parse_file(p)))

def impl_real_aux_bytes(arg):
    from pybtex import auxfile
    return _with_bytes_path(arg[0], arg[1], lambda p: auxfile.parse_file(p, 'utf-8'))

# ---- targeted problems: a piece of user-controlled text is planted where a message embeds it
def _tmpfile(d, name, text):
    p = os.path.join(d, name)
    with open(p, 'w', encoding='utf-8', newline='') as f:
        f.write(text)
    return p

def _safe_name(tok):
    return ''.join('_' if c in '/\x00\n\r' else c for c in tok) or 'x'

def _t_aux_case(tok, d):
    from pybtex import auxfile
    p = _tmpfile(d, 'x.aux', '\\citation{Foo%s}\n\\citation{foo%s}\n\\citation{ok}\n\\bibstyle{s}\n\\bibdata{d}\n' % (tok, tok))
    return lambda: auxfile.parse_file(p, 'utf-8')
def _t_aux_style(tok, d):
    from pybtex import auxfile
    p = _tmpfile(d, 'x.aux', '\\bibstyle{s}\n\\bibstyle{%s}\n\\bibdata{%s}\n\\bibdata{e%s}\n' % (tok, tok, tok))
    return lambda: auxfile.parse_file(p, 'utf-8')
def _t_aux_filename(tok, d):
    from pybtex import auxfile
    p = _tmpfile(d, _safe_name(tok) + '.aux', '\\citation{Foo}\n\\citation{foo}\n\\bibstyle{s}\n\\bibstyle{t}\n')
    return lambda: auxfile.parse_file(p, 'utf-8')
def _bib(text):
    import pybtex.database as D
    return lambda: D.parse_string(text, 'bibtex')
def _t_bib_key(tok, d):
    return _bib('@a(k%s, t = {1})\n@b(k%s, t = {2})\n@c(z, u = {3})\n' % (tok, tok))
def _t_bib_field(tok, d):
    return _bib('@a(k%s, f%s = {1}, F%s = {2})\n@c(z, u = {3})\n' % (tok, tok, tok))
def _t_bib_macro(tok, d):
    return _bib('@a{k, t = m%s}\n@c{z, u = {3}}\n' % tok)
def _t_bib_value_context(tok, d):
    return _bib('@a{k, t = {v%s}, u = }\n@c{z, u = {3}}\n' % tok.replace('{', '').replace('}', ''))
def _t_bib_name(tok, d):
    return _bib('@a{k, author = {N%s, b, c, d}}\n@c{z, u = {3}}\n' % tok.replace('{', '').replace('}', ''))
def _t_bib_xref(tok, d):
    def f():
        import pybtex.database as D
        data = D.parse_string('@a(k%s, crossref = {x%s})' % (tok, tok.replace('{', '').replace('}', '')), 'bibtex')
        return data.add_extra_citations(list(data.entries.keys()), 2)
    return f
def _t_bib_filename(tok, d):
    from pybtex.database.input.bibtex import Parser
    p = _tmpfile(d, _safe_name(tok) + '.bib', '@a{k, t = }\n@b{k2, t = u}\n')
    return lambda: Parser().parse_file(p)
def _t_open_missing(tok, d):
    import pybtex.database as D
    return lambda: D.parse_file(os.path.join(d, 'no' + _safe_name(tok) + '.bib'))
def _bst(text):
    def f():
        from pybtex.bibtex.interpreter import Interpreter
        from pybtex.bibtex import bst as BSTM
        from pybtex.database.input.bibtex import Parser
        return Interpreter(Parser, 'utf-8').run(BSTM.parse_string(text), [], [], min_crossrefs=2)
    return f
def _q(tok):
    return tok.replace('"', '')
def _t_bst_warning(tok, d):
    return _bst('FUNCTION {f} { "w%s" warning$ "second %s" warning$ }\nEXECUTE {f}\n' % (_q(tok), _q(tok)))
def _t_bst_case_mode(tok, d):
    return _bst('FUNCTION {f} { "x" "q%s" change.case$ }\nEXECUTE {f}\n' % _q(tok))
def _t_bst_format_name(tok, d):
    return _bst('FUNCTION {f} { "A%s B" #5 "{ff}" format.name$ }\nEXECUTE {f}\n' % _q(tok))
def _t_bst_undefined(tok, d):
    w = ''.join(c for c in tok if c not in '{}"#% \n\r\t') or 'u'
    return _bst('FUNCTION {f} { g%s }\nEXECUTE {f}\n' % w)
def _t_bst_context(tok, d):
    from pybtex.bibtex import bst as BSTM
    text = 'FUNCTION {f} { "s%s" } ?%s\n' % (_q(tok), tok.replace('%', ''))
    return lambda: list(BSTM.parse_string(text))
def _t_name(tok, d):
    from pybtex.database import Person
    return lambda: Person('N%s, b, c, d' % tok)
def _t_name_format(tok, d):
    from pybtex.bibtex.names import format_name
    return lambda: format_name('Donald E. Knuth', '{ff}%s{' % tok.replace('{', '').replace('}', ''))
def _nb(tok):
    return tok.replace('{', '').replace('}', '')
def _fmt_direct(fmt):
    from pybtex.bibtex.names import format_name
    return lambda: format_name('Donald E. Knuth', fmt)
def _t_fmt_stray(tok, d):          # TokenRequired of the line-less name-format scanner
    return _fmt_direct('{ff_%s}{ll}' % _nb(tok))
def _t_fmt_letters(tok, d):
    return _fmt_direct('{ff}{qq%s}' % _nb(tok))
def _t_fmt_closing(tok, d):
    return _fmt_direct('{ff}%s}' % _nb(tok))
def _t_fmt_inner(tok, d):
    return _fmt_direct('{ff{%s' % _nb(tok))
def _t_bst_fmt_stray(tok, d):
    return _bst('FUNCTION {f} { "Donald E. Knuth" #1 "{ff_%s}{ll}" format.name$ write$ }\nEXECUTE {f}\n' % _q(_nb(tok)))
def _t_bst_fmt_letters(tok, d):
    return _bst('FUNCTION {f} { "w" warning$ "Donald E. Knuth" #1 "{ff}{qq%s}" format.name$ write$ }\nEXECUTE {f}\n' % _q(_nb(tok)))
def _t_plugin(tok, d):
    from pybtex.plugin import find_plugin
    return lambda: find_plugin('pybtex.backends', 'p' + tok)
def _t_plugin_group(tok, d):
    from pybtex.plugin import find_plugin
    return lambda: find_plugin('g' + tok, 'x')
def _t_plugin_suffix(tok, d):
    from pybtex.plugin import find_plugin
    return lambda: find_plugin('pybtex.database.input', filename='x.s' + _safe_name(tok))
def _t_template_field(tok, d):
    def f():
        from pybtex.style.template import field
        from pybtex.database import Entry
        e = Entry('misc'); e.key = 'k' + tok
        return field('f' + tok).format_data({'entry': e})
    return f
def _t_style_missing(tok, d):
    def f():
        import pybtex.database as D
        from pybtex.plugin import find_plugin
        style = find_plugin('pybtex.style.formatting', 'plain')()
        data = D.parse_string('@misc{a, title={T}}', 'bibtex')
        return list(style.format_bibliography(data, ['a', 'c' + tok, 'd' + tok]))
    return f

_WS = ' \t\n\r\x0b\x0c\x1c\x1d\x1e\x1f\x85\xa0\u2028\u2029'
_LBS = '\n\r\x0b\x0c\x1c\x1d\x1e\x85\u2028\u2029'
_NAMEONLY = None      # keep only characters of a BibTeX name
def _plantable(k, tok):
    """the part of the token that the input syntax lets one plant at this place"""
    forb = TARGET_FORBID.get(k, '')
    if forb is _NAMEONLY:
        return ''.join(c for c in tok if c.isascii() and (c.isalnum() or c in '@!$&*+-./:;<>?[\\]^_`|~'))
    return ''.join(c for c in tok if c not in forb)
# (name, builder, what must appear verbatim given the token)
TARGETS = [
    ('.aux: case mismatch between cite keys', _t_aux_case, lambda t: ['Foo' + t, 'foo' + t]),
    ('.aux: repeated \\bibstyle / \\bibdata (context line)', _t_aux_style, lambda t: ['\\bibstyle{%s}' % t, '\\bibdata{e%s}' % t]),
    ('.aux: file name', _t_aux_filename, lambda t: [_safe_name(t) + '.aux: ']),
    ('.bib: repeated entry key', _t_bib_key, lambda t: ['k' + t]),
    ('.bib: duplicate field', _t_bib_field, lambda t: ['k' + t, 'F' + t]),
    ('.bib: undefined macro', _t_bib_macro, lambda t: None),
    ('.bib: value in the context of a syntax error', _t_bib_value_context, lambda t: ['{v%s}' % t.replace('{', '').replace('}', '')]),
    ('.bib: too many commas in a name', _t_bib_name, lambda t: [('N' + t.replace('{', '').replace('}', ''), 'repr')]),
    ('.bib: bad cross-reference', _t_bib_xref, lambda t: ['k' + t]),
    ('.bib: file name', _t_bib_filename, lambda t: [_safe_name(t) + '.bib: ']),
    ('file that cannot be opened', _t_open_missing, lambda t: ['no' + _safe_name(t) + '.bib']),
    ('.bst: warning$ text', _t_bst_warning, lambda t: ['w' + _q(t), 'second ' + _q(t)]),
    ('.bst: change.case$ mode', _t_bst_case_mode, lambda t: ['q' + _q(t)]),
    ('.bst: format.name$ names', _t_bst_format_name, lambda t: ['A%s B' % _q(t)]),
    ('.bst: undefined function', _t_bst_undefined, lambda t: None),
    ('.bst: tokens in the context of a syntax error', _t_bst_context, lambda t: None),
    ('name string', _t_name, lambda t: [('N' + t, 'repr')]),
    ('name format string', _t_name_format, lambda t: None),
    ('plugin name', _t_plugin, lambda t: ['p' + t]),
    ('plugin group', _t_plugin_group, lambda t: ['g' + t]),
    ('plugin suffix', _t_plugin_suffix, lambda t: None),
    ('template: missing field', _t_template_field, lambda t: ['f' + t, 'k' + t]),
    ('style: missing database entry', _t_style_missing, lambda t: ['c' + t, 'd' + t]),
    ('name format: stray character at brace level 1 (TokenRequired of a scanner without line numbers)', _t_fmt_stray, lambda t: None),
    ('name format: illegal brace-level-1 letters', _t_fmt_letters, lambda t: ['{ff}{qq%s}' % _nb(t)]),
    ('name format: unbalanced closing brace', _t_fmt_closing, lambda t: ['{ff}%s}' % _nb(t)]),
    ('name format: unbalanced, end of string inside a group', _t_fmt_inner, lambda t: ['{ff{%s' % _nb(t)]),
    ('.bst: format.name$ with a stray character in the format string', _t_bst_fmt_stray, lambda t: None),
    ('.bst: format.name$ with illegal letters in the format string', _t_bst_fmt_letters, lambda t: ['{ff}{qq%s}' % _q(_nb(t))]),
]

TARGET_FORBID = {0: ',' + _LBS, 1: _LBS, 2: _LBS, 3: _WS + ',', 4: _NAMEONLY, 5: _NAMEONLY, 6: _LBS, 7: _LBS + ',', 8: _WS + ',',
                 9: _LBS, 10: _LBS, 11: _LBS, 12: _LBS, 13: _LBS, 14: _WS, 15: _LBS, 17: _LBS, 27: _LBS, 28: _LBS}

def impl_targeted(arg):
    k, tok = arg[0], _plantable(arg[0], S(arg[1]))
    d = tempfile.mkdtemp(prefix='c16t')
    try:
        try:
            thunk = TARGETS[k][1](tok, d)
        except (OSError, ValueError, UnicodeError):
            return [9]        # the token cannot be planted (e.g. the file system refuses the name)
        out = _three_renderings(thunk)
        if out == [9] and tok != 'plain':
            # a foreign exception: is it the planted text that does it (the same input with a harmless
            # text goes through)?  then building the message choked on the user's text
            try:
                ref = _three_renderings(TARGETS[k][1]('plain', d))
            except Exception:
                ref = [9]
            if ref != [9]:
                return [8]
        return out
    finally:
        shutil.rmtree(d, ignore_errors=True)

def oracle_targeted(arg, out):
    if out == [8]:
        return ('with the user-controlled text %r the run dies with a foreign exception where the same input with '
                'a harmless text reports its problem normally' % _plantable(arg[0], S(arg[1])))
    m = oracle_real(out)
    if m or out == [9]:
        return m
    k, tok = arg[0], _plantable(arg[0], S(arg[1]))
    want = TARGETS[k][2](tok)
    strict, (printed, code, nfatal), (captured, cfatal, capleft) = out
    texts = [S(r[1]) for r in captured + cfatal + strict if r[0] == 0]
    if not texts or want is None:
        return None
    whole = '\n'.join(texts)
    for w in want:
        forms = [w] if isinstance(w, str) else [w[0], repr(w[0])[1:-1]]
        if set(forms[0]) & LB:
            continue          # a line break in the planted text splits the input line: nothing to demand
        squeeze = lambda x: ' '.join(x.split())     # .bib values are whitespace-normalised by the parser
        if not any(f in whole or (squeeze(f) and squeeze(f) in squeeze(whole)) for f in forms):
            return 'the user-controlled text %r does not appear verbatim in the rendered problems %r' % (forms[0], texts)
    return None

# ---- the pybtex command line on a generated .bst whose format.name$ gets the given format string
def impl_cli_name_format(arg):
    from pybtex.exceptions import PybtexError
    from pybtex.bibtex.names import format_name
    fmt = S(arg).replace('"', '')
    clear_memos()
    try:
        format_name('Donald E. Knuth', fmt)
        direct = [0]
    except PybtexError as e:
        try:
            direct = [1, norm(str(e))]
        except Exception:
            direct = [1, []]
    except Exception:
        direct = [2]
    d = tempfile.mkdtemp(prefix='c16cli')
    cwd = os.getcwd()
    argv = sys.argv
    runs = []
    try:
        _tmpfile(d, 'x.aux', '\\citation{k}\n\\bibdata{x}\n\\bibstyle{x}\n')
        _tmpfile(d, 'x.bib', '@misc{k, author = {Donald E. Knuth}}\n')
        _tmpfile(d, 'x.bst', 'ENTRY {author}{}{}\nFUNCTION {f} { author #1 "%s" format.name$ write$ newline$ }\nREAD\nITERATE {f}\n' % fmt)
        os.chdir(d)
        for extra in ([], ['--strict']):
            clear_memos()
            E, buf = reset_state(1, 0)
            sys.argv = ['pybtex'] + extra + ['x.aux']
            try:
                from pybtex.__main__ import main
                main()
                st = [2]
            except SystemExit as ex:
                st = [0, 0 if ex.code is None else ex.code] if (ex.code is None or isinstance(ex.code, int)) else [2]
            except Exception:
                st = [2]
            runs.append([st, norm(buf.getvalue())])
    finally:
        sys.argv = argv
        os.chdir(cwd)
        shutil.rmtree(d, ignore_errors=True)
        reset_state(1, 0)
    return [direct] + runs

def oracle_cli_name_format(arg, out):
    direct = out[0]
    for k, name in ((1, 'pybtex x.aux'), (2, 'pybtex --strict x.aux')):
        st, text = out[k][0], S(out[k][1])
        if direct[0] == 2:
            continue
        if st[0] != 0:
            return '%s: the command line dies with a foreign exception (traceback) instead of printing an error' % name
        if direct[0] == 1:
            if st[1] == 0:
                return '%s: format.name$ got a bad format string but the exit status is 0' % name
            if 'error' not in text.lower() or S(direct[1]) not in text:
                return '%s: the error %r is not printed: %r' % (name, S(direct[1]), text)
        elif st[1] != 0:
            return '%s: nothing is wrong with the format string but the exit status is %r (%r)' % (name, st[1], text)
    return None

# ---- plug-in selection: by file name (suffix) and by name, for every group, through the API and the
#      three command lines
PLUGIN_GROUPS = ['pybtex.database.input', 'pybtex.database.output', 'pybtex.backends', 'pybtex.style.formatting',
                 'pybtex.style.labels', 'pybtex.style.names', 'pybtex.style.sorting']
PLUGIN_VIAS = ['find_plugin(group, filename=F)', 'find_plugin(group, F)', 'database.parse_file(F)', 'BibliographyData.to_file(F)',
               'format_database(in.bib, F)', 'convert(in.bib, F)', 'convert(F, out.bib)',
               'pybtex-convert in.bib F', 'pybtex-format in.bib F', 'pybtex-convert F out.bib', 'pybtex -f F x.aux', 'pybtex-format -b F in.bib out.txt']

def _run_cli(mainf, argv):
    E, buf = reset_state(1, 0)
    old = sys.argv
    sys.argv = argv
    try:
        mainf()
        st = [2]
    except SystemExit as ex:
        st = [0, 0 if ex.code is None else ex.code] if (ex.code is None or isinstance(ex.code, int)) else [0, 1]
    except Exception as ex:
        st = [2, norm(type(ex).__name__)]
    finally:
        sys.argv = old
    return ['cli', st, norm(buf.getvalue())]

def impl_plugin_select(arg):
    via, gi, name = arg[0], arg[1], S(arg[2])
    from pybtex.exceptions import PybtexError
    from pybtex.errors import format_error
    d = tempfile.mkdtemp(prefix='c16p')
    cwd = os.getcwd()
    try:
        os.chdir(d)
        _tmpfile(d, 'in.bib', '@misc{k, author = {A B}, title = {T}}\n')
        _tmpfile(d, 'x.aux', '\\citation{k}\n\\bibdata{in}\n\\bibstyle{x}\n')
        _tmpfile(d, 'x.bst', 'ENTRY {author}{}{}\nFUNCTION {f} { author write$ newline$ }\nREAD\nITERATE {f}\n')
        rel = name
        if '\x00' in rel or len(rel.encode('utf-8', 'replace')) > 200:
            return [9]
        group = PLUGIN_GROUPS[gi % len(PLUGIN_GROUPS)]
        if via >= 7:
            if via == 7:
                from pybtex.database.convert.__main__ import main as m
                return _run_cli(m, ['pybtex-convert', 'in.bib', rel])
            if via == 8:
                from pybtex.database.format.__main__ import main as m
                return _run_cli(m, ['pybtex-format', 'in.bib', rel])
            if via == 9:
                from pybtex.database.convert.__main__ import main as m
                return _run_cli(m, ['pybtex-convert', rel, 'out.bib'])
            if via == 10:
                from pybtex.__main__ import main as m
                return _run_cli(m, ['pybtex', '-f', rel, 'x.aux'])
            from pybtex.database.format.__main__ import main as m
            return _run_cli(m, ['pybtex-format', '-b', rel, 'in.bib', 'out.txt'])
        def thunk():
            import pybtex.database as D
            from pybtex.plugin import find_plugin
            if via == 0:
                return find_plugin(group, filename=rel)
            if via == 1:
                return find_plugin(group, rel)
            if via == 2:
                return D.parse_file(rel)
            if via == 3:
                return D.parse_file('in.bib').to_file(rel)
            if via == 4:
                from pybtex.database.format import format_database
                return format_database('in.bib', rel)
            from pybtex.database.convert import convert
            return convert('in.bib', rel) if via == 5 else convert(rel, 'out.bib')
        reset_state(1, 0)
        try:
            thunk()
            return ['api', [0]]
        except PybtexError as e:
            return ['api', [1, norm(type(e).__name__), _render_now(e)]]
        except Exception as ex:
            return ['api', [2, norm(type(ex).__name__)]]
    except OSError:
        return [9]
    finally:
        os.chdir(cwd)
        shutil.rmtree(d, ignore_errors=True)
        reset_state(1, 0)

def oracle_plugin_select(arg, out):
    if out == [9]:
        return None
    via, gi, name = arg[0], arg[1], S(arg[2])
    what = '%s with F = %r' % (PLUGIN_VIAS[via], name) + (' in group %s' % PLUGIN_GROUPS[gi % len(PLUGIN_GROUPS)] if via < 2 else '')
    if out[0] == 'cli':
        st, text = out[1], S(out[2])
        if st[0] != 0:
            return '%s: the command line dies with %s (traceback) instead of printing an error' % (what, S(st[1]) if len(st) > 1 else 'an exception')
        if st[1] != 0 and 'error' not in text.lower() and 'usage' not in text.lower():
            return '%s: exit status %r without an error message' % (what, st[1])
        return None
    r = out[1]
    if r[0] == 2:
        return '%s raises %s instead of a pybtex error' % (what, S(r[1]))
    if r[0] == 1:
        if r[2][0] != 0:
            return '%s: the pybtex error cannot be rendered' % what
        text = S(r[2][1])
        if S(r[1]) in ('PluginNotFound', 'PluginGroupNotFound'):
            # the error names what was asked for: the group, and the name / the suffix of the file name
            asked_group = {2: 'pybtex.database.input', 3: 'pybtex.database.output', 4: 'pybtex.backends', 5: 'pybtex.database.output', 6: 'pybtex.database.input'}.get(via, PLUGIN_GROUPS[gi % len(PLUGIN_GROUPS)])
            if asked_group not in text:
                return '%s: the error %r does not name the plug-in group' % (what, text)
            asked = name if via == 1 else os.path.splitext(name)[1]
            if asked and asked not in text:
                return '%s: the error %r does not name %r' % (what, text, asked)
    return None

def oracle_real(out):
    if out == [9]:
        return None
    strict, (printed, code, nfatal), (captured, cfatal, capleft) = out
    if capleft:
        return 'captured_errors is not None after the capture block'
    for r in captured + cfatal + nfatal + strict:
        if r[0] != 0:
            return 'a reported problem cannot be rendered'
    printed = S(printed)
    want = ''.join(S(r[1]) + '\n' for r in captured)
    if printed != want:
        return ('the problems rendered after the run (capture mode) differ from the warnings printed when they were '
                'reported (non-strict mode): %r vs %r' % (want, printed))
    if cfatal != nfatal:
        return 'the fatal error renders differently in capture mode (%r) and non-strict mode (%r)' % (
            [S(r[1]) for r in cfatal], [S(r[1]) for r in nfatal])
    first = captured[:1] or cfatal
    if strict != first:
        return 'strict mode raised %r but the first problem renders as %r after the run' % (
            [S(r[1]) for r in strict], [S(r[1]) for r in first])
    if (code != 0) != bool(captured):
        return '%d problems reported but error_code is %r' % (len(captured), code)
    return None

E_SCH = ('T', 'N', 'S', 'X', 'X', 'X')
COMP_SCH = ('T', ('L', E_SCH), 'X')
FUNCS = {
    1: ('pybtex.errors.format_error', impl_format_error, ('T', E_SCH, 'S')),
    2: ('str(error)', impl_str, E_SCH),
    3: ('error.get_context()', impl_context, E_SCH),
    4: ('errors.set_strict_mode/capture/report_error history', impl_hist, ('T', 'B', 'N', ('L', 'X'))),
    5: ('one computation under capture/non-strict/strict', impl_modes, ('T', 'N', COMP_SCH)),
    6: ('CommandLine.__call__/main', impl_cmdline, ('T', 'B', 'N', 'B', COMP_SCH)),
    7: ('Scanner.required error + format_error', impl_scanner, ('T', 'S', 'S', 'X')),
    8: ('str.splitlines', impl_splitlines, ('T', 'B', 'S')),
    9: ("'{0}'.format(int)", impl_int, 'I'),
    18: ('Scanner.required on a scanner without line numbers (NameFormatParser) + format_error', impl_lineless, ('T', 'S', 'S', 'X')),
    13: ('constructors of the error classes, observed through str/get_context/format_error/lineno/get_filename', impl_construct, 'X'),
    10: ('parse_string(.bib) in strict / non-strict / capture mode: renderings of every problem', impl_real_bib, 'S'),
    11: ('.bst parsed and run in strict / non-strict / capture mode: renderings of every problem', impl_real_bst, 'S'),
    12: ('.aux parsed in strict / non-strict / capture mode: renderings of every problem', impl_real_aux, 'S'),
    20: ('plug-in selection by file name / by name through the API and the pybtex, pybtex-convert, pybtex-format command lines', impl_plugin_select, ('T', 'N', 'N', 'S')),
    19: ('pybtex command line on a generated .bst: format.name$ with the given format string', impl_cli_name_format, 'S'),
    17: ('a problem whose message embeds a given piece of user-controlled text, in the three modes', impl_targeted, ('T', 'N', 'S')),
    14: ('Parser().parse_file(bytes path of a .bib) in the three modes', impl_real_bib_bytes, ('T', 'X', 'S')),
    15: ('bst.parse_file(bytes path) in the three modes', impl_real_bst_bytes, ('T', 'X', 'S')),
    16: ('auxfile.parse_file(bytes path) in the three modes', impl_real_aux_bytes, ('T', 'X', 'S')),
}

def _noout(g):
    return g[:4]

def canon(fn, out):
    """compare only what the property talks about: whether an error renders, which problems went
    where and in which order, the mode cells, the exit status -- never the wording of a message
    (the oracle checks, within the implementation, that renderings contain the message)"""
    if fn in (10, 11, 12, 14, 15, 16, 17, 19, 20):
        return []        # not modelled: the parsers belong to C10/C15/C20; oracle only
    try:
        if fn in (1, 2, 3):
            return out[:1]
        if fn == 4:
            return [_noout(out[0]), out[1], out[2]]
        if fn == 5:
            return [[_noout(x[0])] + x[1:] for x in out]
        if fn == 6:
            return [_noout(out[0]), out[1]]
        if fn in (7, 18):
            if out[0] == 0:
                return out
            return [1, out[1], canon_context_value(out[2]), out[3][:1]]
        if fn == 13:
            return [out[0][:1], canon_context_value(out[1]), out[2][:1], out[3], out[4]]
    except Exception:
        pass
    return out

# ------------------------------------------------------------------------------------------
# oracle: the property itself, in plain Python, on the implementation's outputs
LB = set('\n\r\x0b\x0c\x1c\x1d\x1e\x85  ')

def scanner_lineno(text, pos):
    v = text[:pos]
    return 1 + v.count('\n') + v.count('\r') - v.count('\r\n')

def _f27_open():
    """F27 is open while known_findings.d/C16.json lists it with status "known".  Once it is repaired
    in /repo and the entry is switched to "fixed", no raise site of pybtex builds an error with a
    non-text file name any more: such records become out-of-domain input (still compared with the
    model, no demand by the oracle); the real .bst input stays in the real-input streams as a
    regression test."""
    try:
        d = json.load(open(os.path.join(VERIF, 'known_findings.d', 'C16.json')))
        return any(f.get('id') == 'F27' and f.get('status') == 'known' for f in d.get('findings', []))
    except Exception:
        return False
F27_OPEN = _f27_open()

def wellformed(rec):
    """is this record the state of an error pybtex itself can construct from user input?"""
    eid, msg, fn, kind, ctx = rec
    if fn == [1]:
        return F27_OPEN   # an int as file name is what builtins.py:214 passes (finding F27)
    if ctx[0] == 1:
        text, ln, pos = S(ctx[1]), unopt(ctx[2]), ctx[3]
        if ln is None:
            return True      # a scanner without line numbers (NameFormatParser): no context line, must render
        # a TokenRequired is raised in front of a character, after whitespace was skipped
        return ln is not None and 0 <= pos < len(text) and ln == scanner_lineno(text, pos) \
            and not (text[pos - 1:pos] == '\r' and text[pos:pos + 1] == '\n')
    if ctx[0] == 2:
        text, st, pos = S(ctx[1]), unopt(ctx[2]), ctx[3]
        return st is not None and 0 <= st < pos <= len(text)
    return True

def construct_ok(arg):
    """the premises of theorem format_error_total_by_class (scan_state_ok / bib_state_ok), in Python"""
    tag = arg[0]
    if tag == 3:
        text, _, ln, pos = arg[2]
        text = S(text)
        return 0 <= pos < len(text) and text[pos] not in LB and 1 <= ln <= scanner_lineno(text, pos)
    if tag == 4:
        text, _, ln, pos = arg[2]
        st = unopt(arg[3])
        return st is not None and 0 <= st < pos <= len(text)
    return True

def subseq_in_order(parts, text, word='warning'):
    """every part occurs, in order, each preceded (since the previous one) by the word"""
    p = 0
    for s in parts:
        k = text.find(s, p)
        if k < 0:
            return False
        if word not in text[p:k].lower():
            return False
        p = k + len(s)
    return True

def oracle_hist(arg, out):
    strict0, code0, ops = arg
    (strict, code, cap, heap, text), depth, events = out
    text = S(text)
    # replay the history against the property, following the implementation where the text is silent
    cur_strict = bool(strict0)
    blocks = []       # open blocks: list index, or None once an inner exit switched the capture off
    nlists = 0
    ev = list(events)
    printed = 0
    expect_heap = []
    def take():
        return ev.pop(0) if ev else None
    for op in ops:
        if op[0] == 0:
            cur_strict = bool(op[1])
        elif op[0] == 1:
            e = take()
            if e != [0, nlists]:
                return 'entering capture() did not yield a fresh list (event %r)' % (e,)
            blocks = [None] * len(blocks) + [nlists]
            expect_heap.append([])
            nlists += 1
        elif op[0] == 2:
            if blocks:
                blocks.pop()
                blocks = [None] * len(blocks)
        elif op[0] == 3:
            if take() != [5]:
                return 'event log out of step'
            if blocks:
                blocks.pop()
                blocks = [None] * len(blocks)
        elif op[0] == 4:
            if take() != [5]:
                return 'event log out of step'
            blocks = []
        else:
            eid = op[1][0]
            e = take()
            if e is None or e[-1] != eid:
                return 'problem %d was not reported in order (event %r)' % (eid, e)
            if e[0] == 6:
                return 'problem %d was lost: neither collected, raised nor printed' % eid
            if e[0] == 4:
                if op[1][2] == [1] and not F27_OPEN:
                    blocks = []      # out-of-domain record (non-text file name): the renderer's exception left every block
                    continue
                return 'reporting problem %d raised a foreign exception' % eid
            if blocks and blocks[-1] is not None:
                if e[:2] != [1, blocks[-1]]:
                    return 'in capture mode problem %d was not collected in the active list (event %r)' % (eid, e)
            elif not blocks:
                if cur_strict and e[0] != 2:
                    return 'strict mode, no capture: problem %d was not raised (event %r)' % (eid, e)
                if not cur_strict and e[0] != 3:
                    return 'non-strict mode, no capture: problem %d was not printed (event %r)' % (eid, e)
            if e[0] == 1:
                expect_heap[e[1]].append(eid)
            elif e[0] == 2:
                blocks = []         # the exception left every open block
            elif e[0] == 3:
                printed += 1
    if ev:
        return 'unexpected extra events %r' % (ev,)
    if heap != expect_heap:
        return 'collected lists %r differ from the problems reported in capture mode %r' % (heap, expect_heap)
    if not blocks and cap != []:
        return 'all capture blocks were left but captured_errors is not None'
    if bool(strict) != cur_strict:
        return 'strict flag %r is not the one last set (%r): capture changed it' % (strict, cur_strict)
    if printed and code == 0:
        return 'a warning was printed but error_code stayed 0'
    if printed and text.lower().count('warning') < printed:
        return '%d problems printed but fewer warnings on stderr' % printed
    return None

def comp_parts(comp):
    errs, ending = comp
    return [r[0] for r in errs], (ending[1][0] if ending[0] == 1 else None), ending[0] == 2

def oracle_modes(arg, out):
    code0, comp = arg
    ids, fatal, foreign = comp_parts(comp)
    end = [1, fatal] if fatal is not None else ([2] if foreign else [0])
    strs = [str_of(r) for r in comp[0]]
    for k, name in ((0, 'strict'), (1, 'non-strict')):
        (g, oc, lst) = out[k]
        if lst != ids:
            return 'capture (%s flag): collected %r, reported %r' % (name, lst, ids)
        if oc != end:
            return 'capture (%s flag): body ended %r, block ended %r' % (name, end, oc)
        if g[2] != []:
            return 'capture (%s flag): captured_errors not None after the block' % name
        if g[0] != (1 if k == 0 else 0):
            return 'capture changed the strict flag'
    g, oc = out[2]
    text = S(g[4])
    if oc != end:
        return 'non-strict: body ended %r, run ended %r' % (end, oc)
    if not subseq_in_order(strs, text):
        return 'non-strict: the problems %r are not printed as warnings in order: %r' % (strs, text)
    if text.lower().count('warning') < len(ids):
        return 'non-strict: fewer warnings than problems'
    if ids and g[1] == 0:
        return 'non-strict: problems reported but error_code is 0'
    g, oc = out[3]
    want = [1, ids[0]] if ids else end
    if oc != want:
        return 'strict: expected %r, got %r' % (want, oc)
    return None

def oracle_cmdline(arg, out):
    strict0, code0, strict_opt, comp = arg
    ids, fatal, foreign = comp_parts(comp)
    g, st = out
    text = S(g[4])
    strs = [str_of(r) for r in comp[0]]
    if strict_opt:
        problem = ids[:1] or ([fatal] if fatal is not None else [])
        if ids or fatal is not None:
            if st[0] != 0 or st[1] == 0:
                return '--strict: a problem but exit status %r' % (st,)
            first = strs[0] if ids else str_of(comp[1][1])
            if not subseq_in_order([first], text, 'error'):
                return '--strict: the first problem is not printed as an error: %r' % text
        elif not foreign and st != [0, code0]:
            return 'no problem but exit status %r' % (st,)
        return None
    if not subseq_in_order(strs, text):
        return 'problems not printed as warnings in order: %r' % text
    if foreign:
        return None if st == [2] else 'foreign exception swallowed'
    if st[0] != 0:
        return 'the command line crashed'
    if (ids or fatal is not None) and st[1] == 0:
        return 'problems were reported but the exit status is 0'
    if not ids and fatal is None and st[1] != code0:
        return 'no problem but exit status changed to %r' % st[1]
    if fatal is not None and not subseq_in_order(strs + [str_of(comp[1][1])], text, ''):
        return 'fatal error not printed: %r' % text
    return None

def oracle(fn, arg, out):
    if fn == 20:
        return oracle_plugin_select(arg, out)
    if fn == 19:
        return oracle_cli_name_format(arg, out)
    if fn == 17:
        return oracle_targeted(arg, out)
    if fn in (10, 11, 12, 14, 15, 16):
        return oracle_real(out)
    if fn == 1:
        rec, prefix = arg
        if not wellformed(rec):
            return None
        if out[0] != 0:
            return 'format_error raised instead of returning text'
        text = S(out[1])
        msg = S(rec[1])
        if S(prefix) + str_of(rec) not in text or msg not in text:
            return 'the message is not part of the rendering %r' % text
        c = impl_context(rec)
        if c[0] == 0 and c[1] and c[1][0]:
            # the source context is part of the rendering, line by line, before the message
            if not subseq_in_order(S(c[1][0]).splitlines() + [S(prefix) + str_of(rec)], text, ''):
                return 'the source context %r is not part of the rendering %r' % (S(c[1][0]), text)
        fnm = fn_text(rec[2])
        if rec[2][:1] == [2] and rec[2][1]:
            # a bytes name: the property does not fix how undecodable bytes are shown; demand only that
            # every line carries one and the same non-empty name
            head = text.split('\n')[0]
            fnm = head[:head.find(': ')] if head.find(': ') > 0 else ('\x00missing' if fnm else '')
        if fnm and not (set(text) & LB - {'\n'}):
            # every line carries the file name
            if set(msg) & LB or set(fnm) & LB or set(S(prefix)) & LB:
                lines = text.split('\n')[:1]
            else:
                lines = text.split('\n')
            for l in lines:
                if not l.startswith(fnm + ': '):
                    return 'line %r lacks the file name prefix' % l
        return None
    if fn == 2:
        if out[0] != 0:
            return 'str(error) raised'
        return None if S(arg[1]) in S(out[1]) else 'str(error) does not contain the message'
    if fn == 3:
        if not wellformed(arg):
            return None
        return None if out[0] == 0 else 'get_context() raised'
    if fn == 4:
        return oracle_hist(arg, out)
    if fn == 5:
        return oracle_modes(arg, out)
    if fn == 6:
        return oracle_cmdline(arg, out)
    if fn == 13:
        if arg[0] == 0 and arg[2] == [1]:
            return 'format_error raised instead of returning text' if (out[2][0] != 0 and F27_OPEN) else None
        if not construct_ok(arg):
            return None
        if out[0][0] != 0 or out[1][0] != 0 or out[2][0] != 0 or out[4][0] != 0:
            return 'an error built by its constructor from a state its raise sites guarantee cannot be rendered'
        text = S(out[2][1])
        if S(out[0][1]) not in text:
            return 'the rendering lacks str(error)'
        given = {0: [1], 1: [2], 3: [1], 4: [1], 5: [1], 6: [1], 7: [2]}.get(arg[0], [])
        for k in given:
            if S(arg[k]) not in S(out[0][1]):
                return 'the text %r given to the constructor does not appear verbatim in str(error) = %r' % (S(arg[k]), S(out[0][1]))
        fnw = arg[2] if arg[0] == 0 else (arg[2][0] if arg[0] == 5 else (arg[3] if arg[0] in (6, 7) else arg[{1: 3, 2: 1, 3: 2, 4: 2}[arg[0]]][1]))
        if fnw[:1] == [0] and fnw[1] and S(fnw[1]) + ': ' not in text:
            return 'the file name %r does not appear verbatim in the rendering %r' % (S(fnw[1]), text)
        if out[1][1] and out[1][1][0] and not subseq_in_order(S(out[1][1][0]).splitlines(), text, ''):
            return 'the rendering lacks the source context'
        return None
    if fn in (7, 18):
        if out[0] == 0:
            return None
        r = out[3]
        if r[0] != 0 or out[2][0] != 0:
            return 'the error raised by the scanner cannot be rendered'
        if out[2][1] and out[2][1][0] and not subseq_in_order(S(out[2][1][0]).splitlines(), S(r[1]), ''):
            return 'rendering lacks the source context'
        return None
    return None

# ------------------------------------------------------------------------------------------
# generators
# text that is a directive for str.format / % / a backslash escape somewhere: every message in pybtex embeds
# user input, so all of it must be inert
HOSTILE = ['{', '}', '{0}', '{x}', 'a{}b', 'Baz{0}', '%s', '%d', '%(a)s', '\\', '{0', '}{', '{!r}', '{0.__class__}', '%', '{{}}', 'é{0}%s\\']
MSGS = ['m', 'bad thing', 'a\nb', '', 'x: y', 'é∑', 'tab\there', 'cr\rlf'] + HOSTILE
FNAMES = [[], [0, ''], [0, 'f.bib'], [0, 'dir/a b.bst'], [0, 'é.aux'],
          [2, list(b'plain.bib')], [2, list(b'caf\xe9.bib')], [2, list('d/é.aux'.encode('utf-8'))], [2, []], [2, [0xe2, 0x82]],
          [0, 'a{0}%s{x}.bib'], [0, '{'], [2, list(b'%(a)s{0}\xe9}.aux')]]
LINENOS = [[], [0], [1], [2], [7], [12345], [-3]]
ETYPES = ['syntax error', 'undefined string', 'weird type', 't{0}%s{x}']

def rnd_text(rng, n, alpha):
    return ''.join(rng.choice(alpha) for _ in range(n))

def gen_err(rng, eid, msg=None):
    k = rng.randrange(6)
    msg = rng.choice(MSGS) if msg is None else msg
    fn = rng.choice(FNAMES)
    if k == 0:
        return [eid, msg, fn, [0], [0]]
    if k == 1:
        return [eid, msg, fn, [1, rng.choice(ETYPES), rng.choice(LINENOS)], [0]]
    if k in (2, 3):
        text = rnd_text(rng, rng.randint(1, 30), 'ab  \n\n\r@{},=\x0c ')
        pos = rng.randrange(len(text))
        while text[pos - 1:pos] == '\r' and text[pos:pos + 1] == '\n':
            pos = rng.randrange(len(text))      # no scanner stops between \r and \n
        if k == 2:
            ln = scanner_lineno(text, pos)
            return [eid, msg + ' expected', fn, [1, 'syntax error', [ln]], [1, text, [ln], pos]]
        st = rng.randint(0, pos)
        ln = scanner_lineno(text, pos)
        return [eid, msg + ' expected', fn, [1, 'syntax error', [ln]], [2, text, [st], min(len(text), pos + 1)]]
    line = rng.choice([[], [''], ['\\bibdata{x}'], ['\\citation{a,B}'], ['l m']])
    return [eid, msg, fn, [2, rng.choice(LINENOS)], [3, line]]

def gen_comp(rng, maxn=4, distinct=True):
    n = rng.randint(0, maxn)
    errs = [gen_err(rng, i + 1, msg=('p%d %s' % (i + 1, rng.choice(MSGS))) if distinct else None) for i in range(n)]
    e = rng.randrange(4)
    ending = [0] if e < 2 else ([1, gen_err(rng, 50, msg='fatal ' + rng.choice(MSGS))] if e == 2 else [2])
    return [errs, ending]

def simple_err(eid, variant=0):
    if variant == 0:
        return [eid, 'p%d' % eid, [], [0], [0]]
    if variant == 1:
        return [eid, 'p%d' % eid, [0, 'f.aux'], [2, [3]], [3, ['\\bibstyle{x}']]]
    return [eid, "'x' expected", [0, 'f.bst'], [1, 'syntax error', [2]], [1, 'a\nb c', [2], 3]]

def gen_real(quick, rng):
    """real user input first, so that a defect shows up with a real input among the first reported"""
    # ---- real user input, corrupted, with several commands after the bad one
    NR = 400 if quick else 6000
    bib_toks = ['@', '{', '}', '"', ',', '=', '#', '(', ')', '\n', ' ', 'key1', '\r\n', '\x0c', 'undefinedmacro']
    tail = '@misc{t1, note = {fine}}\n\n@misc{t2,\n  note = "also fine"\n}\n@comment{x}\n@misc{t3, note = 3}\n'
    for t in ['@article{k, a = }\n' + tail, '@article{k, a = "x" # }\n' + tail, '@a{k,\n\n a = {x}\n b = {y}}\n' + tail,
              '@article{k, a = b}\n@article{k, a = {x}, A = {y}}\n' + tail, '@a{k, a = {x}\n\n' + tail, BIB + '@article\n' + tail,
              '@a{k, author = {A, B, C, D}}\n@a{k, x = }' + tail]:
        yield ('real_bib', 10, t)
    for i in range(NR):
        t = BIB
        for _ in range(rng.randint(1, 3)):
            t = corrupt(rng, t, bib_toks)
        yield ('real_bib', 10, t + rng.choice([tail, tail, '', '\n@misc{z, k = 1}\n']))
    bst_tail = 'FUNCTION {g} { "w1" warning$ "w2" warning$ }\nEXECUTE {g}\nEXECUTE {g}\n'
    for t in ['FUNCTION {f} { "w" warning$ #1 "a" * }\nEXECUTE {f}\n' + bst_tail, bst_tail + 'FUNCTION {f\n\n', bst_tail + 'foo {x}\n' + bst_tail,
              bst_tail + 'FUNCTION {h} { #-1 int.to.chr$ }\nEXECUTE {h}\n']:
        yield ('real_bst', 11, t)
    for i in range(NR // 2):
        t = BST + bst_tail
        for _ in range(rng.randint(1, 2)):
            t = corrupt(rng, t, ['{', '}', '"', '#', "'", ' ', '\n', 'f', 'pop$', 'EXECUTE', '%', ':=', 'warning$'])
        yield ('real_bst', 11, t)
    aux_tail = '\\citation{d}\n\\citation{D}\n\\bibstyle{again}\n\\relax\n\\bibdata{again}\n\\citation{e}\n'
    for t in [AUX + aux_tail, aux_tail, '\\citation{a,A,a}\n' + AUX + aux_tail, '\\bibstyle{s}\n' + aux_tail]:
        yield ('real_aux', 12, t)
    for i in range(NR // 2):
        t = AUX + aux_tail
        for _ in range(rng.randint(1, 2)):
            t = corrupt(rng, t, ['\\', '{', '}', '\n', 'citation', 'bibstyle', 'bibdata', 'A', ',', '\r\n'])
        yield ('real_aux', 12, t)
    # ---- every user-controlled part of every kind of problem, with text that is a format directive somewhere
    TOKS = HOSTILE + ['', 'plain', 'é€', 'a b', 'x\ny', "it's", '{0}{1}{2}', '%%', '${a}', '\\n{0}']
    for k in range(len(TARGETS)):
        for tok in TOKS:
            yield ('targeted_hostile', 17, [k, tok])
    for i in range(NR // 2):
        tok = ''.join(rng.choice(HOSTILE + ['a', 'B', '0', ' ', 'é', '.', '-']) for _ in range(rng.randint(1, 4)))
        yield ('targeted_hostile', 17, [rng.randrange(len(TARGETS)), tok])
    # ---- name-format strings: every way the (line-less) name-format scanner fails, through format_name
    #      (targets above), a .bst run and the command line
    FMTS = ['{ff_}{ll}', '{ff', '{ff}}', '}', '{', '{ff xx}', '{abc}', '{ff}{ff1}x', '{f{', '{_}', '{ll}{, jj_}', '{ff}{qq}', '{ff{a}{b}_}',
            '{ff~}{vv~}{ll}{, jj}', '{f.~}{ll}', 'plain text', '', '{ff}{ff}', '{1f}', '{f1}', '{ff}{}', '{é}', '{ff%s}', '{ll{0}}', '{{x}_}']
    for f_ in FMTS:
        yield ('cli_name_format', 19, f_)
        yield ('real_bst', 11, 'FUNCTION {f} { "w" warning$ "Donald E. Knuth" #1 "%s" format.name$ write$ }\nEXECUTE {f}\n' % f_)
    for i in range(20 if quick else 300):
        f_ = ''.join(rng.choice(['{', '}', 'f', 'l', 'v', 'j', 'ff', 'll', '_', ',', ' ', '~', '.', '1', 'a', 'é', '{ff}', '{ll}']) for _ in range(rng.randint(1, 7)))
        yield ('cli_name_format', 19, f_)
        yield ('real_bst', 11, 'FUNCTION {f} { "Donald E. Knuth" #1 "%s" format.name$ write$ }\nEXECUTE {f}\n' % f_)
    # ---- plug-in selection by file name: no extension, trailing dot, dot-file, empty name, unknown and known
    #      extensions, directory with a dot -- for every group and through the three command lines
    PF = ['refs', 'refs.', '.bib', '', 'a.b/refs', 'refs.nosuch', 'refs.BIB', 'out.bib', 'out.yaml', 'out.html', 'out.tex', 'out.txt',
          'r{0}.%s', 'é', '..', 'a..', '.', 'noext{0}', 'x.bibtex', 'plain', 'nosuch', 'unsrt']
    for name in PF:
        for gi in range(len(PLUGIN_GROUPS)):
            yield ('plugin_select', 20, [0, gi, name])
            yield ('plugin_select', 20, [1, gi, name])
        for via in range(2, len(PLUGIN_VIAS)):
            yield ('plugin_select', 20, [via, 0, name])
    # ---- hostile text inside the corrupted real inputs as well
    for i in range(NR // 2):
        t = BIB + tail
        for _ in range(rng.randint(1, 3)):
            t = corrupt(rng, t, HOSTILE + ['@', ',', '=', '#', '"'])
        yield ('real_bib', 10, t)
        t = AUX + aux_tail
        for _ in range(rng.randint(1, 3)):
            t = corrupt(rng, t, HOSTILE + ['\\citation{Q', 'A', ','])
        yield ('real_aux', 12, t)
    # ---- the same through files given as BYTES paths, incl. names that are not valid UTF-8
    BN = [b'caf\xe9.bib', b'plain.bib', 'é€.bib'.encode('utf-8'), b'\xff\xfe', b'a\xe2\x82.x', b'\xf0\x9f\x98.aux']
    k = 0
    for t in ['@article{k, a = }\n' + tail, '@a{k, a = {x}, A = {y}}\n@a{k, b = c}\n' + tail, '@a{k,\n\n a = {x}\n b = {y}}\n' + tail]:
        for nm in BN:
            yield ('real_bytes_path', 14, [list(nm), t])
    for t in [bst_tail + 'foo {x}\n', 'FUNCTION {f\n\n', 'FUNCTION {f} { "x }\n']:
        for nm in BN:
            yield ('real_bytes_path', 15, [list(nm), t])
    for t in [AUX + aux_tail, aux_tail, '\\citation{a}\n']:
        for nm in BN:
            yield ('real_bytes_path', 16, [list(nm), t])
    for i in range(NR // 8):
        nm = bytes(rng.choice([0x41, 0x2E, 0x80, 0xC3, 0xA9, 0xE9, 0xFF, 0xE2, 0x82, 0xAC, 0xF0]) for _ in range(rng.randint(1, 8)))
        t = BIB
        for _ in range(rng.randint(1, 2)):
            t = corrupt(rng, t, bib_toks)
        yield ('real_bytes_path', 14, [list(nm), t + tail])
        t = AUX + aux_tail
        t = corrupt(rng, t, ['\\', '{', '}', '\n', 'citation', 'bibstyle', 'bibdata', 'A', ','])
        yield ('real_bytes_path', 16, [list(nm), t])

def gen(tier, rng):
    quick = tier == 'quick'
    # ---- pinned: F6 (AuxDataError rendering), F22 (line kept), F27 (int as file name), F20 histories
    yield ('pinned', 1, [[1, 'illegal, another \\bibstyle command', [0, 'x.aux'], [2, [3]], [3, ['\\bibstyle{b}']]], 'ERROR: '])
    yield ('pinned', 1, [[1, '%i passed to int.to.chr$', [1], [0], [0]], 'ERROR: '])
    yield ('pinned', 4, [1, 0, [[1], [1], [2], [5, simple_err(1)], [2], [5, simple_err(2)]]])
    yield ('pinned', 4, [0, 0, [[1], [1], [5, simple_err(1)], [3], [5, simple_err(2)], [2], [5, simple_err(3)]]])
    yield ('pinned', 5, [0, [[simple_err(1, 1), simple_err(2, 2), simple_err(3)], [1, simple_err(9)]]])
    # F32 (fixed 3f5a30c): a plug-in asked for by a name with a leading period must be a PluginNotFound
    yield ('pinned', 20, [1, 0, '.bib'])
    yield ('pinned', 20, [10, 0, '.bib'])
    yield ('pinned', 20, [11, 0, '.'])
    # F27 inside a history: in non-strict mode the renderer's exception escapes from report_error
    yield ('pinned', 4, [0, 0, [[1], [5, simple_err(1)], [2], [5, [2, '%i passed to int.to.chr$', [1], [0], [0]]], [5, simple_err(3)]]])
    for c in gen_real(quick, rng):
        yield c
    # ---- exhaustive: splitlines
    alpha = ['a', '\n', '\r', '\x0b', ' ']
    for n in range(0, (5 if quick else 7) + 1):
        for t in itertools.product(alpha, repeat=n):
            s = ''.join(t)
            yield ('exh_splitlines', 8, [1, s])
            if n <= 4:
                yield ('exh_splitlines', 8, [0, s])
    for z in list(range(-12, 120)) + [999, 1000, 1001, 12345, 99999, 100000, 2 ** 31, 2 ** 40 + 1, -2 ** 40]:
        yield ('exh_int', 9, z)
    # ---- exhaustive: Scanner context, all texts over {a, \n, \r, space} up to len 4 x pos x lineno
    for n in range(0, (4 if quick else 5) + 1):
        for t in itertools.product('a\n\r ', repeat=n):
            text = ''.join(t)
            for pos in range(0, n + 1):
                for ln in ([], [0], [1], [2], [3], [-1]):
                    rec = [1, "'x' expected", [0, 'f'], [1, 'syntax error', ln], [1, text, ln, pos]]
                    yield ('exh_scan_ctx', 3, rec)
                    if ln == [scanner_lineno(text, pos)] or (pos + len(text)) % 5 == 0:
                        yield ('exh_scan_ctx', 1, [rec, 'ERROR: '])
    # ---- exhaustive: LowLevelParser context
    for n in range(0, (4 if quick else 5) + 1):
        for t in itertools.product('@a\n\r', repeat=n):
            text = ''.join(t)
            for pos in range(0, n + 1):
                for st in ([], [0], [1], [2]):
                    rec = [1, "'=' expected", [], [1, 'syntax error', [1]], [2, text, st, pos]]
                    yield ('exh_bib_ctx', 3, rec)
                    if (pos + n + len(st)) % 3 == 0:
                        yield ('exh_bib_ctx', 1, [rec, 'ERROR: '])
    # ---- exhaustive: rendering of the other classes over the attribute tables
    eid = 0
    # (quick: a sample of the hostile messages and file names here; all of them are in the constructor
    #  stream, the random records and the targeted problems)
    msgs_x = MSGS if not quick else MSGS[:8] + ['{', '{0}', 'Baz{0}', '%s', 'é{0}%s\\']
    fns_x = (FNAMES if not quick else FNAMES[:3] + FNAMES[5:7] + FNAMES[10:]) + [[1]]
    for msg in msgs_x:
        for fn in fns_x:
            for pre in ('ERROR: ', 'WARNING: ', ''):
                eid += 1
                yield ('exh_render', 1, [[eid, msg, fn, [0], [0]], pre])
            for ln in LINENOS:
                for et in ETYPES:
                    eid += 1
                    rec = [eid, msg, fn, [1, et, ln], [0]]
                    yield ('exh_render', 2, rec)
                    if fn != [1]:
                        yield ('exh_render', 1, [rec, 'ERROR: '])
                for line in ([], [''], ['\\bibdata{x}'], ['a\x0cb'], [' '], ['\\citation{B{0}%s}']):
                    eid += 1
                    rec = [eid, msg, fn, [2, ln], [3, line]]
                    yield ('exh_render', 2, rec)
                    yield ('exh_render', 3, rec)
                    if fn != [1]:
                        yield ('exh_render', 1, [rec, 'WARNING: '])
    # ---- exhaustive: histories
    OPS = [[0, 1], [0, 0], [1], [2], [3], [4], 'R']
    maxh = 5 if quick else 6
    for n in range(0, maxh + 1):
        for t in itertools.product(OPS, repeat=n):
            k = 0
            ops = []
            for o in t:
                if o == 'R':
                    k += 1
                    ops.append([5, simple_err(k, (k + n) % 3)])
                else:
                    ops.append(o)
            if n == maxh and k == 0:
                continue
            for strict0 in (1, 0):
                yield ('exh_hist', 4, [strict0, 0, ops])
    # ---- exhaustive-ish: computations: up to 3 reports of 3 shapes x 3 endings
    for n in range(0, 4):
        for shapes in itertools.product(range(3), repeat=n):
            errs = [simple_err(i + 1, v) for i, v in enumerate(shapes)]
            for ending in ([0], [1, simple_err(9, 1)], [1, simple_err(9, 2)], [2]):
                yield ('exh_comp', 5, [0, [errs, ending]])
                for so in (0, 1):
                    yield ('exh_comp', 6, [1, 0, so, [errs, ending]])
    # ---- exhaustive: scanner
    for n in range(0, (5 if quick else 6) + 1):
        for t in itertools.product(' \n\rxy\x0c', repeat=n):
            text = ''.join(t)
            yield ('exh_scanner', 7, [text, 'x', [0, 'f.bst']])
            if n <= 4:
                yield ('exh_lineless', 18, [text, 'x', [[], [0, 'f'], [2, list(b'\xe9')]][n % 3]])
                yield ('exh_lineless', 18, [text, '', []])
            if n <= 4:
                yield ('exh_scanner', 7, [text, 'xy', []])
    # ---- random
    N = 1500 if quick else 30000
    for i in range(N):
        e = gen_err(rng, i)
        yield ('rnd_render', 1, [e, rng.choice(['ERROR: ', 'WARNING: ', '', 'x\ny'])])
        yield ('rnd_render', 2, e)
        yield ('rnd_render', 3, e)
    for i in range(N):
        ops = []
        k = 0
        for _ in range(rng.randint(1, 14)):
            r = rng.random()
            if r < 0.4:
                k += 1
                ops.append([5, gen_err(rng, k)])
            elif r < 0.6:
                ops.append([1])
            elif r < 0.78:
                ops.append([2])
            elif r < 0.86:
                ops.append([0, rng.randrange(2)])
            elif r < 0.93:
                ops.append([3])
            else:
                ops.append([4])
        yield ('rnd_hist', 4, [rng.randrange(2), rng.choice([0, 0, 2, 5]), ops])
    for i in range(N):
        c = gen_comp(rng)
        yield ('rnd_comp', 5, [rng.choice([0, 0, 2]), c])
        yield ('rnd_comp', 6, [rng.randrange(2), rng.choice([0, 0, 0, 2]), rng.randrange(2), c])
    for i in range(N):
        text = rnd_text(rng, rng.randint(0, 3), ' \n\r\t\x0c\x85 　') + rnd_text(rng, rng.randint(0, 12), 'xy \n\r\x0b{}')
        yield ('rnd_scanner', 7, [text, rng.choice(['x', 'xy', '{', '']), rng.choice(FNAMES)])
    # ---- constructors of the classes: exhaustive small scanner states + random
    fns = [[], [0, 'f.bib'], [0, ''], [2, list(b'caf\xe9.bst')], [2, list('é'.encode('utf-8'))], [0, 'a{0}%s}.bst'], [0, '{x}']]
    descs = ["'x'", 'a name'] + HOSTILE
    for n in range(0, (3 if quick else 4) + 1):
        for t in itertools.product('a\n\r\x0c', repeat=n):
            text = ''.join(t)
            for pos in range(0, n + 1):
                for ln in (1, 2, 3):
                    sc = [text, fns[(n + pos + ln) % len(fns)], ln, pos]
                    yield ('exh_construct', 13, [3, descs[(n * 7 + pos * 3 + ln) % len(descs)], sc])
                    yield ('exh_construct', 13, [4, descs[(n * 5 + pos + ln * 3) % len(descs)], sc, [[], [0], [1]][(pos + ln) % 3]])
                    if pos == 0:
                        yield ('exh_construct', 13, [2, sc])
                        yield ('exh_construct', 13, [1, ETYPES[ln - 1], MSGS[n % len(MSGS)], sc])
    UB = [0x41, 0x80, 0xBF, 0xC0, 0xC2, 0xE0, 0xA0, 0x9F, 0xED, 0xE1, 0xF0, 0x90, 0x8F, 0xF4, 0xFF]
    for n in range(0, (3 if quick else 4) + 1):
        for t in itertools.product(UB, repeat=n):
            yield ('exh_bytes_filename', 13, [0, 'm', [2, list(t)]])
    for i in range(N):
        b = bytes(rng.choice(UB + [0x2F, 0x2E, 0x7A, 0xC3, 0xA9, 0xF1, 0xF5, 0xEF, 0xBB]) for _ in range(rng.randint(1, 12)))
        if rng.random() < 0.4:
            b = rnd_text(rng, rng.randint(1, 6), 'aé€𝄞/.').encode('utf-8') + b[:rng.randint(0, 3)]
        k = rng.randrange(3)
        yield ('rnd_bytes_filename', 13, [[0, 'm', [2, list(b)]], [5, 'm', [[2, list(b)], [3], ['\\bibdata{x}']]], [1, 'syntax error', 'm', ['ab', [2, list(b)], 1, 0]]][k])
    for msg in MSGS:
        for fn_ in FNAMES + [[1]]:
            yield ('exh_construct', 13, [0, msg, fn_])
            if fn_ != [1]:
                yield ('exh_construct', 13, [7, ETYPES[len(msg) % len(ETYPES)], msg, fn_])
                for pos in (0, 3):
                    yield ('exh_construct', 13, [6, msg, 'a\n{ff_}\r\nb', fn_, pos])
        for f_ in fns:
            for ln in LINENOS:
                for line in ([], [''], ['\\bibdata{x}'], ['\\citation{Baz{0}%s}']):
                    yield ('exh_construct', 13, [5, msg, [f_, ln, line]])
    for i in range(N // 2):
        text = rnd_text(rng, rng.randint(1, 25), 'ab  \n\n\r@{},=\x0c\x85')
        pos = rng.randrange(len(text) + 1)
        ln = rng.choice([scanner_lineno(text, pos), scanner_lineno(text, pos), 1, rng.randint(1, 4)])
        sc = [text, rng.choice(fns), ln, pos]
        yield ('rnd_construct', 13, [3, rng.choice(MSGS), sc])
        yield ('rnd_construct', 13, [4, rng.choice(MSGS), sc, rng.choice([[], [0], [max(0, pos - 1)], [pos], [rng.randint(0, len(text))]])])
    # ---- malformed: inconsistent scanner states, negative positions
    for i in range(N // 3):
        text = rnd_text(rng, rng.randint(0, 12), 'ab \n\r\x0c')
        ln = rng.choice([[], [0], [-1], [-2], [1], [2], [3], [9]])
        pos = rng.randint(0, len(text) + 2)
        rec = [i, "'x' expected", rng.choice(FNAMES), [1, 'syntax error', ln], [1, text, ln, pos]]
        yield ('malformed', 3, rec)
        yield ('malformed', 1, [rec, 'ERROR: '])
        st = rng.choice([[], [0], [1], [pos], [len(text)], [-1], [-3]])
        rec = [i, "'x' expected", rng.choice(FNAMES), [1, 'syntax error', [1]], [2, text, st, pos]]
        yield ('malformed', 3, rec)
        yield ('malformed', 1, [rec, 'ERROR: '])

def nontrivial(fn, arg, out):
    if fn == 1:
        return out[0] == 0 and 10 in out[1]
    if fn == 3:
        return out[0] == 0 and out[1] != []
    if fn == 4:
        return len(out[2]) >= 2
    if fn in (5, 6):
        return len(arg[-1][0]) >= 1
    if fn in (7, 18):
        return out[0] == 1
    if fn == 8:
        return len(out) >= 2
    if fn in (10, 11, 12, 14, 15, 16, 17, 19, 20):
        return True
    return True

def describe_err(r):
    return {'id': r[0], 'message': S(r[1]), 'filename': (repr(fn_value(r[2])) if r[2] != [1] else '<int 5>'),
            'kind': [r[3][0]] + [S(x) if isinstance(x, list) and x and k == 1 and r[3][0] == 1 else x for k, x in enumerate(r[3][1:], 1)],
            'context': [r[4][0]] + [S(x) if k == 1 and r[4][0] in (1, 2) else x for k, x in enumerate(r[4][1:], 1)]}

def describe(fn, arg):
    if fn == 1:
        return {'error': describe_err(arg[0]), 'prefix': S(arg[1])}
    if fn in (2, 3):
        return {'error': describe_err(arg)}
    if fn == 4:
        names = {0: 'set_strict_mode', 1: 'enter capture()', 2: 'exit', 3: 'raise in innermost block (caught outside it)', 4: 'raise (caught at top level)', 5: 'report_error'}
        return {'strict0': arg[0], 'error_code0': arg[1], 'ops': [[names[o[0]]] + ([o[1]] if o[0] == 0 else [describe_err(o[1])] if o[0] == 5 else []) for o in arg[2]]}
    if fn in (5, 6):
        c = arg[-1]
        return {'args': arg[:-1], 'reports': [describe_err(e) for e in c[0]], 'ending': ['return', 'raise pybtex error', 'raise foreign exception'][c[1][0]]}
    if fn in (7, 18):
        return {'text': S(arg[0]), 'required literal': S(arg[1]), 'filename': arg[2], 'scanner': 'Scanner' if fn == 7 else 'NameFormatParser (no line numbers)'}
    if fn == 8:
        return {'keepends': arg[0], 'text': S(arg[1])}
    if fn == 13:
        return {'constructor': ['PybtexError(message, filename)', 'PybtexSyntaxError(message, parser)', 'PrematureEOF(parser)', 'TokenRequired(description, Scanner)', 'TokenRequired(description, LowLevelParser)', 'AuxDataError(message, context)', 'TokenRequired(description, line-less scanner)', 'PybtexSyntaxError(message, line-less scanner)'][arg[0]],
                'args': [S(x) if isinstance(x, list) and x and all(isinstance(c, int) for c in x) else x for x in arg[1:]]}
    if fn == 20:
        return {'call': PLUGIN_VIAS[arg[0]], 'group': PLUGIN_GROUPS[arg[1] % len(PLUGIN_GROUPS)] if arg[0] < 2 else None, 'F': S(arg[2])}
    if fn == 19:
        return {'format.name$ format string': S(arg)}
    if fn == 17:
        return {'problem': TARGETS[arg[0]][0] if arg[0] < len(TARGETS) else arg[0], 'planted text': S(arg[1])}
    if fn in (14, 15, 16):
        return {'kind': {14: '.bib', 15: '.bst', 16: '.aux'}[fn], 'bytes file name': repr(bytes(arg[0])), 'text': S(arg[1])}
    if fn in (10, 11, 12):
        return {'kind': {10: '.bib', 11: '.bst', 12: '.aux'}[fn], 'text': S(arg)}
    return {'value': arg}

RULE = ('quick tier -- exhaustive: str.splitlines over {a,\\n,\\r,\\v,U+2028}^<=5; Scanner/LowLevelParser error contexts over all texts of length <= 4 over 4-letter alphabets x every position x lineno/start values; every attribute combination of the remaining error classes; every history of length <= 5 over {set_strict_mode(True/False), enter, exit, raise-in-inner, raise-to-top, report_error} from both initial modes; every computation of <= 3 reports x 4 endings in all modes and through CommandLine; Scanner.required on all texts of length <= 5 over {space,\\n,\\r,x,y,\\f}.  Random: error records, histories of <= 14 operations, computations, scanner texts; malformed: inconsistent scanner states.  distinct = distinct (function, argument); non-trivial = multi-line rendering / at least two events / at least one report / an error raised.  '
    'thorough tier -- as quick with bounds 7 (splitlines), 5 (contexts), 6 (histories), 6 (scanner) and 20x the random streams')
EXHAUSTIVE = {'quick': 'histories of length <= 5 over 7 operations x 2 initial modes; contexts over texts of length <= 4; splitlines over 5 letters up to length 5',
              'thorough': 'histories of length <= 6 over 7 operations x 2 initial modes; contexts over texts of length <= 5; splitlines over 5 letters up to length 7'}
TRUSTED_BASE = ['modelled (not verified) code: pybtex/errors.py (all), exceptions.py PybtexError, scanner.py Scanner.get_error_context/eat_whitespace/update_lineno/required and the error classes, database/input/bibtex.py LowLevelParser.get_error_context, auxfile.py AuxDataError, cmdline.py CommandLine.__call__/main',
                'the enumeration of report/raise sites and of PybtexError subclasses is an AST walk plus real inputs that reach them: exploration, not proof']
ASSUMPTIONS = ['between two reports a reader/engine cannot observe the reporting mode (checked syntactically on every run: no module under pybtex/ other than errors.py reads errors.strict / captured_errors / error_code; cmdline.py reads error_code only for the exit status)',
               'str.splitlines breaks exactly at the 10 code points of Model.Errors.is_lb (re-measured per run over all of Unicode)']
PARTIAL = ['"every problem pybtex detects": for the .bib reader, the .aux reader and the .bst parser it is proved (about their validated models of C10/C20/C15) that every error they report or raise is a constructed error and renders, and that the .bib and .aux readers behave in the three modes as the channel model says; for the other sources of problems (interpreter built-ins, names, name formats, plugins, templates, styles, I/O, writer) the report/raise sites are enumerated from the source and exercised through real inputs by the harness (extra check real_inputs_three_modes, functions 10-17): that part is testing',
           'message texts are not part of the reader models: the reader theorems hold for arbitrary messages; that messages embed user text verbatim is proved for __str__/format_error (err_str_concat) and tested for the message-building sites',
           'file system encodings other than UTF-8 are outside the model (checked per run)']

# ------------------------------------------------------------------------------------------
# known findings
def _has_bad_filename(x):
    """does the argument contain an error record whose file name is the non-str object?"""
    if isinstance(x, list):
        if len(x) == 5 and x[2] == [1] and isinstance(x[1], list) and isinstance(x[3], list) and isinstance(x[4], list):
            return True
        return any(_has_bad_filename(y) for y in x)
    return False

def _sig_F27(kind, fn, arg, detail):
    if kind == 'extra':
        return fn == 'real_inputs_three_modes' and 'int.to.chr$' in str(arg) and 'cannot be rendered' in str(detail)
    if kind != 'oracle':
        return False
    if fn == 1:
        return arg[0][2] == [1] and 'format_error raised' in str(detail)
    if fn == 13:
        return arg[0] == 0 and arg[2] == [1] and 'format_error raised' in str(detail)
    if fn == 11:
        return 'int.to.chr$' in S(arg) and 'cannot be rendered' in str(detail)
    if fn == 4:
        m = re.search(r'reporting problem (\d+) raised a foreign exception', str(detail))
        return bool(m) and any(o[0] == 5 and o[1][0] == int(m.group(1)) and o[1][2] == [1] for o in arg[2])
    return False

KNOWN_SIGNATURES = {'F27': _sig_F27}      # F32 fixed (3f5a30c): signature dropped, its inputs stay in the plugin_select stream

def run_bst(prog):
    """run a .bst program through the real interpreter; returns the PybtexError raised or None"""
    from pybtex.bibtex.interpreter import Interpreter
    from pybtex.bibtex.bst import parse_string
    from pybtex.database.input.bibtex import Parser
    from pybtex.exceptions import PybtexError
    try:
        Interpreter(Parser, 'utf-8').run(parse_string(prog), [], [], min_crossrefs=2)
    except PybtexError as e:
        return e
    return None

def replay_known(finding):
    if finding['id'] == 'F27':
        from pybtex.errors import format_error
        e = run_bst(finding['bst'])
        if e is None:
            return None
        try:
            format_error(e)
            return None
        except Exception as ex:
            return 'format_error of the error raised by %r raises %s' % (finding['bst'], type(ex).__name__)
    return None

# ------------------------------------------------------------------------------------------
# extra checks: line-break class sweep, AST scans, every error class, real inputs in three modes
MODEL_LB = {10, 11, 12, 13, 28, 29, 30, 133, 8232, 8233}
PKG = os.path.join(REPO, 'pybtex')

def _py_files():
    for root, dirs, files in os.walk(PKG):
        dirs[:] = [d for d in dirs if d != 'tests' and d != '__pycache__']
        for f in sorted(files):
            if f.endswith('.py'):
                yield os.path.join(root, f)

MODE_CELLS = ('strict', 'error_code', 'captured_errors')

def ast_scan():
    """(a) who touches the mode cells; (b) PybtexError subclasses; (c) report / raise sites"""
    touches, classes, sites = [], {}, []
    trees = {}
    for path in _py_files():
        rel = os.path.relpath(path, REPO)
        tree = ast.parse(open(path, encoding='utf-8').read(), path)
        trees[rel] = tree
        for node in ast.walk(tree):
            if isinstance(node, ast.ClassDef):
                bases = [b.id if isinstance(b, ast.Name) else b.attr if isinstance(b, ast.Attribute) else '?' for b in node.bases]
                classes[node.name] = (rel, node.lineno, bases)
    err_classes = {'PybtexError'}
    changed = True
    while changed:
        changed = False
        for name, (rel, ln, bases) in classes.items():
            if name not in err_classes and any(b in err_classes for b in bases):
                err_classes.add(name); changed = True
    for rel, tree in trees.items():
        # names under which pybtex.errors is visible in this module
        mod_names, cell_names = set(), set()
        for node in ast.walk(tree):
            if isinstance(node, ast.Import):
                for a in node.names:
                    if a.name == 'pybtex.errors':
                        mod_names.add(a.asname or 'pybtex')
            elif isinstance(node, ast.ImportFrom):
                if node.module == 'pybtex' or (node.module is None and node.level):
                    for a in node.names:
                        if a.name == 'errors':
                            mod_names.add(a.asname or 'errors')
                if node.module in ('pybtex.errors', 'errors'):
                    for a in node.names:
                        if a.name in MODE_CELLS or a.name == '*':
                            cell_names.add(a.asname or a.name)
                        if a.name in ('capture', 'set_strict_mode') and rel != 'pybtex/errors.py':
                            touches.append((rel, node.lineno, 'imports ' + a.name))
        for node in ast.walk(tree):
            if isinstance(node, ast.Attribute) and node.attr in MODE_CELLS + ('capture', 'set_strict_mode'):
                v = node.value
                base = v.id if isinstance(v, ast.Name) else (v.attr if isinstance(v, ast.Attribute) else None)
                if base in mod_names or base == 'errors':
                    touches.append((rel, node.lineno, 'errors.' + node.attr))
            elif isinstance(node, ast.Name) and node.id in cell_names:
                touches.append((rel, node.lineno, node.id))
            if isinstance(node, ast.Call):
                f = node.func
                fname = f.id if isinstance(f, ast.Name) else (f.attr if isinstance(f, ast.Attribute) else None)
                if fname in ('report_error', 'print_warning') and rel != 'pybtex/errors.py':
                    sites.append((rel, node.lineno, getattr(node, 'end_lineno', node.lineno), 'report'))
            if isinstance(node, ast.Raise) and isinstance(node.exc, ast.Call):
                f = node.exc.func
                fname = f.id if isinstance(f, ast.Name) else (f.attr if isinstance(f, ast.Attribute) else None)
                if fname in err_classes:
                    sites.append((rel, node.lineno, getattr(node, 'end_lineno', node.lineno), 'raise ' + fname))
    return touches, {c: classes[c] for c in err_classes if c in classes}, sorted(set(sites))

ALLOWED_TOUCH = {
    # cmdline.py: --strict callback, main(): set_strict_mode(False), exit status
    ('pybtex/cmdline.py', 'errors.set_strict_mode'), ('pybtex/cmdline.py', 'errors.error_code'),
}

def clear_memos():
    import pybtex.bibtex.builtins as B
    for f in (getattr(B, '_format_name', None), getattr(B, '_split_names', None)):
        for cell in (getattr(f, '__closure__', None) or ()):
            try:
                v = cell.cell_contents
            except ValueError:
                continue
            if hasattr(v, 'clear') and not callable(v):
                v.clear()

def _sites_of(ex):
    tb = ex.__traceback__
    out = set()
    while tb is not None:
        fn = tb.tb_frame.f_code.co_filename
        if fn.startswith(PKG) and not fn.endswith(os.sep + 'errors.py'):
            out.add((os.path.relpath(fn, REPO), tb.tb_lineno))
        tb = tb.tb_next
    return out

def err_to_record(e, eid=0):
    """a real error object -> the wire record of the attributes rendering reads (None: a class
    whose rendering methods are not the modelled ones)"""
    from pybtex.exceptions import PybtexError
    from pybtex.scanner import PybtexSyntaxError, TokenRequired
    from pybtex.auxfile import AuxDataError
    f = getattr(e, 'filename', None)
    fn = [] if f is None else ([0, f] if isinstance(f, str) else ([2, list(f)] if isinstance(f, bytes) else [1]))
    t = type(e)
    # the attributes below are implementation details: when they are not there the object is not
    # translated (counted as skipped), never a crash of the check
    if isinstance(e, TokenRequired) and not (hasattr(e, 'error_context_info') and hasattr(getattr(e, 'parser', None), 'text')):
        return None
    if isinstance(e, AuxDataError) and not (hasattr(getattr(e, 'context', None), 'lineno') and hasattr(getattr(e, 'context', None), 'line')):
        return None
    if len(e.args) != 1 or not isinstance(e.args[0], str):
        return None
    msg = e.args[0]
    if isinstance(e, AuxDataError):
        if t.__str__ is not AuxDataError.__str__ or t.get_context is not AuxDataError.get_context:
            return None
        return [eid, msg, fn, [2, opt(e.context.lineno)], [3, opt(e.context.line)]]
    if isinstance(e, PybtexSyntaxError):
        if t.__str__ is not PybtexSyntaxError.__str__:
            return None
        kind = [1, e.error_type, opt(e.lineno)]
        if isinstance(e, TokenRequired):
            if t.get_context is not TokenRequired.get_context:
                return None
            info = e.error_context_info
            if len(info) == 2:
                if info[0] != e.lineno:
                    return None
                return [eid, msg, fn, kind, [1, e.parser.text, opt(info[0]), info[1]]]
            if type(e.parser).__name__ != 'LowLevelParser':
                return None
            return [eid, msg, fn, kind, [2, e.parser.text, opt(info[0]), info[2]]]
        if t.get_context is not PybtexError.get_context:
            return None
        return [eid, msg, fn, kind, [0]]
    if t.__str__ is not Exception.__str__ or t.get_context is not PybtexError.get_context or t.get_filename is not PybtexError.get_filename:
        return None
    return [eid, msg, fn, [0], [0]]

REAL_ERRORS = []

def three_modes(thunk):
    """run one piece of user input under capture / non-strict / strict; return (message or None, sites)"""
    from pybtex.exceptions import PybtexError
    from pybtex.errors import format_error
    import pybtex.errors as E
    sites = set()
    def run(strict, capture):
        clear_memos()
        E_, buf = reset_state(strict, 0)
        lst, fatal, foreign = [], None, None
        try:
            if capture:
                with E.capture() as l:
                    lst = l
                    thunk()
            else:
                thunk()
        except PybtexError as ex:
            fatal = ex
            sites.update(_sites_of(ex))
        except Exception as ex:
            foreign = ex
        return lst, fatal, foreign, buf.getvalue(), E.error_code, E.captured_errors
    L, fc, xc, outc, codec, capc = run(1, True)
    _, fn_, xn, outn, coden, _ = run(0, False)
    _, fs, xs, outs, codes, _ = run(1, False)
    reset_state(1, 0)
    if capc is not None:
        return 'captured_errors is not None after the capture block', sites
    if xc or xn or xs:
        return None, sites          # a foreign exception is another property's business (C10/C15/C20)
    rend = []
    for e in list(L) + [x for x in (fc, fn_, fs) if x is not None and not any(x is y for y in L)]:
        if isinstance(e, PybtexError) and len(REAL_ERRORS) < 20000:
            REAL_ERRORS.append(e)
        if not isinstance(e, PybtexError):
            return 'a reported problem is not a pybtex error: %r' % (e,), sites
        try:
            r = format_error(e, 'WARNING: ')
            if not isinstance(r, str):
                return 'rendering is not text', sites
            if any(e is x for x in L) and len(rend) < len(L):
                rend.append(r)
        except Exception as ex:
            return 'the reported error %s(%r) cannot be rendered: %s' % (type(e).__name__, e.args, type(ex).__name__), sites
    # premises of the theorems scanner_errors_render / bib_ctx_wellformed on the real error objects
    from pybtex.scanner import TokenRequired
    for e in list(L) + [x for x in (fc, fn_, fs) if x is not None]:
        info = getattr(e, 'error_context_info', None)
        text = getattr(getattr(e, 'parser', None), 'text', None)
        if isinstance(e, TokenRequired) and isinstance(info, tuple) and isinstance(text, str):
            if len(info) == 3:
                st, ln, pos = info
                if not (st is not None and 0 <= st < pos <= len(text)):
                    return 'TokenRequired of the .bib parser with command_start=%r pos=%r len=%d: premise of bib_ctx_wellformed not met' % (st, pos, len(text)), sites
            elif len(info) == 2:
                ln, pos = info
                if not (0 <= pos <= len(text) and (ln is None or 1 <= ln <= len(text.splitlines(True)))):
                    return 'TokenRequired with lineno=%r pos=%r outside the text (%d lines)' % (ln, pos, len(text.splitlines(True))), sites
    want = ''.join(r + '\n' for r in rend)
    if outn != want:
        return 'non-strict mode printed %r but capture mode collected %r' % (outn, rend), sites
    if (coden != 0) != bool(L):
        return 'non-strict: %d problems but error_code %r' % (len(L), coden), sites
    if (fc is None) != (fn_ is None) or (fc is not None and (type(fc), str(fc)) != (type(fn_), str(fn_))):
        return 'fatal error differs between capture (%r) and non-strict (%r)' % (fc, fn_), sites
    first = L[0] if L else fc
    if (first is None) != (fs is None):
        return 'strict mode raised %r but the first problem is %r' % (fs, first), sites
    if first is not None and (type(first), format_error(first)) != (type(fs), format_error(fs)):
        return 'strict mode raised %r but the first problem is %r' % (fs, first), sites
    return None, sites

BIB = '''@string{jx = "Jan"}
@article{key1, author = {A. Author and Bee, B.}, title = "T" # jx, year = 2000}
@book{key2, title = {B {n}}, crossref = {key1}}
'''
BST = '''ENTRY {title}{}{label}
INTEGERS {a}
FUNCTION {f} { "x" write$ newline$ #1 'a := }
READ
EXECUTE {f}
'''
AUX = '\\relax\n\\citation{a}\n\\bibstyle{plain}\n\\bibdata{refs}\n\\citation{b,c}\n'

def corrupt(rng, s, toks):
    r = rng.random()
    i = rng.randrange(len(s) + 1)
    if r < 0.3:
        j = min(len(s), i + rng.randint(1, 4))
        return s[:i] + s[j:]
    if r < 0.55:
        return s[:i] + rng.choice(toks) + s[i:]
    if r < 0.75:
        return s[:i] + rng.choice(toks) + s[i + 1:]
    if r < 0.9:
        return s[:i]
    j = min(len(s), i + rng.randint(1, 8))
    return s[:j] + s[i:]

def real_inputs(ck, tier, rng):
    """(label, thunk) pairs: user input of every kind the property names"""
    import pybtex.database as D
    from pybtex.database import Person, Entry, BibliographyData
    from pybtex.bibtex import bst as BSTM
    from pybtex.bibtex.names import format_name
    from pybtex import auxfile
    from pybtex.plugin import find_plugin
    tmp = os.path.join(ck.rundir, 'inputs')
    os.makedirs(tmp, exist_ok=True)
    counter = [0]
    def bib(t):
        return lambda: D.parse_string(t, 'bibtex')
    def bstrun(t, bibtext=None, cites=('key1', 'nokey')):
        def f():
            from pybtex.bibtex.interpreter import Interpreter
            from pybtex.database.input.bibtex import Parser
            files = []
            if bibtext is not None:
                counter[0] += 1
                p = os.path.join(tmp, 'b%d.bib' % counter[0])
                open(p, 'w', encoding='utf-8').write(bibtext)
                files = [p]
            Interpreter(Parser, 'utf-8').run(BSTM.parse_string(t), list(cites) if bibtext is not None else [], files, min_crossrefs=2)
        return f
    def aux(t):
        counter[0] += 1
        p = os.path.join(tmp, 'a%d.aux' % counter[0])
        open(p, 'w', encoding='utf-8').write(t)
        return lambda: auxfile.parse_file(p, 'utf-8')
    fixed = [
        ('bib', '@article{k, a = }'), ('bib', '@article{k, a = "x" # }'), ('bib', '@article{k, a = undefinedmacro}'),
        ('bib', '@article{k, a = {x}, A = {y}}'), ('bib', '@article{k, a={x}}\n@book{k, b={y}}'), ('bib', '@article{k, a = {x'),
        ('bib', '@article{k, a = "x}"}'), ('bib', '@article{k, author = {A, B, C, D}}'), ('bib', '@article'), ('bib', '@article{'),
        ('bib', '@article{k,\n\n  a = {x}\n  b = {y}}'), ('bib', '@a{k, crossref={zz}}'), ('bib', '@a{k, a = ' + '{' * 101 + 'x' + '}' * 101 + '}'),
        ('bib', '@string{x = }\n@preamble{ # }\n@a(k, a = 1 # )'), ('bib', '@a{k1, x = "\x0c\n" # @}'), ('bib', '\r\n\r\n@a{k,\r\n a = \r\n}'),
    ]
    for kind, t in fixed:
        yield ('%s %r' % (kind, t), bib(t))
    n = 150 if tier == 'quick' else 1500
    for i in range(n):
        t = BIB
        for _ in range(rng.randint(1, 3)):
            t = corrupt(rng, t, ['@', '{', '}', '"', ',', '=', '#', '(', ')', '\n', ' ', 'key1', '\r\n', '\x0c'])
        yield ('bib %r' % t, bib(t))
    bsts = ['foo {x}', 'FUNCTION {f} { #-1 int.to.chr$ write$ } EXECUTE {f}', 'FUNCTION {f} { "ab" chr.to.int$ } EXECUTE {f}',
            'FUNCTION {f} { "x" "" change.case$ } EXECUTE {f}', 'FUNCTION {f} { "x" "q" change.case$ } EXECUTE {f}',
            'FUNCTION {f} { "A B" #3 "{ff}" format.name$ } EXECUTE {f}', 'FUNCTION {f} { g } EXECUTE {f}', 'FUNCTION {f} { pop$ } EXECUTE {f}',
            'FUNCTION {f} { } FUNCTION {f} { }', 'FUNCTION {f} { "w" warning$ "w2" warning$ } EXECUTE {f}', 'FUNCTION {f} { "A B" #1 "{ff" format.name$ } EXECUTE {f}',
            'FUNCTION {f} { "A B" #1 "{ff{x}yy}" format.name$ } EXECUTE {f}', 'FUNCTION {f', 'FUNCTION {f} { "x', 'EXECUTE', 'INTEGERS {a} FUNCTION {f} { a pop$ \'b } EXECUTE {f}',
            'FUNCTION {f} { #1 #2 + "x" * } EXECUTE {f}', 'FUNCTION {f} { "' + '{' * 120 + '" purify$ "a" #1 "{ll}" format.name$ } EXECUTE {f}']
    for t in bsts:
        yield ('bst %r' % t, bstrun(t))
    yield ('bst+bib %r' % BST, bstrun(BST, BIB))
    yield ('bst+bib missing/dup', bstrun(BST + 'ITERATE {f}\n', BIB + '@book{key2, title={again}}\n@x{y, author={a,b,c,d}}'))
    for i in range(n // 2):
        t = BST
        for _ in range(rng.randint(1, 2)):
            t = corrupt(rng, t, ['{', '}', '"', '#', "'", ' ', '\n', 'f', 'pop$', 'EXECUTE', '%', ':='])
        yield ('bst %r' % t, bstrun(t, BIB if i % 3 == 0 else None))
    auxs = [AUX, '\\bibstyle{a}\n\\bibstyle{b}\n\\bibdata{x}\n', '\\bibdata{x}\n\\bibdata{y}\n\\bibstyle{s}\n', '\\citation{a}\n\\citation{A}\n\\bibstyle{s}\n\\bibdata{d}\n',
            '\\citation{a}\n', '\\bibdata{d}\n', '', '\\bibstyle{s}\n\\citation{k,K,k}\n  \\bibstyle{t}\n\\bibstyle{u}\n\\bibdata{d}\n\\bibdata{e}\n', '\\@input{nonexistent.aux}\n']
    for t in auxs:
        yield ('aux %r' % t, aux(t))
    for i in range(n // 2):
        t = AUX + rng.choice(['', '\\citation{A}\n', '\\bibstyle{q}\n', '\\bibdata{r}\n'])
        for _ in range(rng.randint(1, 2)):
            t = corrupt(rng, t, ['\\', '{', '}', '\n', 'citation', 'bibstyle', 'bibdata', 'A', ','])
        yield ('aux %r' % t, aux(t))
    for nm in ['a, b, c, d', 'A B', ',,,,', 'x, y, z, {w, v}', '{', '~']:
        yield ('name %r' % nm, lambda nm=nm: Person(nm))
    for fmt in ['{ff', '{ff}}', '{ff xx}', '{f{', 'a}', '{ff~}{vv~}{ll}{, jj}', '{}', '{x}']:
        yield ('name format %r' % fmt, lambda fmt=fmt: format_name('Donald E. Knuth', fmt))
    yield ('plugin', lambda: find_plugin('pybtex.backends', 'no-such-backend'))
    yield ('plugin group', lambda: find_plugin('no.such.group', 'x'))
    yield ('plugin suffix', lambda: find_plugin('pybtex.database.input', filename='x.nosuchsuffix'))
    yield ('plugin group suffix', lambda: find_plugin('no.such.group', filename='x.bib'))
    def tmpl_field():
        from pybtex.style.template import field
        return field('title').format_data({'entry': Entry('misc')})
    def tmpl_names():
        from pybtex.style.template import names
        return names('author').format_data({'entry': Entry('misc')})
    yield ('template field', tmpl_field)
    yield ('template names', tmpl_names)
    def style_missing():
        style = find_plugin('pybtex.style.formatting', 'plain')()
        data = D.parse_string('@misc{a, title={T}}', 'bibtex')
        return list(style.format_bibliography(data, ['a', 'nosuch', 'nosuch2']))
    yield ('style missing entry', style_missing)
    def style_required():
        style = find_plugin('pybtex.style.formatting', 'plain')()
        data = D.parse_string('@article{a, title={T}}', 'bibtex')
        return list(style.format_bibliography(data, ['a']))
    yield ('style missing field', style_required)
    for t in ['{a', 'a}', 'a{b}c}', '{{a}']:
        def mk(t=t):
            from pybtex.markup import LaTeXParser
            return LaTeXParser(t).parse()
        yield ('markup %r' % t, mk)
    yield ('open missing file', lambda: D.parse_file(os.path.join(tmp, 'does-not-exist.bib')))
    def bad_utf8():
        p = os.path.join(tmp, 'bad.bib')
        open(p, 'wb').write(b'@a{k, t = {\xff\xfe}}')
        return D.parse_file(p, encoding='utf-8')
    yield ('undecodable file', bad_utf8)
    def conv():
        from pybtex.database.convert import convert
        return convert('same.bib', 'same.bib')
    yield ('convert same file', conv)
    def writer():
        d = BibliographyData({'k': Entry('misc', {'title': 'a } b'})})
        return d.to_string('bibtex')
    yield ('writer unmatched brace', writer)
    def addtwice():
        d = BibliographyData()
        d.add_entry('k', Entry('misc'))
        d.add_entry('K', Entry('misc'))
        d.add_entry('k', Entry('misc'))
    yield ('add_entry twice', addtwice)
    yield ('bst call.type$ without a function for the entry type',
           bstrun('ENTRY {title}{}{} FUNCTION {default.type} { "d" write$ newline$ } READ ITERATE {call.type$}', BIB, cites=('key1', 'key2')))
    def external_bibtex():
        # pybtex.bibtex.runner.run_bibtex reports the output of a failing external `bibtex`;
        # a stand-in executable that fails after writing the .bbl is put first on PATH
        from pybtex.bibtex import runner
        from pybtex.database import BibliographyData, Entry as E_
        bindir = os.path.join(tmp, 'bin')
        os.makedirs(bindir, exist_ok=True)
        exe = os.path.join(bindir, 'bibtex')
        with open(exe, 'w') as f:
            f.write('#!/bin/sh\necho "I found no style file"\necho x > test.bbl\nexit 2\n')
        os.chmod(exe, 0o755)
        old = os.environ.get('PATH', '')
        os.environ['PATH'] = bindir + os.pathsep + old
        try:
            return runner.run_bibtex('ENTRY{}{}{}', BibliographyData({'k': E_('misc', {'title': 'T'})}))
        finally:
            os.environ['PATH'] = old
    yield ('external bibtex fails', external_bibtex)
    def badxref():
        d = D.parse_string('@a{k, crossref={zz}, t={x}}\n@a{k2, crossref={zz}}', 'bibtex')
        return d.add_extra_citations(['k', 'k2'], 2)
    yield ('bad cross-reference', badxref)
    yield ('bib nested braces', bib('@a{k, t = ' + '{' * 103 + 'x' + '}' * 103 + '}'))
    def writer2():
        from pybtex.database.output.bibtex import Writer
        return Writer().check_braces('{{test}')
    yield ('writer check_braces', writer2)
    def reg():
        from pybtex.plugin import register_plugin
        return register_plugin('no.such.group', 'x', object)
    yield ('register_plugin bad group', reg)
    yield ('name format eof', lambda: format_name('Donald E. Knuth', '{ff{'))
    yield ('name format eof 2', lambda: format_name('Donald E. Knuth', '{ff{a}'))
    yield ('bst warnings', bstrun('ENTRY {title}{}{} FUNCTION {f} { title empty$ { "e" warning$ } { "n" warning$ } if$ } READ ITERATE {f}', BIB))

def instantiate_classes(errcls):
    """one object of every PybtexError subclass found in the source (plus attribute variants)"""
    import importlib
    from pybtex.scanner import Scanner
    from pybtex.database import Entry
    from pybtex.auxfile import AuxDataContext
    sc = Scanner('ab\n c d', 'f.bst'); sc.lineno = 2; sc.pos = 4
    ctx = AuxDataContext('f.aux'); ctx.lineno = 3; ctx.line = '\\bibdata{x}'
    import inspect
    byname = {'message': ['some message', 'two\nlines'], 'description': ['a thing'], 'name_string': ['a, b, c, d'],
              'group_name': ['no.group'], 'plugin_group': ['pybtex.x.suffixes'], 'name': ['nm', '.sfx'],
              'field_name': ['title'], 'entry_key': ['k'], 'parser': [sc], 'context': [ctx],
              'entry': [Entry('misc'), object()], 'filename': [None, 'file.x', '', b'caf\xe9.bib']}
    out = []
    for name, (rel, ln, bases) in sorted(errcls.items()):
        modname = rel[:-3].replace(os.sep, '.')
        if modname.endswith('.__init__'):
            modname = modname[:-9]
        try:
            cls = getattr(importlib.import_module(modname), name)
            params = [p for p in list(inspect.signature(cls.__init__).parameters.values())[1:]]
        except Exception as ex:
            out.append((name, None, 'cannot import/inspect %s.%s: %r' % (modname, name, ex)))
            continue
        unknown = [p.name for p in params if p.name not in byname]
        if unknown:
            out.append((name, None, 'no known way to instantiate %s (parameters %r)' % (name, unknown)))
            continue
        made = 0
        for args in itertools.product(*[byname[p.name] for p in params]):
            try:
                obj = cls(*args)
            except Exception as ex:
                out.append((name, None, '%s%r: constructor raised %r' % (name, args, ex)))
                continue
            made += 1
            out.append((name, obj, None))
    return out

def extra_checks(ck, tier, rng):
    # 1. the line-break class the model assumes, against the running interpreter, all of Unicode
    fails, n = [], 0
    for cp in range(0x110000):
        if 0xD800 <= cp <= 0xDFFF:
            continue
        n += 1
        a = len(('a' + chr(cp) + 'b').splitlines()) == 2
        if a != (cp in MODEL_LB):
            fails.append(('U+%04X' % cp, 'splitlines breaks=%s model=%s' % (a, cp in MODEL_LB), False))
    yield {'name': 'linebreak_class_sweep', 'evaluations': n, 'failures': fails[:5], 'info': 'str.splitlines / Model.Errors.is_lb agree on every code point'}

    fse = sys.getfilesystemencoding()
    yield {'name': 'filesystem_encoding_is_utf8', 'evaluations': 1,
           'failures': [] if (fse or 'utf-8').lower().replace('-', '') == 'utf8' else [('sys.getfilesystemencoding()', 'the model decodes bytes file names as UTF-8 with replacement, but the file system encoding is %r' % fse, False)],
           'info': fse}

    # 2. non-interference premise: nobody but errors.py (and the command line) touches the mode cells
    touches, errcls, sites = ast_scan()
    fails = []
    for (rel, ln, what) in touches:
        if rel == 'pybtex/errors.py' or (rel, what) in ALLOWED_TOUCH:
            continue
        fails.append(('%s:%d' % (rel, ln), 'module other than errors.py uses %s: a reader/engine could observe or change the reporting mode' % what, False))
    yield {'name': 'mode_noninterference_ast_scan', 'evaluations': len(list(_py_files())), 'failures': fails[:5],
           'info': {'uses_of_mode_cells_outside_errors_py': ['%s:%d %s' % t for t in touches if t[0] != 'pybtex/errors.py']}}

    # 3. every error class of the package: instantiate, render, report in the three modes
    from pybtex.errors import format_error
    fails, n = [], 0
    objs = instantiate_classes(errcls)
    for name, obj, problem in objs:
        n += 1
        if problem:
            fails.append((name, problem, False))
            continue
        try:
            s = format_error(obj)
            c = obj.get_context()
            if not isinstance(s, str) or not (c is None or isinstance(c, str)) or str(obj.args[0]) not in s:
                fails.append((name, 'rendering of %s%r lacks the message: %r' % (name, obj.args, s), True))
        except Exception as ex:
            fails.append((name, '%s%r cannot be rendered: %r' % (name, obj.args, ex), True))
            continue
        def thunk(obj=obj):
            from pybtex.errors import report_error
            report_error(obj); report_error(obj)
        msg, _ = three_modes(thunk)
        if msg:
            fails.append((name, msg, True))
    yield {'name': 'error_classes_enumerated', 'evaluations': n, 'failures': fails[:5],
           'info': {'classes': sorted(errcls), 'objects': n}}

    # 4. real inputs of every kind under capture / non-strict / strict; which sites they reach
    fails, n, reached = [], 0, set()
    seen = set()
    for label, thunk in real_inputs(ck, tier, rng):
        n += 1
        msg, ss = three_modes(thunk)
        reached |= ss
        if msg:
            sig = msg[:40]
            if sig not in seen or 'int.to.chr$' in label:
                seen.add(sig)
                fails.append((label, msg, True))
    covered = [s for s in sites if any(r == s[0] and s[1] <= l <= s[2] for (r, l) in reached)]
    for s_ in sites:
        if s_ not in covered:
            # fail closed: the enumeration claims every site; a site no input reaches is not covered
            fails.append(('%s:%d %s' % (s_[0], s_[1], s_[3]), 'this report/raise site is not reached by any input of the check, so "every problem pybtex detects" is not exercised for it (add an input to real_inputs)', False))
    yield {'name': 'real_inputs_three_modes', 'evaluations': n, 'failures': fails[:8],
           'info': {'sites_total': len(sites), 'sites_raised_from_in_this_run': len(covered),
                    'sites_not_reached': ['%s:%d %s' % (s[0], s[1], s[3]) for s in sites if s not in covered]}}
    shutil.rmtree(os.path.join(ck.rundir, 'inputs'), ignore_errors=True)

    # 4b. the real error objects seen above, through the model: same renderability (verdict),
    #     same text (information)
    from pybtex.errors import format_error as _fe
    recs, texts, skipped = [], [], 0
    seen_r = set()
    for e in REAL_ERRORS:
        try:
            r = err_to_record(e)
        except Exception:
            r = None
        if r is None:
            skipped += 1
            continue
        r = norm(r)
        k = sx(r)
        if k in seen_r:
            continue
        seen_r.add(k)
        recs.append(r)
        texts.append(call_impl_noerr(_fe, e, 'ERROR: '))
    del REAL_ERRORS[:]
    fails, same = [], 0
    try:
        mo = ck.model.run([(1, [r, norm('ERROR: ')]) for r in recs], ck.rundir)
        for r, m, t in zip(recs, mo, texts):
            if m[:1] != t[:1]:
                d = ('real error %r: model says %s, implementation %s' % (describe_err(r), 'renders' if m[0] == 0 else 'does not render', 'renders' if t[0] == 0 else 'does not render'))
                if not (r[2] == [1] and m[:1] == [2] and t[:1] == [2]):
                    fails.append((str(describe_err(r))[:300], d, t[0] != 0))
            elif m == t:
                same += 1
    except Exception as ex:
        fails.append(('model runner', repr(ex), False))
    yield {'name': 'real_errors_through_model', 'evaluations': len(recs), 'failures': fails[:5],
           'info': {'distinct_real_error_objects': len(recs), 'identical_text': same, 'not_modelled_classes_skipped': skipped}}

    # 5. information only (no alarm): how often the model's rendering is character-for-character
    #    the implementation's (the verdict compares renderability only, so that a re-worded
    #    message is not an alarm)
    r2 = random.Random(ck.seed)
    cases = []
    for i in range(1500):
        e = gen_err(r2, i)
        cases.append((1, norm([e, 'ERROR: '])))
        cases.append((2, norm(e)))
    try:
        mo = ck.model.run(cases, ck.rundir)
        same = sum(1 for (fn, a), m in zip(cases, mo) if m == FUNCS[fn][1](a))
        info = {'compared': len(cases), 'identical_text': same}
    except Exception as ex:
        info = {'error': repr(ex)}
    yield {'name': 'rendering_text_agreement_info', 'evaluations': len(cases), 'failures': [], 'info': info}
