# C16 -- the error reporting channel.  Model: coq/Model/Errors.v; theorems: coq/Props/C16.v
import itertools, random, io, os, sys, ast, tempfile, shutil, contextlib
from core import *

ID = 'C16'

# ------------------------------------------------------------------------------------------
# wire format of error objects (see coq/Extr/C16.v):  [id, msg, fname, kind, ctx]
#   fname: [] | [0, str] | [1]     kind: [0] | [1, etype, lineno?] | [2, lineno?]
#   ctx:   [0] | [1, text, lineno?, pos] | [2, text, start?, pos] | [3, line?]
def opt(v):
    return [] if v is None else [v]

def unopt(v):
    return None if v == [] else v[0]

class _NoDecode(int):
    pass

_PLAIN = None
def plain_classes():
    global _PLAIN
    if _PLAIN is None:
        from pybtex.exceptions import PybtexError
        from pybtex.bibtex.exceptions import BibTeXError
        from pybtex.database import BibliographyDataError
        from pybtex.database.convert import ConvertError
        _PLAIN = [PybtexError, BibTeXError, BibliographyDataError, ConvertError]
    return _PLAIN

_CUSTOM = {}
def mk_err(rec):
    """build the real exception object that has the attributes of the record"""
    from pybtex.scanner import Scanner, PybtexSyntaxError, TokenRequired
    eid, msg, fn, kind, ctx = rec
    msg = S(msg)
    filename = None if fn == [] else (S(fn[1]) if fn[0] == 0 else 5)
    if kind[0] == 0:
        if ctx[0] != 0:
            raise ValueError('no such error class')
        cls = plain_classes()[eid % len(plain_classes())]
        return cls(msg, filename)
    if kind[0] == 1:
        etype, lineno = S(kind[1]), unopt(kind[2])
        if ctx[0] == 0:
            p = Scanner('', filename)
            p.lineno = lineno
            if etype == 'syntax error':
                return PybtexSyntaxError(msg, p)
            if etype == 'undefined string':
                from pybtex.database.input.bibtex import UndefinedMacro
                return UndefinedMacro(msg, p)
            cls = _CUSTOM.get(etype)
            if cls is None:
                cls = _CUSTOM[etype] = type('CustomSyntaxError', (PybtexSyntaxError,), {'error_type': etype})
            return cls(msg, p)
        if etype != 'syntax error' or not msg.endswith(' expected'):
            raise ValueError('no such error class')
        desc = msg[:-len(' expected')]
        if ctx[0] == 1:
            if unopt(ctx[2]) != lineno:
                raise ValueError('inconsistent lineno')
            p = Scanner(S(ctx[1]), filename)
            p.lineno = lineno
            p.pos = ctx[3]
            return TokenRequired(desc, p)
        if ctx[0] == 2:
            from pybtex.database.input.bibtex import LowLevelParser
            p = LowLevelParser(S(ctx[1]), filename=filename)
            p.lineno = lineno
            p.command_start = unopt(ctx[2])
            p.pos = ctx[3]
            return TokenRequired(desc, p)
        raise ValueError('no such error class')
    if kind[0] == 2:
        from pybtex.auxfile import AuxDataError, AuxDataContext
        if ctx[0] != 3:
            raise ValueError('no such error class')
        c = AuxDataContext(filename)
        c.lineno = unopt(kind[1])
        c.line = None if ctx[1] == [] else S(ctx[1][0])
        return AuxDataError(msg, c)
    raise ValueError('bad kind')

def reset_state(strict, code):
    import pybtex.errors as E, pybtex.io
    E.strict = bool(strict)
    E.error_code = code
    E.captured_errors = None
    buf = io.StringIO()
    pybtex.io.stderr = buf
    return E, buf

def observe(E, buf, lists, idof):
    cap = E.captured_errors
    if cap is None:
        c = []
    else:
        c = [k for k, l in enumerate(lists) if l is cap][:1] or [99]
    return [1 if E.strict else 0, E.error_code, c, [[idof.get(id(x), 999) for x in l] for l in lists], norm(buf.getvalue())]

# ------------------------------------------------------------------------------------------
def impl_format_error(arg):
    from pybtex.errors import format_error
    e = mk_err(arg[0])
    return call_impl_noerr(format_error, e, S(arg[1]))

def call_impl_noerr(f, *a):
    """like call_impl, but a PybtexError escaping from a renderer is a crash too"""
    try:
        return OK(f(*a))
    except Exception:
        return [2]

def impl_str(arg):
    return norm(str(mk_err(arg)))

def impl_context(arg):
    e = mk_err(arg)
    def f():
        c = e.get_context()
        if c is not None and not isinstance(c, str):
            raise TypeError('context is not text')
        return [] if c is None else [norm(c)]
    try:
        return [0, f()]
    except Exception:
        return [2]

def canon_ctx(out):
    # None and '' are the same thing to format_error
    if out[0] == 0 and out[1] == [[]]:
        return [0, []]
    return out

class _Inner(Exception):
    pass

class _Outer(Exception):
    pass

def impl_hist(arg):
    """drive the API through a straight-line program; `with` blocks are entered and left by hand,
    exactly as the with statement does"""
    strict0, code0, ops = arg
    from pybtex.exceptions import PybtexError
    E, buf = reset_state(strict0, code0)
    stack, lists, events, idof = [], [], [], {}
    keep = []
    def unwind(ex, n):
        k = 0
        while stack and k < n:
            cm = stack.pop()
            k += 1
            if cm.__exit__(type(ex), ex, ex.__traceback__):
                return True      # swallowed
        return False
    for op in ops:
        try:
            if op[0] == 0:
                E.set_strict_mode(bool(op[1]))
            elif op[0] == 1:
                cm = E.capture()
                l = cm.__enter__()
                stack.append(cm)
                lists.append(l)
                events.append([0, len(lists) - 1])
            elif op[0] == 2:
                if stack:
                    stack.pop().__exit__(None, None, None)
            elif op[0] == 3:
                events.append([5])
                raise _Inner()
            elif op[0] == 4:
                events.append([5])
                raise _Outer()
            else:
                e = mk_err(op[1])
                keep.append(e)
                idof[id(e)] = op[1][0]
                lens = [len(l) for l in lists]
                blen = len(buf.getvalue())
                try:
                    E.report_error(e)
                except PybtexError as ex:
                    events.append([2, idof.get(id(ex), 999)])
                    raise
                except Exception:
                    events.append([4, op[1][0]])
                    raise
                grown = [k for k, l in enumerate(lists) if len(l) == lens[k] + 1 and l[-1] is e]
                if grown:
                    events.append([1, grown[0], op[1][0]])
                elif len(buf.getvalue()) > blen:
                    events.append([3, op[1][0]])
                else:
                    events.append([6, op[1][0]])    # lost
        except _Inner as ex:
            unwind(ex, 1)
        except Exception as ex:
            unwind(ex, len(stack))
    out = [observe(E, buf, lists, idof), len(stack), events]
    # leave the module clean
    while stack:
        stack.pop().__exit__(None, None, None)
    return out

def _run_body(comp, idof, keep):
    from pybtex.errors import report_error
    errs, ending = comp
    objs = [mk_err(r) for r in errs]
    fatal = mk_err(ending[1]) if ending[0] == 1 else None
    for r, o in zip(errs, objs):
        idof[id(o)] = r[0]
    if fatal is not None:
        idof[id(fatal)] = ending[1][0]
    keep.extend(objs + [fatal])
    def body():
        for o in objs:
            report_error(o)
        if fatal is not None:
            raise fatal
        if ending[0] == 2:
            raise ZeroDivisionError('foreign')
    return body

def _outcome(f, idof):
    from pybtex.exceptions import PybtexError
    try:
        f()
        return [0]
    except PybtexError as ex:
        return [1, idof.get(id(ex), 999)]
    except Exception:
        return [2]

def impl_modes(arg):
    code0, comp = arg
    res = []
    for strict in (1, 0):
        idof, keep = {}, []
        E, buf = reset_state(strict, code0)
        body = _run_body(comp, idof, keep)
        got = []
        def f():
            with E.capture() as lst:
                got.append(lst)
                body()
        oc = _outcome(f, idof)
        res.append([observe(E, buf, got, idof), oc, [idof.get(id(x), 999) for x in (got[0] if got else [])]])
    for strict in (0, 1):
        idof, keep = {}, []
        E, buf = reset_state(strict, code0)
        body = _run_body(comp, idof, keep)
        oc = _outcome(body, idof)
        res.append([observe(E, buf, [], idof), oc])
    return res

def impl_cmdline(arg):
    strict0, code0, strict_opt, comp = arg
    from pybtex.cmdline import CommandLine, standard_option
    idof, keep = {}, []
    E, buf = reset_state(strict0, code0)
    body = _run_body(comp, idof, keep)
    class CL(CommandLine):
        prog = 'c16'
        args = ''
        num_args = 0
        options = ((None, (standard_option('strict'),)),)
        def run(self, **kw):
            body()
    argv = sys.argv
    sys.argv = ['c16'] + (['--strict'] if strict_opt else [])
    try:
        try:
            CL()()
            st = [2]          # must leave through sys.exit
        except SystemExit as ex:
            code = ex.code
            st = [0, 0 if code is None else code] if isinstance(code, int) or code is None else [2]
        except Exception:
            st = [2]
    finally:
        sys.argv = argv
    return [observe(E, buf, [], idof), st]

def err_to_wire(e):
    """attributes of a real scanner error, in the wire format of kinds and contexts"""
    from pybtex.scanner import TokenRequired
    kind = [1, norm(e.error_type), opt(e.lineno)]
    if isinstance(e, TokenRequired):
        info = e.error_context_info
        ctx = [1, norm(e.parser.text), opt(info[0]), info[1]]
    else:
        ctx = [0]
    return kind, ctx

def impl_scanner(arg):
    from pybtex.scanner import Scanner, Literal, PybtexSyntaxError
    from pybtex.errors import format_error
    text, lit, fn = S(arg[0]), S(arg[1]), arg[2]
    filename = None if fn == [] else (S(fn[1]) if fn[0] == 0 else 5)
    sc = Scanner(text, filename)
    try:
        tok = sc.required([Literal(lit)])
        return [0, norm(tok.value)]
    except PybtexSyntaxError as e:
        kind, ctx = err_to_wire(e)
        return [1, kind, ctx, norm(e.args[0]), call_impl_noerr(format_error, e, 'ERROR: ')]

def impl_splitlines(arg):
    return norm(S(arg[1]).splitlines(bool(arg[0])))

def impl_int(arg):
    return norm('{0}'.format(arg))

E_SCH = ('T', 'N', 'S', 'X', 'X', 'X')
COMP_SCH = ('T', ('L', E_SCH), 'X')
FUNCS = {
    1: ('pybtex.errors.format_error', impl_format_error, ('T', E_SCH, 'S')),
    2: ('str(error)', impl_str, E_SCH),
    3: ('error.get_context()', impl_context, E_SCH),
    4: ('errors.set_strict_mode/capture/report_error history', impl_hist, ('T', 'B', 'N', ('L', 'X'))),
    5: ('one computation under capture/non-strict/strict', impl_modes, ('T', 'N', COMP_SCH)),
    6: ('CommandLine.__call__/main', impl_cmdline, ('T', 'B', 'N', 'B', COMP_SCH)),
    7: ('Scanner.required error + format_error', impl_scanner, ('T', 'S', 'S', 'X')),
    8: ('str.splitlines', impl_splitlines, ('T', 'B', 'S')),
    9: ("'{0}'.format(int)", impl_int, 'I'),
}

def canon(fn, out):
    if fn == 3:
        return canon_ctx(out)
    return out

# ------------------------------------------------------------------------------------------
# oracle: the property itself, in plain Python, on the implementation's outputs
LB = set('\n\r\x0b\x0c\x1c\x1d\x1e\x85  ')

def scanner_lineno(text, pos):
    v = text[:pos]
    return 1 + v.count('\n') + v.count('\r') - v.count('\r\n')

def wellformed(rec):
    """is this record the state of an error pybtex itself can construct from user input?"""
    eid, msg, fn, kind, ctx = rec
    if fn == [1]:
        return True       # an int as file name is what builtins.py:214 passes (finding F27)
    if ctx[0] == 1:
        text, ln, pos = S(ctx[1]), unopt(ctx[2]), ctx[3]
        # a TokenRequired is raised in front of a character, after whitespace was skipped
        return ln is not None and 0 <= pos < len(text) and ln == scanner_lineno(text, pos) \
            and not (text[pos - 1:pos] == '\r' and text[pos:pos + 1] == '\n')
    if ctx[0] == 2:
        text, st, pos = S(ctx[1]), unopt(ctx[2]), ctx[3]
        return st is not None and 0 <= st < pos <= len(text)
    return True

def subseq_in_order(parts, text):
    p = 0
    for s in parts:
        k = text.find(s, p)
        if k < 0:
            return False
        p = k + len(s)
    return True

def oracle_hist(arg, out):
    strict0, code0, ops = arg
    (strict, code, cap, heap, text), depth, events = out
    text = S(text)
    # replay the history against the property, following the implementation where the text is silent
    cur_strict = bool(strict0)
    blocks = []       # open blocks: list index, or None once an inner exit switched the capture off
    nlists = 0
    ev = list(events)
    printed = 0
    expect_heap = []
    def take():
        return ev.pop(0) if ev else None
    for op in ops:
        if op[0] == 0:
            cur_strict = bool(op[1])
        elif op[0] == 1:
            e = take()
            if e != [0, nlists]:
                return 'entering capture() did not yield a fresh list (event %r)' % (e,)
            blocks = [None] * len(blocks) + [nlists]
            expect_heap.append([])
            nlists += 1
        elif op[0] == 2:
            if blocks:
                blocks.pop()
                blocks = [None] * len(blocks)
        elif op[0] == 3:
            if take() != [5]:
                return 'event log out of step'
            if blocks:
                blocks.pop()
                blocks = [None] * len(blocks)
        elif op[0] == 4:
            if take() != [5]:
                return 'event log out of step'
            blocks = []
        else:
            eid = op[1][0]
            e = take()
            if e is None or e[-1] != eid:
                return 'problem %d was not reported in order (event %r)' % (eid, e)
            if e[0] == 6:
                return 'problem %d was lost: neither collected, raised nor printed' % eid
            if e[0] == 4:
                return 'reporting problem %d raised a foreign exception' % eid
            if blocks and blocks[-1] is not None:
                if e[:2] != [1, blocks[-1]]:
                    return 'in capture mode problem %d was not collected in the active list (event %r)' % (eid, e)
            elif not blocks:
                if cur_strict and e[0] != 2:
                    return 'strict mode, no capture: problem %d was not raised (event %r)' % (eid, e)
                if not cur_strict and e[0] != 3:
                    return 'non-strict mode, no capture: problem %d was not printed (event %r)' % (eid, e)
            if e[0] == 1:
                expect_heap[e[1]].append(eid)
            elif e[0] == 2:
                blocks = []         # the exception left every open block
            elif e[0] == 3:
                printed += 1
    if ev:
        return 'unexpected extra events %r' % (ev,)
    if heap != expect_heap:
        return 'collected lists %r differ from the problems reported in capture mode %r' % (heap, expect_heap)
    if not blocks and cap != []:
        return 'all capture blocks were left but captured_errors is not None'
    if bool(strict) != cur_strict:
        return 'strict flag %r is not the one last set (%r): capture changed it' % (strict, cur_strict)
    if printed and code == 0:
        return 'a warning was printed but error_code stayed 0'
    if printed and text.count('WARNING: ') < printed:
        return '%d problems printed but fewer warnings on stderr' % printed
    return None

def comp_parts(comp):
    errs, ending = comp
    return [r[0] for r in errs], (ending[1][0] if ending[0] == 1 else None), ending[0] == 2

def oracle_modes(arg, out):
    code0, comp = arg
    ids, fatal, foreign = comp_parts(comp)
    end = [1, fatal] if fatal is not None else ([2] if foreign else [0])
    strs = [S(impl_str(r)) for r in comp[0]]
    for k, name in ((0, 'strict'), (1, 'non-strict')):
        (g, oc, lst) = out[k]
        if lst != ids:
            return 'capture (%s flag): collected %r, reported %r' % (name, lst, ids)
        if oc != end:
            return 'capture (%s flag): body ended %r, block ended %r' % (name, end, oc)
        if g[2] != []:
            return 'capture (%s flag): captured_errors not None after the block' % name
        if g[0] != (1 if k == 0 else 0):
            return 'capture changed the strict flag'
    g, oc = out[2]
    text = S(g[4])
    if oc != end:
        return 'non-strict: body ended %r, run ended %r' % (end, oc)
    if not subseq_in_order(['WARNING: ' + s for s in strs], text):
        return 'non-strict: the problems %r are not printed as warnings in order: %r' % (strs, text)
    if text.count('WARNING: ') < len(ids):
        return 'non-strict: fewer warnings than problems'
    if ids and g[1] == 0:
        return 'non-strict: problems reported but error_code is 0'
    g, oc = out[3]
    want = [1, ids[0]] if ids else end
    if oc != want:
        return 'strict: expected %r, got %r' % (want, oc)
    return None

def oracle_cmdline(arg, out):
    strict0, code0, strict_opt, comp = arg
    ids, fatal, foreign = comp_parts(comp)
    g, st = out
    text = S(g[4])
    strs = [S(impl_str(r)) for r in comp[0]]
    if strict_opt:
        problem = ids[:1] or ([fatal] if fatal is not None else [])
        if ids or fatal is not None:
            if st[0] != 0 or st[1] == 0:
                return '--strict: a problem but exit status %r' % (st,)
            first = strs[0] if ids else S(impl_str(comp[1][1]))
            if 'ERROR: ' + first not in text:
                return '--strict: the first problem is not printed as an error: %r' % text
        elif not foreign and st != [0, code0]:
            return 'no problem but exit status %r' % (st,)
        return None
    if not subseq_in_order(['WARNING: ' + s for s in strs], text):
        return 'problems not printed as warnings in order: %r' % text
    if foreign:
        return None if st == [2] else 'foreign exception swallowed'
    if st[0] != 0:
        return 'the command line crashed'
    if (ids or fatal is not None) and st[1] == 0:
        return 'problems were reported but the exit status is 0'
    if not ids and fatal is None and st[1] != code0:
        return 'no problem but exit status changed to %r' % st[1]
    if fatal is not None and 'ERROR: ' + S(impl_str(comp[1][1])) not in text:
        return 'fatal error not printed: %r' % text
    return None

def oracle(fn, arg, out):
    if fn == 1:
        rec, prefix = arg
        if not wellformed(rec):
            return None
        if out[0] != 0:
            return 'format_error raised instead of returning text'
        text = S(out[1])
        msg = S(rec[1])
        if S(prefix) + S(impl_str(rec)) not in text or msg not in text:
            return 'the message is not part of the rendering %r' % text
        fnm = S(rec[2][1]) if rec[2][:1] == [0] else ''
        if fnm and not (set(text) & LB - {'\n'}):
            # every line carries the file name
            if set(msg) & LB or set(fnm) & LB or set(S(prefix)) & LB:
                lines = text.split('\n')[:1]
            else:
                lines = text.split('\n')
            for l in lines:
                if not l.startswith(fnm + ': '):
                    return 'line %r lacks the file name prefix' % l
        return None
    if fn == 2:
        return None if S(arg[1]) in S(out) else 'str(error) does not contain the message'
    if fn == 3:
        if not wellformed(arg):
            return None
        return None if out[0] == 0 else 'get_context() raised'
    if fn == 4:
        return oracle_hist(arg, out)
    if fn == 5:
        return oracle_modes(arg, out)
    if fn == 6:
        return oracle_cmdline(arg, out)
    if fn == 7:
        if out[0] == 0:
            return None
        r = out[4]
        if r[0] != 0:
            return 'the error raised by the scanner cannot be rendered'
        if S(out[3]) not in S(r[1]):
            return 'rendering lacks the message'
        return None
    return None

# ------------------------------------------------------------------------------------------
# generators
MSGS = ['m', 'bad thing', 'a\nb', '', 'x: y', 'é∑', 'tab\there', 'cr\rlf']
FNAMES = [[], [0, ''], [0, 'f.bib'], [0, 'dir/a b.bst'], [0, 'é.aux']]
LINENOS = [[], [0], [1], [2], [7], [12345], [-3]]
ETYPES = ['syntax error', 'undefined string', 'weird type']

def rnd_text(rng, n, alpha):
    return ''.join(rng.choice(alpha) for _ in range(n))

def gen_err(rng, eid, msg=None):
    k = rng.randrange(6)
    msg = rng.choice(MSGS) if msg is None else msg
    fn = rng.choice(FNAMES)
    if k == 0:
        return [eid, msg, fn, [0], [0]]
    if k == 1:
        return [eid, msg, fn, [1, rng.choice(ETYPES), rng.choice(LINENOS)], [0]]
    if k in (2, 3):
        text = rnd_text(rng, rng.randint(1, 30), 'ab  \n\n\r@{},=\x0c ')
        pos = rng.randrange(len(text))
        if k == 2:
            ln = scanner_lineno(text, pos)
            return [eid, msg + ' expected', fn, [1, 'syntax error', [ln]], [1, text, [ln], pos]]
        st = rng.randint(0, pos)
        ln = scanner_lineno(text, pos)
        return [eid, msg + ' expected', fn, [1, 'syntax error', [ln]], [2, text, [st], min(len(text), pos + 1)]]
    line = rng.choice([[], [''], ['\\bibdata{x}'], ['\\citation{a,B}'], ['l m']])
    return [eid, msg, fn, [2, rng.choice(LINENOS)], [3, line]]

def gen_comp(rng, maxn=4, distinct=True):
    n = rng.randint(0, maxn)
    errs = [gen_err(rng, i + 1, msg=('p%d %s' % (i + 1, rng.choice(MSGS))) if distinct else None) for i in range(n)]
    e = rng.randrange(4)
    ending = [0] if e < 2 else ([1, gen_err(rng, 50, msg='fatal ' + rng.choice(MSGS))] if e == 2 else [2])
    return [errs, ending]

def simple_err(eid, variant=0):
    if variant == 0:
        return [eid, 'p%d' % eid, [], [0], [0]]
    if variant == 1:
        return [eid, 'p%d' % eid, [0, 'f.aux'], [2, [3]], [3, ['\\bibstyle{x}']]]
    return [eid, "'x' expected", [0, 'f.bst'], [1, 'syntax error', [2]], [1, 'a\nb c', [2], 3]]

def gen(tier, rng):
    quick = tier == 'quick'
    # ---- pinned: F6 (AuxDataError rendering), F22 (line kept), F27 (int as file name), F20 histories
    yield ('pinned', 1, [[1, 'illegal, another \\bibstyle command', [0, 'x.aux'], [2, [3]], [3, ['\\bibstyle{b}']]], 'ERROR: '])
    yield ('pinned', 1, [[1, '%i passed to int.to.chr$', [1], [0], [0]], 'ERROR: '])
    yield ('pinned', 4, [1, 0, [[1], [1], [2], [5, simple_err(1)], [2], [5, simple_err(2)]]])
    yield ('pinned', 4, [0, 0, [[1], [1], [5, simple_err(1)], [3], [5, simple_err(2)], [2], [5, simple_err(3)]]])
    yield ('pinned', 5, [0, [[simple_err(1, 1), simple_err(2, 2), simple_err(3)], [1, simple_err(9)]]])
    # ---- exhaustive: splitlines
    alpha = ['a', '\n', '\r', '\x0b', ' ']
    for n in range(0, (5 if quick else 7) + 1):
        for t in itertools.product(alpha, repeat=n):
            s = ''.join(t)
            yield ('exh_splitlines', 8, [1, s])
            if n <= 4:
                yield ('exh_splitlines', 8, [0, s])
    for z in list(range(-12, 120)) + [999, 1000, 1001, 12345, 99999, 100000, 2 ** 31, 2 ** 40 + 1, -2 ** 40]:
        yield ('exh_int', 9, z)
    # ---- exhaustive: Scanner context, all texts over {a, \n, \r, space} up to len 4 x pos x lineno
    for n in range(0, (4 if quick else 5) + 1):
        for t in itertools.product('a\n\r ', repeat=n):
            text = ''.join(t)
            for pos in range(0, n + 1):
                for ln in ([], [0], [1], [2], [3], [-1]):
                    rec = [1, "'x' expected", [0, 'f'], [1, 'syntax error', ln], [1, text, ln, pos]]
                    yield ('exh_scan_ctx', 3, rec)
                    if ln == [scanner_lineno(text, pos)] or (pos + len(text)) % 5 == 0:
                        yield ('exh_scan_ctx', 1, [rec, 'ERROR: '])
    # ---- exhaustive: LowLevelParser context
    for n in range(0, (4 if quick else 5) + 1):
        for t in itertools.product('@a\n\r', repeat=n):
            text = ''.join(t)
            for pos in range(0, n + 1):
                for st in ([], [0], [1], [2]):
                    rec = [1, "'=' expected", [], [1, 'syntax error', [1]], [2, text, st, pos]]
                    yield ('exh_bib_ctx', 3, rec)
                    if (pos + n + len(st)) % 3 == 0:
                        yield ('exh_bib_ctx', 1, [rec, 'ERROR: '])
    # ---- exhaustive: rendering of the other classes over the attribute tables
    eid = 0
    for msg in MSGS:
        for fn in FNAMES + [[1]]:
            for pre in ('ERROR: ', 'WARNING: ', ''):
                eid += 1
                yield ('exh_render', 1, [[eid, msg, fn, [0], [0]], pre])
            for ln in LINENOS:
                for et in ETYPES:
                    eid += 1
                    rec = [eid, msg, fn, [1, et, ln], [0]]
                    yield ('exh_render', 2, rec)
                    if fn != [1]:
                        yield ('exh_render', 1, [rec, 'ERROR: '])
                for line in ([], [''], ['\\bibdata{x}'], ['a\x0cb'], [' ']):
                    eid += 1
                    rec = [eid, msg, fn, [2, ln], [3, line]]
                    yield ('exh_render', 2, rec)
                    yield ('exh_render', 3, rec)
                    if fn != [1]:
                        yield ('exh_render', 1, [rec, 'WARNING: '])
    # ---- exhaustive: histories
    OPS = [[0, 1], [0, 0], [1], [2], [3], [4], 'R']
    maxh = 5 if quick else 6
    for n in range(0, maxh + 1):
        for t in itertools.product(OPS, repeat=n):
            k = 0
            ops = []
            for o in t:
                if o == 'R':
                    k += 1
                    ops.append([5, simple_err(k, (k + n) % 3)])
                else:
                    ops.append(o)
            if n == maxh and k == 0:
                continue
            for strict0 in (1, 0):
                yield ('exh_hist', 4, [strict0, 0, ops])
    # ---- exhaustive-ish: computations: up to 3 reports of 3 shapes x 3 endings
    for n in range(0, 4):
        for shapes in itertools.product(range(3), repeat=n):
            errs = [simple_err(i + 1, v) for i, v in enumerate(shapes)]
            for ending in ([0], [1, simple_err(9, 1)], [1, simple_err(9, 2)], [2]):
                yield ('exh_comp', 5, [0, [errs, ending]])
                for so in (0, 1):
                    yield ('exh_comp', 6, [1, 0, so, [errs, ending]])
    # ---- exhaustive: scanner
    for n in range(0, (5 if quick else 6) + 1):
        for t in itertools.product(' \n\rxy\x0c', repeat=n):
            text = ''.join(t)
            yield ('exh_scanner', 7, [text, 'x', [0, 'f.bst']])
            if n <= 4:
                yield ('exh_scanner', 7, [text, 'xy', []])
    # ---- random
    N = 1500 if quick else 30000
    for i in range(N):
        e = gen_err(rng, i)
        yield ('rnd_render', 1, [e, rng.choice(['ERROR: ', 'WARNING: ', '', 'x\ny'])])
        yield ('rnd_render', 2, e)
        yield ('rnd_render', 3, e)
    for i in range(N):
        ops = []
        k = 0
        for _ in range(rng.randint(1, 14)):
            r = rng.random()
            if r < 0.4:
                k += 1
                ops.append([5, gen_err(rng, k)])
            elif r < 0.6:
                ops.append([1])
            elif r < 0.78:
                ops.append([2])
            elif r < 0.86:
                ops.append([0, rng.randrange(2)])
            elif r < 0.93:
                ops.append([3])
            else:
                ops.append([4])
        yield ('rnd_hist', 4, [rng.randrange(2), rng.choice([0, 0, 2, 5]), ops])
    for i in range(N):
        c = gen_comp(rng)
        yield ('rnd_comp', 5, [rng.choice([0, 0, 2]), c])
        yield ('rnd_comp', 6, [rng.randrange(2), rng.choice([0, 0, 0, 2]), rng.randrange(2), c])
    for i in range(N):
        text = rnd_text(rng, rng.randint(0, 3), ' \n\r\t\x0c\x85 　') + rnd_text(rng, rng.randint(0, 12), 'xy \n\r\x0b{}')
        yield ('rnd_scanner', 7, [text, rng.choice(['x', 'xy', '{', '']), rng.choice(FNAMES)])
    # ---- malformed: inconsistent scanner states, negative positions
    for i in range(N // 3):
        text = rnd_text(rng, rng.randint(0, 12), 'ab \n\r\x0c')
        ln = rng.choice([[], [0], [-1], [-2], [1], [2], [3], [9]])
        pos = rng.randint(0, len(text) + 2)
        rec = [i, "'x' expected", rng.choice(FNAMES), [1, 'syntax error', ln], [1, text, ln, pos]]
        yield ('malformed', 3, rec)
        yield ('malformed', 1, [rec, 'ERROR: '])
        st = rng.choice([[], [0], [1], [pos], [len(text)], [-1], [-3]])
        rec = [i, "'x' expected", rng.choice(FNAMES), [1, 'syntax error', [1]], [2, text, st, pos]]
        yield ('malformed', 3, rec)
        yield ('malformed', 1, [rec, 'ERROR: '])

def nontrivial(fn, arg, out):
    if fn == 1:
        return out[0] == 0 and 10 in out[1]
    if fn == 3:
        return out[0] == 0 and out[1] != []
    if fn == 4:
        return len(out[2]) >= 2
    if fn in (5, 6):
        return len(arg[-1][0]) >= 1
    if fn == 7:
        return out[0] == 1
    if fn == 8:
        return len(out) >= 2
    return True

def describe_err(r):
    return {'id': r[0], 'message': S(r[1]), 'filename': None if r[2] == [] else (S(r[2][1]) if r[2][0] == 0 else '<int 5>'),
            'kind': [r[3][0]] + [S(x) if isinstance(x, list) and x and k == 1 and r[3][0] == 1 else x for k, x in enumerate(r[3][1:], 1)],
            'context': [r[4][0]] + [S(x) if k == 1 and r[4][0] in (1, 2) else x for k, x in enumerate(r[4][1:], 1)]}

def describe(fn, arg):
    if fn == 1:
        return {'error': describe_err(arg[0]), 'prefix': S(arg[1])}
    if fn in (2, 3):
        return {'error': describe_err(arg)}
    if fn == 4:
        names = {0: 'set_strict_mode', 1: 'enter capture()', 2: 'exit', 3: 'raise in innermost block (caught outside it)', 4: 'raise (caught at top level)', 5: 'report_error'}
        return {'strict0': arg[0], 'error_code0': arg[1], 'ops': [[names[o[0]]] + ([o[1]] if o[0] == 0 else [describe_err(o[1])] if o[0] == 5 else []) for o in arg[2]]}
    if fn in (5, 6):
        c = arg[-1]
        return {'args': arg[:-1], 'reports': [describe_err(e) for e in c[0]], 'ending': ['return', 'raise pybtex error', 'raise foreign exception'][c[1][0]]}
    if fn == 7:
        return {'text': S(arg[0]), 'required literal': S(arg[1]), 'filename': arg[2]}
    if fn == 8:
        return {'keepends': arg[0], 'text': S(arg[1])}
    return {'value': arg}

RULE = ('quick tier -- exhaustive: str.splitlines over {a,\\n,\\r,\\v,U+2028}^<=5; Scanner/LowLevelParser error contexts over all texts of length <= 4 over 4-letter alphabets x every position x lineno/start values; every attribute combination of the remaining error classes; every history of length <= 5 over {set_strict_mode(True/False), enter, exit, raise-in-inner, raise-to-top, report_error} from both initial modes; every computation of <= 3 reports x 4 endings in all modes and through CommandLine; Scanner.required on all texts of length <= 5 over {space,\\n,\\r,x,y,\\f}.  Random: error records, histories of <= 14 operations, computations, scanner texts; malformed: inconsistent scanner states.  distinct = distinct (function, argument); non-trivial = multi-line rendering / at least two events / at least one report / an error raised.  '
    'thorough tier -- as quick with bounds 7 (splitlines), 5 (contexts), 6 (histories), 6 (scanner) and 20x the random streams')
EXHAUSTIVE = {'quick': 'histories of length <= 5 over 7 operations x 2 initial modes; contexts over texts of length <= 4; splitlines over 5 letters up to length 5',
              'thorough': 'histories of length <= 6 over 7 operations x 2 initial modes; contexts over texts of length <= 5; splitlines over 5 letters up to length 7'}
TRUSTED_BASE = ['modelled (not verified) code: pybtex/errors.py (all), exceptions.py PybtexError, scanner.py Scanner.get_error_context/eat_whitespace/update_lineno/required and the error classes, database/input/bibtex.py LowLevelParser.get_error_context, auxfile.py AuxDataError, cmdline.py CommandLine.__call__/main',
                'the enumeration of report/raise sites and of PybtexError subclasses is an AST walk plus real inputs that reach them: exploration, not proof']
ASSUMPTIONS = ['between two reports a reader/engine cannot observe the reporting mode (checked syntactically on every run: no module under pybtex/ other than errors.py reads errors.strict / captured_errors / error_code; cmdline.py reads error_code only for the exit status)',
               'str.splitlines breaks exactly at the 10 code points of Model.Errors.is_lb (re-measured per run over all of Unicode)']
PARTIAL = ['"every problem pybtex detects": the report/raise sites are enumerated from the source and exercised through real inputs by the harness (extra check real_inputs_three_modes); that part is testing',
           'bytes file names (decoded by pybtex.io._decode_filename) are outside the model']

# ------------------------------------------------------------------------------------------
# known findings
def _has_bad_filename(x):
    """does the argument contain an error record whose file name is the non-str object?"""
    if isinstance(x, list):
        if len(x) == 5 and x[2] == [1] and isinstance(x[1], list) and isinstance(x[3], list) and isinstance(x[4], list):
            return True
        return any(_has_bad_filename(y) for y in x)
    return False

def _sig_F27(kind, fn, arg, detail):
    if kind == 'extra':
        return fn == 'real_inputs_three_modes' and 'int.to.chr$' in str(arg) and 'cannot be rendered' in str(detail)
    if kind != 'oracle':
        return False
    if fn == 1:
        return arg[0][2] == [1] and 'format_error raised' in str(detail)
    return False

KNOWN_SIGNATURES = {'F27': _sig_F27}

def run_bst(prog):
    """run a .bst program through the real interpreter; returns the PybtexError raised or None"""
    from pybtex.bibtex.interpreter import Interpreter
    from pybtex.bibtex.bst import parse_string
    from pybtex.database.input.bibtex import Parser
    from pybtex.exceptions import PybtexError
    try:
        Interpreter(Parser, 'utf-8').run(parse_string(prog), [], [], min_crossrefs=2)
    except PybtexError as e:
        return e
    return None

def replay_known(finding):
    if finding['id'] == 'F27':
        from pybtex.errors import format_error
        e = run_bst(finding['bst'])
        if e is None:
            return None
        try:
            format_error(e)
            return None
        except Exception as ex:
            return 'format_error of the error raised by %r raises %s' % (finding['bst'], type(ex).__name__)
    return None
