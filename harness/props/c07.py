# C07 -- Python-engine bibliography.  Model: coq/Model/Template.v, Styles.v (+ Citations.v of C05);
# theorems: coq/Props/C07.v
#
# fn 1  BaseStyle.format_bibliography   arg = [cfg, db, cites?]           (model also gets templates, dectable)
#        cfg = [fstyle 0..3 (unsrt plain alpha unsrtalpha), label? , sorting?, names?, abbr, min_crossrefs, strict]
#        db  = [[key, type, [[field, value]..], [[role, [person..]]..]] ..], person = [first, middle, prelast, last, lineage]
# fn 2  Node.format_data                arg = [tree, entry, db?, lastfirst, abbr]   (model also gets dectable)
# fn 3  alpha format_labels             arg = [entries]
# fn 4  sort / sorting_key              arg = [entries, author_year_title?]
# fn 5  NameStyle.format                arg = [person, lastfirst, abbr]   (model also gets dectable)
# fn 6  textutils.abbreviate            arg = [str]
# fn 7  Text.from_latex                 arg = [str]                       (model also gets dectable)
# fn 8  number format_labels            arg = [n]
# fn 9  alpha format_label              arg = [entry]
# Template trees are encoded as in coq/Model/TemplateWire.v; rich text is observed through a tracing
# back end as the flat list of (atom, markup stack) pairs.
import itertools, random, re, warnings
from core import *
import core

ID = 'C07'
warnings.filterwarnings('ignore')

# ------------------------------------------------------------------------------------------
# flat rich text <-> pybtex objects
_BACKEND = None
def backend():
    global _BACKEND
    if _BACKEND is None:
        from pybtex.backends import BaseBackend
        class Syms(dict):
            def __missing__(self, name):
                return [[[1, norm(name)], []]]
        class Trace(BaseBackend):
            RenderType = list
            symbols = Syms()
            def format_str(self, s):
                return [[[0, ord(c)], []] for c in s]
            def format_tag(self, name, text):
                return [[a, [[0, norm(name)]] + ms] for a, ms in text]
            def format_href(self, url, text, external=False):
                return [[a, [[1, norm(url), 1 if external else 0]] + ms] for a, ms in text]
            def format_protected(self, text):
                return [[a, [[2]] + ms] for a, ms in text]
            def render_sequence(self, seq):
                return [p for item in seq for p in item]
        _BACKEND = Trace('utf-8')
    return _BACKEND

def flat_of(v):
    """str / rich text -> flat"""
    if isinstance(v, str):
        return [[[0, ord(c)], []] for c in v]
    return v.render(backend())

def compact(f):
    """flat -> maximal runs [[markups], [atoms]] (a character as its code point, a symbol as its name)"""
    out = []
    for a, ms in f:
        x = a[1]
        if out and out[-1][0] == ms:
            out[-1][1].append(x)
        else:
            out.append([ms, [x]])
    return out
def expand(cf):
    return [[[0, x] if isinstance(x, int) else [1, x], ms] for ms, atoms in cf for x in atoms]
def cflat_of(v): return compact(flat_of(v))

def fl_str(s): return [[[0, ord(c)], []] for c in s]
def fl_sym(n): return [[[1, norm(n)], []]]

# inside template trees flat texts travel compactly: [0, code points] for a plain str, [1, flat] otherwise
def FL(v):
    if isinstance(v, str):
        return [0, [ord(c) for c in v]]
    f = v if isinstance(v, list) else flat_of(v)
    if all(a[0] == 0 and not ms for a, ms in f):
        return [0, [a[1] for a, ms in f]]
    return [1, f]
def unFL(c):
    return [[[0, x], []] for x in c[1]] if c[0] == 0 else c[1]

def flat_plain(f):
    """flat -> plain str; a symbol prints as <name>"""
    return ''.join(chr(a[1]) if a[0] == 0 else '<%s>' % S(a[1]) for a, ms in f)

def unflat(f):
    """flat -> a str (only unmarked characters) or a richtext.Text"""
    import pybtex.richtext as R
    if all(a[0] == 0 and not ms for a, ms in f):
        return ''.join(chr(a[1]) for a, ms in f)
    def parts(ps):
        out = []
        i = 0
        while i < len(ps):
            a, ms = ps[i]
            if not ms:
                out.append(chr(a[1]) if a[0] == 0 else R.Symbol(S(a[1])))
                i += 1
            else:
                m = ms[0]
                j = i
                while j < len(ps) and ps[j][1] and ps[j][1][0] == m:
                    j += 1
                inner = parts([[a2, ms2[1:]] for a2, ms2 in ps[i:j]])
                if m[0] == 0: out.append(R.Tag(S(m[1]), *inner))
                elif m[0] == 1: out.append(R.HRef(S(m[1]), *inner))
                else: out.append(R.Protected(*inner))
                i = j
        return out
    ps = parts(f)
    if len(ps) == 1 and not isinstance(ps[0], str) and type(ps[0]).__name__ == 'Symbol':
        return ps[0]
    return R.Text(*ps)

# ------------------------------------------------------------------------------------------
# template trees: dump (live Node -> encoding) and build (encoding -> live Node)
AFUNCS = ['id', 'lower', 'upper', 'capitalize', 'capfirst', 'dashify']
_PROBES = None
def probe_afunc(f):
    """identify an apply_func by its behaviour on probe texts; None -> 0 (not applied)"""
    global _PROBES
    if f is None:
        return 0
    code = getattr(f, '__code__', None)
    if code is not None and getattr(f, '__closure__', None) is None and code in _PROBE_CACHE:
        return _PROBE_CACHE[code]
    r = _probe_afunc(f)
    if code is not None and getattr(f, '__closure__', None) is None:
        _PROBE_CACHE[code] = r
    return r

_PROBE_CACHE = {}
def _probe_afunc(f):
    global _PROBES
    import pybtex.richtext as R
    if _PROBES is None:
        dash_re = re.compile(r'-+')
        texts = [R.Text('aB-c--D e', R.Protected('F-g'), '-hI'), R.Text('xY'), R.Text(R.Protected('q'), 'Rs--'), R.Text()]
        ref = {
            1: lambda t: t.lower(), 2: lambda t: t.upper(), 3: lambda t: t.capitalize(), 4: lambda t: t.capfirst(),
            5: lambda t: R.Text(R.Symbol('ndash')).join(t.split(dash_re)), 0: lambda t: t,
        }
        _PROBES = (texts, {k: [flat_of(g(t)) for t in texts] for k, g in ref.items()})
    texts, table = _PROBES
    try:
        got = [flat_of(f(t)) for t in texts]
    except Exception:
        return 9
    for k in (1, 2, 3, 4, 5, 0):
        if table[k] == got:
            return k
    return 9

def _opt_flat(v):
    return [] if v is None else [FL(v)]

def _bind(node, names, defaults):
    """explicit args/kwargs of a Node against the parameter list the MODEL assumes (defaults are code,
    not data: they are fixed here, so a changed default in the code shows up as a disagreement)"""
    vals = dict(defaults)
    if len(node.args) > len(names):
        raise ValueError('too many args')
    for n, v in zip(names, node.args):
        vals[n] = v
    for k, v in node.kwargs.items():
        if k not in names:
            raise ValueError('unknown kwarg')
        vals[k] = v
    return vals

def dump_node(x):
    import pybtex.richtext as R
    from pybtex.style.template import Node
    if x is None:
        return [1]
    if isinstance(x, str):
        return [0, 1, FL(x)]
    if isinstance(x, R.BaseText):
        return [0, 0, FL(x)]
    if not isinstance(x, Node):
        return [15]
    try:
        cs = [dump_node(c) for c in x.children]
        n = x.name
        if n == 'join':
            v = _bind(x, ['sep', 'sep2', 'last_sep'], {'sep': '', 'sep2': None, 'last_sep': None})
            return [2, FL(v['sep']), _opt_flat(v['sep2']), _opt_flat(v['last_sep']), cs]
        if n == 'words':
            v = _bind(x, ['sep'], {'sep': ' '})
            return [3, FL(v['sep']), cs]
        if n == 'together':
            v = _bind(x, ['last_tie'], {'last_tie': False})
            return [4, 1 if v['last_tie'] else 0, cs]
        if n == 'sentence':
            v = _bind(x, ['capfirst', 'capitalize', 'add_period', 'sep'], {'capfirst': False, 'capitalize': False, 'add_period': True, 'sep': ', '})
            return [5, 1 if v['capfirst'] else 0, 1 if v['capitalize'] else 0, 1 if v['add_period'] else 0, FL(v['sep']), cs]
        if n in ('field', 'optional_field'):
            if cs:
                return [15]
            v = _bind(x, ['name', 'apply_func', 'raw'], {'apply_func': None, 'raw': False})
            a = probe_afunc(v['apply_func'])
            if v['raw'] and v['apply_func'] is not None:
                a = 9
            return [6 if n == 'field' else 9, norm(v['name']), a, 1 if v['raw'] else 0]
        if n == 'names':
            if cs:
                return [15]
            v = _bind(x, ['role', 'sep', 'sep2', 'last_sep'], {'sep': '', 'sep2': None, 'last_sep': None})
            return [7, norm(v['role']), FL(v['sep']), _opt_flat(v['sep2']), _opt_flat(v['last_sep'])]
        if n == 'optional':
            _bind(x, [], {})
            return [8, cs]
        if n == 'tag':
            v = _bind(x, ['name'], {})
            return [10, norm(v['name']), cs]
        if n == 'href':
            v = _bind(x, ['url', 'external'], {'url': None, 'external': False})
            return [11, [] if v['url'] is None else [dump_node(v['url'])], 1 if v['external'] else 0, cs]
        if n == 'first_of':
            _bind(x, [], {})
            return [12, cs]
        if n == 'toplevel':
            _bind(x, [], {})
            return [13, cs]
        if n == 'name_part':
            v = _bind(x, ['before', 'tie', 'abbr'], {'before': '', 'tie': False, 'abbr': False})
            return [14, FL(v['before']), 1 if v['tie'] else 0, 1 if v['abbr'] else 0, cs]
    except Exception:
        return [15]
    return [15]

def build_node(t):
    """encoding -> live template Node (for the generic-tree stream)"""
    import pybtex.style.template as T
    from pybtex.style.formatting import toplevel
    from pybtex.style.names import name_part
    from pybtex.style.formatting.unsrt import dashify
    k = t[0]
    if k == 0: return unflat(unFL(t[2]))
    if k == 1: return None
    afs = {0: None, 1: lambda x: x.lower(), 2: lambda x: x.upper(), 3: lambda x: x.capitalize(), 4: lambda x: x.capfirst(), 5: dashify}
    opt = lambda o: None if not o else unflat(unFL(o[0]))
    if k == 2: return T.join(sep=unflat(unFL(t[1])), sep2=opt(t[2]), last_sep=opt(t[3]))[[build_node(c) for c in t[4]]]
    if k == 3: return T.words(sep=unflat(unFL(t[1])))[[build_node(c) for c in t[2]]]
    if k == 4: return T.together(last_tie=bool(t[1]))[[build_node(c) for c in t[2]]]
    if k == 5: return T.sentence(capfirst=bool(t[1]), capitalize=bool(t[2]), add_period=bool(t[3]), sep=unflat(unFL(t[4])))[[build_node(c) for c in t[5]]]
    if k == 6: return T.field(S(t[1]), apply_func=afs[t[2]], raw=bool(t[3]))
    if k == 7: return T.names(S(t[1]), sep=unflat(unFL(t[2])), sep2=opt(t[3]), last_sep=opt(t[4]))
    if k == 8: return T.optional[[build_node(c) for c in t[1]]]
    if k == 9: return T.optional_field(S(t[1]), apply_func=afs[t[2]], raw=bool(t[3]))
    if k == 10: return T.tag(S(t[1]))[[build_node(c) for c in t[2]]]
    if k == 11:
        cs = [build_node(c) for c in t[3]]
        if t[1]:
            return T.href(build_node(t[1][0]), external=bool(t[2]))[cs]
        return T.href(external=bool(t[2]))[cs]
    if k == 12: return T.first_of[[build_node(c) for c in t[1]]]
    if k == 13: return toplevel[[build_node(c) for c in t[1]]]
    if k == 14: return name_part(before=unflat(unFL(t[1])), tie=bool(t[2]), abbr=bool(t[3]))[[build_node(c) for c in t[4]]]
    raise ValueError('unbuildable node')

# ------------------------------------------------------------------------------------------
# database objects
def mk_person(p):
    from pybtex.database import Person
    x = Person()
    x.first_names, x.middle_names, x.prelast_names, x.last_names, x.lineage_names = [[S(n) for n in part] for part in p]
    return x

def mk_entry(e):
    from pybtex.database import Entry
    from pybtex.utils import OrderedCaseInsensitiveDict
    ent = Entry(S(e[1]), fields=[(S(k), S(v)) for k, v in e[2]])
    for role, ps in e[3]:
        ent.persons[S(role)] = [mk_person(p) for p in ps]
    return ent

def mk_db(db):
    from pybtex.database import BibliographyData
    bd = BibliographyData()
    for e in db:
        bd.add_entry(S(e[0]), mk_entry(e))
    return bd

def dump_person(p):
    return [[norm(n) for n in part] for part in (p.first_names, p.middle_names, p.prelast_names, p.last_names, p.lineage_names)]

def dump_entry(e, key=None):
    return [norm(e.key if key is None else key), norm(e.type), [[norm(k), norm(v)] for k, v in e.fields.items()],
            [[norm(r), [dump_person(p) for p in ps]] for r, ps in e.persons.items()]]

_DEC = {}
def _dec_row(s):
    """None when decoding is the identity, else the table row"""
    if s in _DEC:
        return _DEC[s]
    import codecs, latexcodec  # noqa
    try:
        d = codecs.decode(s, 'ulatex')
        r = None if d == s else [norm(s), [norm(d)]]
    except Exception:
        r = [norm(s), []]
    if len(_DEC) > 200000:
        _DEC.clear()
    _DEC[s] = r
    return r

def dec_table(strings):
    out = []
    seen = set()
    for s in strings:
        if s in seen:
            continue
        seen.add(s)
        r = _dec_row(s)
        if r is not None:
            out.append(r)
    return out

def entry_strings(e):
    for k, v in e[2]:
        yield S(v)
    for r, ps in e[3]:
        for p in ps:
            for part in p:
                for n in part:
                    yield S(n)

FSTYLES = ['unsrt', 'plain', 'alpha', 'unsrtalpha']
# the defaults each formatting style is documented to have: (sorting, label); default name style plain
STYLE_DEFAULTS = {0: (0, 0), 1: (1, 0), 2: (1, 1), 3: (0, 1)}
LABELS = ['number', 'alpha']; SORTS = ['none', 'author_year_title']; NAMES = ['plain', 'lastfirst']

def _speedup():
    """importlib.metadata.entry_points() (a library call, ~5 ms) is looked up by pybtex.plugin on every
    find_plugin: memoise it for the duration of the check"""
    import pybtex.plugin as PP
    if getattr(PP.entry_points, '_c07_memo', False):
        return
    orig = PP.entry_points
    memo = {}
    def entry_points(**kw):
        k = tuple(sorted(kw.items()))
        if k not in memo:
            memo[k] = list(orig(**kw))
        return memo[k]
    entry_points._c07_memo = True
    PP.entry_points = entry_points

_STYLE_CLS = {}
def _plugin(group, name):
    from pybtex.plugin import find_plugin
    k = (group, name)
    if k not in _STYLE_CLS:
        _STYLE_CLS[k] = find_plugin(group, name)
    return _STYLE_CLS[k]

_STYLES = {}
def mk_style_cached(cfg):
    k = sx(cfg[:6])
    if k not in _STYLES:
        _STYLES[k] = mk_style(cfg)
    return _STYLES[k]

def mk_style(cfg):
    _speedup()
    find_plugin = _plugin
    cls = find_plugin('pybtex.style.formatting', FSTYLES[cfg[0]])
    pick = lambda o, names: names[o[0]] if o else None
    return cls(label_style=pick(cfg[1], LABELS), sorting_style=pick(cfg[2], SORTS), name_style=pick(cfg[3], NAMES),
               abbreviate_names=bool(cfg[4]), min_crossrefs=cfg[5])

def resolved_cfg(cfg):
    ds, dl = STYLE_DEFAULTS[cfg[0]]
    return [cfg[2][0] if cfg[2] else ds, cfg[1][0] if cfg[1] else dl, cfg[3][0] if cfg[3] else 0, cfg[4], cfg[5], cfg[6]]

class Strict:
    def __init__(self, strict): self.strict = strict
    def __enter__(self):
        import pybtex.errors as E
        self.old = (E.strict, E.captured_errors)
        E.strict = True
        E.captured_errors = None if self.strict else []
    def __exit__(self, *a):
        import pybtex.errors as E
        E.strict, E.captured_errors = self.old

def classify(f):
    """run f; encode like the model's tres"""
    from pybtex.exceptions import PybtexError
    from pybtex.style.template import FieldIsMissing
    try:
        return [0, f()]
    except FieldIsMissing as e:
        fld = getattr(e, 'field_name', None)
        return [1, norm(fld) if isinstance(fld, str) else [], norm(str(e))]
    except PybtexError:
        return [1]
    except RecursionError:
        return [2]
    except Exception:
        return [2]

BACKENDS = ['latex', 'html', 'text', 'markdown']
_BOBJ = {}
def _backend_obj(b):
    if b not in _BOBJ:
        _BOBJ[b] = _plugin('pybtex.backends', b)()
    return _BOBJ[b]
def impl_bibliography(arg):
    cfg, db, cites = arg[0], arg[1], arg[2]
    def run():
        with Strict(bool(cfg[6])):
            bd = mk_db(db)
            style = mk_style_cached(cfg)
            fb = style.format_bibliography(bd, [S(c) for c in cites[0]] if cites else None)
            out = []
            extra = []
            for e in fb.entries:
                out.append([norm(e.key), norm(e.label), cflat_of(e.text)])
                rend = []
                for b in BACKENDS:
                    try:
                        rend.append(e.text.render(_backend_obj(b)))
                    except Exception as ex:
                        rend.append(None)
                extra.append(rend)
            import io
            whole = []
            for b in BACKENDS:
                try:
                    st = io.StringIO()
                    _backend_obj(b).write_to_stream(fb, st)
                    whole.append(st.getvalue())
                except Exception as ex:
                    whole.append(None)
            return out, extra, whole
    r = classify(run)
    if r[0] == 0:
        return [0, r[1][0], r[1][1], r[1][2]]
    return r

def impl_eval(arg):
    tree, ent, db, lastfirst, abbr = arg
    def run():
        node = build_node(tree)
        bd = mk_db(db[0]) if db else None
        e = mk_entry(ent); e.key = S(ent[0])
        style = mk_style_cached([0, [], [], [lastfirst], abbr, 2, 1])
        ctx = {'entry': e, 'style': style, 'bib_data': bd}
        v = node.format_data(ctx) if hasattr(node, 'format_data') else node
        return [] if v is None else cflat_of(v)
    return classify(run)

def impl_alpha_labels(arg):
    def run():
        from pybtex.style.labels.alpha import LabelStyle
        es = []
        for e in arg[0]:
            x = mk_entry(e); x.key = S(e[0]); es.append(x)
        return [norm(l) for l in LabelStyle().format_labels(es)]
    return call_impl(run)

def impl_alpha_label(arg):
    def run():
        from pybtex.style.labels.alpha import LabelStyle
        x = mk_entry(arg[0]); x.key = S(arg[0][0])
        return norm(LabelStyle().format_label(x))
    return call_impl(run)

def impl_sort(arg):
    def run():
        st = _plugin('pybtex.style.sorting', SORTS[arg[1]])()
        ayt = _plugin('pybtex.style.sorting', 'author_year_title')()
        es = []
        for e in arg[0]:
            x = mk_entry(e); x.key = S(e[0]); es.append(x)
        return [[norm(x.key)] + [norm(k) for k in ayt.sorting_key(x)] for x in st.sort(es)]
    return call_impl(run)

def impl_name(arg):
    def run():
        ns = _plugin('pybtex.style.names', NAMES[arg[1]])()
        return cflat_of(ns.format(mk_person(arg[0]), bool(arg[2])).format_data(None))
    return classify(run)

def impl_abbreviate(arg):
    from pybtex.textutils import abbreviate
    return call_impl(lambda: abbreviate(S(arg[0])))

def impl_from_latex(arg):
    def run():
        from pybtex.richtext import Text
        return cflat_of(Text.from_latex(S(arg[0])))
    return classify(run)

def impl_number_labels(arg):
    def run():
        from pybtex.style.labels.number import LabelStyle
        return [norm(l) for l in LabelStyle().format_labels([None] * arg[0])]
    return call_impl(run)

# ---- histories: consecutive calls in one process through the public entry points
# call = [entry point, cfg, db, citation mode]; the history carries one citation list that the caller re-uses
# entry points: 0 pybtex.format_from_string  1 PybtexEngine().format_from_string  2 pybtex.format_from_file
#               3 PybtexEngine().format_from_files([stream])  4 Style.format_bibliography(parsed database)
#               5 pybtex.make_bibliography(.aux file)   (call = [entry point, cfg, db, citation mode, citations])
# citation modes: 0 the default  1 a fresh ['*']  2 the caller's list object (re-used)  3 a tuple of it
#                 4 a fresh explicit list given with the call
# cfg[5] is the min_crossrefs the CALLER passes to the entry point; the model resolves with that value
def bib_of(db):
    out = []
    for e in db:
        fs = ['  %s = {%s}' % (S(k), S(v)) for k, v in e[2]]
        fs += ['  %s = {%s}' % (S(r), ' and '.join(spec_person_str(p) for p in ps)) for r, ps in e[3]]
        out.append('@%s{%s,\n%s\n}\n' % (S(e[1]), S(e[0]), ',\n'.join(fs)))
    return '\n'.join(out)

_PARSED = {}
def parsed_db(db):
    """the database as the .bib reader delivers it (unfiltered), in the encoding of fn 1"""
    k = sx(db)
    if k not in _PARSED:
        from pybtex.database import parse_string
        if len(_PARSED) > 3000:
            _PARSED.clear()
        with Strict(False):
            bd = parse_string(bib_of(db), 'bibtex')
        _PARSED[k] = norm([dump_entry(e) for e in bd.entries.values()])
    return _PARSED[k]

_REC = None
def rec_backend():
    global _REC
    if _REC is None:
        base = type(backend())
        class Rec(base):
            records = []
            default_suffix = '.out'
            def write_prologue(self): pass
            def write_epilogue(self): pass
            def write_entry(self, key, label, text):
                Rec.records.append([norm(key), norm(label), compact(text)])
        _REC = Rec
    return _REC

def history_cites(call, shared):
    """(model's citations option, python value) for a call"""
    ep, mode = call[0], call[3]
    if mode == 0:
        return (None if ep == 4 else [norm('*')])
    if mode == 1:
        return [norm('*')]
    if mode == 4:
        return call[4]
    return shared

def _entry_point_functions():
    import pybtex
    fs = [pybtex.format_from_string, pybtex.format_from_strings, pybtex.format_from_file, pybtex.format_from_files]
    for cls in (pybtex.Engine, pybtex.PybtexEngine):
        for n in ('format_from_string', 'format_from_strings', 'format_from_file', 'format_from_files', 'make_bibliography'):
            f = cls.__dict__.get(n)
            if f is not None:
                fs.append(f)
    return fs

def impl_history(arg):
    """a history starts from the state of a fresh process as far as default arguments go: the mutable defaults of
    the entry points are saved before and restored after, so that one history cannot contaminate the next case
    and a reported history replays on its own"""
    import copy
    saved = [(f, copy.deepcopy(f.__defaults__), copy.deepcopy(f.__kwdefaults__)) for f in _entry_point_functions()]
    try:
        return _impl_history(arg)
    finally:
        for f, d, k in saved:
            f.__defaults__ = d; f.__kwdefaults__ = k

def _impl_history(arg):
    import pybtex, io, os, tempfile, shutil
    shared_orig = [S(c) for c in arg[0]]
    shared = list(shared_orig)
    outs = []
    for call in arg[1]:
        ep, cfg, db, mode = call[:4]
        Rec = rec_backend()
        del Rec.records[:]
        text = bib_of(db)
        kw = {}
        if mode == 1: kw['citations'] = ['*']
        elif mode == 2: kw['citations'] = shared
        elif mode == 3: kw['citations'] = tuple(shared)
        elif mode == 4: kw['citations'] = [S(c) for c in call[4]]
        def run():
            with Strict(bool(cfg[6])):
                _speedup()
                if ep == 4:
                    from pybtex.database import parse_string
                    bd = parse_string(text, 'bibtex')
                    fb = mk_style(cfg).format_bibliography(bd, **kw)
                    Rec('utf-8').write_to_stream(fb, io.StringIO())
                else:
                    pick = lambda o, names: names[o[0]] if o else None
                    opts = dict(style=FSTYLES[cfg[0]], label_style=pick(cfg[1], LABELS), sorting_style=pick(cfg[2], SORTS),
                                name_style=pick(cfg[3], NAMES), abbreviate_names=bool(cfg[4]), min_crossrefs=cfg[5],
                                output_backend=Rec, bib_format='bibtex')
                    opts.update(kw)
                    if ep == 5:
                        d = tempfile.mkdtemp()
                        try:
                            with open(os.path.join(d, 'h.bib'), 'w', encoding='utf-8') as f:
                                f.write(text)
                            cs = kw.get('citations', ['*'])
                            with open(os.path.join(d, 'h.aux'), 'w', encoding='utf-8') as f:
                                f.write('\\relax\n' + ''.join('\\citation{%s}\n' % c for c in cs)
                                        + '\\bibdata{%s}\n\\bibstyle{%s}\n' % (os.path.join(d, 'h'), FSTYLES[cfg[0]]))
                            o2 = {k: v for k, v in opts.items() if k not in ('citations', 'bib_format', 'style')}
                            pybtex.make_bibliography(os.path.join(d, 'h.aux'), **o2)
                        finally:
                            shutil.rmtree(d, ignore_errors=True)
                    elif ep == 0: pybtex.format_from_string(text, **opts)
                    elif ep == 1: pybtex.PybtexEngine().format_from_string(text, **opts)
                    elif ep == 3: pybtex.PybtexEngine().format_from_files([io.StringIO(text)], **opts)
                    else:
                        d = tempfile.mkdtemp()
                        try:
                            fn = os.path.join(d, 'h.bib')
                            with open(fn, 'w', encoding='utf-8') as f:
                                f.write(text)
                            pybtex.format_from_file(fn, **opts)
                        finally:
                            shutil.rmtree(d, ignore_errors=True)
                return [list(r) for r in Rec.records]
        r = classify(run)
        outs.append([r, 1 if shared == shared_orig else 0])
    return outs

P_SCH = ('T', ('L', 'S'), ('L', 'S'), ('L', 'S'), ('L', 'S'), ('L', 'S'))
E_SCH = ('T', 'X', 'X', ('L', ('T', 'X', 'S')), ('L', ('T', 'X', ('L', P_SCH))))
FUNCS = {
    1: ('BaseStyle.format_bibliography', impl_bibliography, ('T', 'X', ('L', E_SCH), ('O', ('L', 'S')))),
    2: ('Node.format_data', impl_eval, ('T', 'X', E_SCH, ('O', ('L', E_SCH)), 'B', 'B')),
    3: ('labels.alpha.LabelStyle.format_labels', impl_alpha_labels, ('T', ('L', E_SCH))),
    4: ('SortingStyle.sort/sorting_key', impl_sort, ('T', ('L', E_SCH), 'X')),
    5: ('NameStyle.format', impl_name, ('T', P_SCH, 'X', 'B')),
    6: ('textutils.abbreviate', impl_abbreviate, ('T', 'S')),
    7: ('Text.from_latex', impl_from_latex, ('T', 'S')),
    8: ('labels.number.LabelStyle.format_labels', impl_number_labels, ('T', 'N')),
    9: ('labels.alpha.LabelStyle.format_label', impl_alpha_label, ('T', E_SCH)),
    10: ('history of format_from_string / format_from_file(s) / Style.format_bibliography calls', impl_history,
         ('T', 'X', ('L', 'X'))),
}

# ------------------------------------------------------------------------------------------
# what the model is given in addition: the template trees the live style returns, the decode table
_TPL_CACHE = {}
def templates_for(cfg, db):
    k = (cfg[0], sx(db))
    if k not in _TPL_CACHE:
        if len(_TPL_CACHE) > 1500:
            _TPL_CACHE.clear()
        _TPL_CACHE[k] = _templates_for(cfg, db)
    return _TPL_CACHE[k]

def _templates_for(cfg, db):
    """[[key, [tree]?] ..] for every entry of the database"""
    out = []
    try:
        style = mk_style_cached([cfg[0], [], [], [], 0, 2, 1])     # the templates depend on the formatting style only
    except Exception:
        style = None
    for e in db:
        tree = []
        try:
            ent = mk_entry(e); ent.key = S(e[0])
            get = getattr(style, 'get_%s_template' % ent.type, None)
            if get is not None:
                tree = [dump_node(get(ent))]
        except Exception:
            tree = [[15]]
        out.append([e[0], tree])
    return out

def stored_entry(e):
    """the entry as the Entry object stores it (repeated field names / roles: dict semantics)"""
    if len(set(S(k).lower() for k, v in e[2])) == len(e[2]) and len(set(S(r).lower() for r, ps in e[3])) == len(e[3]):
        return [e[0], norm(S(e[1]).lower()), e[2], e[3]]
    return norm(dump_entry(mk_entry(e), S(e[0])))

def _model_arg(fn, arg):
    if fn == 10:
        out = []
        for call in arg[1]:
            ep, cfg, db, mode = call[:4]
            c = history_cites(call, arg[0])
            out.append(_model_arg(1, [cfg, parsed_db(db), [] if c is None else [c]]))
        return out
    if fn in (3, 4):
        return [[stored_entry(e) for e in arg[0]]] + arg[1:]
    if fn == 9:
        return [stored_entry(arg[0])]
    if fn == 1:
        cfg, db, cites = arg[0], [stored_entry(e) for e in arg[1]], arg[2]
        strs = [s for e in db for s in entry_strings(e)]
        # keys as the database stores them (first spelling wins; duplicates are reported by add_entry)
        return [resolved_cfg(cfg), db, cites, templates_for(cfg, db), dec_table(strs)]
    if fn == 2:
        tree, ent, db, lastfirst, abbr = arg
        ent = stored_entry(ent)
        db = [[stored_entry(e) for e in db[0]]] if db else db
        strs = list(entry_strings(ent)) + [s for e in (db[0] if db else []) for s in entry_strings(e)]
        return [tree, ent, db, dec_table(strs), lastfirst, abbr]
    if fn == 5:
        return [arg[0], arg[1], arg[2], dec_table([S(n) for part in arg[0] for n in part])]
    if fn == 7:
        return [arg[0], dec_table([S(arg[0])])]
    return arg

def canon(fn, out):
    """compared observables: outcome class; for FieldIsMissing the field and entry named (the property
    speaks of them); the message text and the back-end renderings are for the oracle only"""
    if fn == 10:
        return [[canon(1, c[0]), c[1]] for c in out]
    if not isinstance(out, list) or not out:
        return out
    if out[0] == 0:
        return [0, out[1]]
    if out[0] == 1:
        # FieldIsMissing: the field named; which entry the message names is checked by the oracle
        return out[:2] if len(out) >= 3 else [1]
    return out[:1]

# ------------------------------------------------------------------------------------------
# the oracle: the property itself, in plain Python, on the implementation's outputs
_DEC2 = {}
def _dec(s):
    if s not in _DEC2:
        import codecs, latexcodec  # noqa
        if len(_DEC2) > 200000:
            _DEC2.clear()
        try:
            _DEC2[s] = (codecs.decode(s, 'ulatex'), None)
        except Exception as e:
            _DEC2[s] = (None, e)
    d, e = _DEC2[s]
    if e is not None:
        raise e
    return d

def _balanced(s):
    lvl = 0
    for c in s:
        if c == '{': lvl += 1
        elif c == '}':
            lvl -= 1
            if lvl < 0: return False
    return lvl == 0

def _strip_braces(s): return s.replace('{', '').replace('}', '')

def _protected_segments(s):
    """contents of the top-level brace groups (inner braces removed)"""
    out = []; lvl = 0; cur = ''
    for c in s:
        if c == '{':
            lvl += 1
        elif c == '}':
            lvl -= 1
            if lvl == 0:
                out.append(cur); cur = ''
        elif lvl > 0:
            cur += c
    return [x for x in out if x]

def _get_ci(pairs, name):
    for k, v in pairs:
        if S(k).lower() == name.lower():
            return v
    return None

def spec_person_str(p):
    f, m, pl, l, j = [[S(n) for n in part] for part in p]
    return ', '.join(x for x in (' '.join(pl + l), ' '.join(j), ' '.join(f + m)) if x)

def spec_find_field(db, ent, name):
    """own fields, then the persons of that role, then along crossref; None when undefined"""
    seen = []
    while True:
        v = _get_ci(ent[2], name)
        if v is not None:
            return S(v)
        ps = _get_ci(ent[3], name)
        if ps is not None:
            return ' and '.join(spec_person_str(p) for p in ps)
        cr = _get_ci(ent[2], 'crossref')
        if db is None or cr is None or any(ent is e for e in seen):
            return None
        seen.append(ent)
        nxt = [e for e in db if S(e[0]).lower() == S(cr).lower()]
        if not nxt:
            return None
        ent = nxt[0]

class _Missing(Exception):
    def __init__(self, field): self.field = field
class _OutOfDomain(Exception):
    pass

def ref_eval(t, ent, db, live):
    """reference reading of a dumped template at the level of plain strings: which leaves are printed,
    which required field is missing.  Returns a str or None."""
    k = t[0]
    kids = lambda cs: [ref_eval(c, ent, db, live) for c in cs]
    if k == 0: return flat_plain(unFL(t[2]))
    if k == 1: return None
    if k in (2, 3, 13):
        cs = t[4] if k == 2 else t[2] if k == 3 else t[1]
        return ' '.join(p for p in kids(cs) if p)
    if k == 4: return ' '.join(p for p in kids(t[2]) if p)
    if k == 5:
        s = ' '.join(p for p in kids(t[5]) if p)
        return s
    if k in (6, 9):
        name = S(t[1])
        v = spec_find_field(db, ent, name)
        if v is None:
            if k == 9: return ''
            raise _Missing(name)
        if t[3]:
            txt = v
        else:
            try:
                d = _dec(v)
            except Exception:
                raise _OutOfDomain()
            if not _balanced(d):
                raise _OutOfDomain()
            txt = _strip_braces(d)
        live.append(('field', name, t[2], t[3], v))
        return txt
    if k == 7:
        ps = _get_ci(ent[3], S(t[1]))
        if ps is None:
            raise _Missing(S(t[1]))
        live.append(('names', S(t[1]), ps))
        words = []
        for p in ps:
            for part in p:
                for n in part:
                    try:
                        d = _dec(S(n))
                    except Exception:
                        raise _OutOfDomain()
                    if not _balanced(d):
                        raise _OutOfDomain()
                    words.append(_strip_braces(d))
        return ' '.join(w for w in words if w)
    if k == 8:
        mine = []
        try:
            vs = [ref_eval(c, ent, db, mine) for c in t[1]]
        except _Missing:
            return ''
        if any(v is None for v in vs):
            raise _OutOfDomain()
        live.extend(mine)
        return ''.join(vs)
    if k == 10 or k == 11:
        cs = t[2] if k == 10 else t[3]
        if k == 11 and t[1]:
            u = ref_eval(t[1][0], ent, db, [])
            if u is None: raise _OutOfDomain()
        vs = kids(cs)
        if any(v is None for v in vs) or (k == 11 and not t[1]):
            raise _OutOfDomain()
        return ''.join(vs)
    if k == 12:
        for c in t[1]:
            mine = []
            v = ref_eval(c, ent, db, mine)
            if v:
                live.extend(mine)
                return v
        return ''
    if k == 14:
        vs = kids(t[4])
        s = ' '.join(p for p in vs if p)
        return (flat_plain(unFL(t[1])) + s) if s else ''
    raise _OutOfDomain()

def spec_resolve(db, cites, mincross):
    """resolved citations: the citation list without case-insensitive repetitions, '*' standing for every
    database key not yet cited, then every entry cross-referenced by at least min_crossrefs cited entries and
    not cited itself; citations without a database entry are reported and dropped.
    Returns (keys as stored in the database, number of reports)"""
    keys = [S(e[0]) for e in db]
    low = {k.lower(): (k, e) for k, e in zip(keys, db)}
    cl = keys if cites is None else [S(c) for c in cites]
    out = []; seen = set()
    for c in cl:
        if c == '*':
            for k in keys:
                if k.lower() not in seen:
                    seen.add(k.lower()); out.append(k)
        elif c.lower() not in seen:
            seen.add(c.lower()); out.append(c)
    reports = 0
    cnt = {}
    extra = []
    citedset = set(seen)
    for c in out:
        if c.lower() not in low: continue
        cr = _get_ci(low[c.lower()][1][2], 'crossref')
        if cr is None: continue
        crl = S(cr).lower()
        if crl not in low:
            reports += 1; continue
        cnt[crl] = cnt.get(crl, 0) + 1
        if cnt[crl] >= mincross and crl not in citedset:
            citedset.add(crl); extra.append(low[crl][0])
    res = []
    for c in out + extra:
        if c.lower() in low: res.append(low[c.lower()][0])
        else: reports += 1
    return res, reports

def spec_sortkey(e):
    def pk(p):
        f, m, pl, l, j = [[S(n) for n in part] for part in p]
        return '  '.join([' '.join(pl + l), ' '.join(f + m), ' '.join(j)]).lower()
    def psk(ps): return '   '.join(pk(p) for p in ps)
    typ = S(e[1])
    au = _get_ci(e[3], 'author'); ed = _get_ci(e[3], 'editor')
    if typ in ('book', 'inbook'):
        ak = psk(au) if au else psk(ed) if ed else ''
    else:
        ak = psk(au) if au is not None else ''
    y = _get_ci(e[2], 'year'); t = _get_ci(e[2], 'title')
    return (ak, S(y) if y is not None else '', S(t) if t is not None else '')

def spec_alpha_base(e):
    """BibTeX alpha label without the disambiguating suffix (alpha.bst calc.label, with pybtex's documented
    simplifications: key prefixes by plain characters, last two characters of the year)"""
    def abbr(s):
        return ''.join((p[0] + '.') if p.isalpha() else p for p in re.split(r'([\s\-])', s))
    def alnum(parts): return re.sub('[^A-Za-z0-9]+', '', ''.join(parts))
    def labnames(ps):
        n = len(ps)
        def one(p): return alnum(abbr(S(x)) for x in p[2] + p[3])
        if n > 1:
            take = 3 if n > 4 else n
            r = ''
            for i in range(take):
                if i == n - 1 and spec_person_str(ps[i]) == 'others': r += '+'
                else: r += one(ps[i])
            return r + ('+' if n > 4 else '')
        r = one(ps[0])
        return alnum(S(x) for x in ps[0][3])[:3] if len(r) < 2 else r
    typ = S(e[1]); key = S(e[0])
    au = _get_ci(e[3], 'author'); ed = _get_ci(e[3], 'editor')
    fk = _get_ci(e[2], 'key'); org = _get_ci(e[2], 'organization')
    def keyl(): return S(fk)[:3] if fk is not None else key[:3]
    def orgl():
        if fk is not None: return S(fk)[:3]
        if org is None: return key[:3]
        o = S(org)
        return o[4:] if o.startswith('The ') else o
    if typ in ('book', 'inbook'):
        l = labnames(au) if au is not None else labnames(ed) if ed is not None else keyl()
    elif typ == 'proceedings':
        l = labnames(ed) if ed is not None else orgl()
    elif typ == 'manual':
        l = labnames(au) if au is not None else orgl()
    else:
        l = labnames(au) if au is not None else keyl()
    y = _get_ci(e[2], 'year')
    return l + (S(y)[-2:] if y is not None else '')

TYPES = ['article', 'book', 'booklet', 'dataset', 'inbook', 'incollection', 'inproceedings', 'manual', 'mastersthesis',
         'misc', 'online', 'patent', 'phdthesis', 'proceedings', 'software', 'techreport', 'unpublished']

def _well_formed(db):
    """inside the property's quantifier: supported types, decodable balanced values, non-empty person lists"""
    if len(set(S(e[0]).lower() for e in db)) != len(db):
        return False
    for e in db:
        if S(e[1]) not in TYPES:
            return False
        if len(set(S(k).lower() for k, v in e[2])) != len(e[2]) or len(set(S(r).lower() for r, ps in e[3])) != len(e[3]):
            return False
        for r, ps in e[3]:
            if not ps:
                return False
        for s in entry_strings(e):
            try:
                d = _dec(s)
            except Exception:
                return False
            if not _balanced(d):
                return False
    return True

def _contains_folded(text, frag, dash):
    t = text.lower()
    if not dash:
        return frag.lower() in t
    pos = 0
    for piece in re.split(r'-+', frag.lower()):
        i = t.find(piece, pos)
        if i < 0:
            return False
        pos = i + len(piece)
    return True

def oracle_bib(arg, out):
    cfg, db, cites = arg[0], arg[1], arg[2]
    rc = resolved_cfg(cfg)
    sort_ayt, lab_alpha, strict = rc[0], rc[1], rc[5]
    if not _well_formed(db):
        return None
    keys, nrep = spec_resolve(db, None if not cites else cites[0], cfg[5])
    if nrep:
        if strict:
            return None if out[0] == 1 else 'a citation problem was not reported as a pybtex error in strict mode'
    byk = {S(e[0]): e for e in db}
    ents = [byk[k] for k in keys]
    if sort_ayt:
        ents = sorted(ents, key=spec_sortkey)
    try:
        trees = {S(k): (t[0] if t else None) for k, t in templates_for(cfg, db)}
    except Exception:
        return None
    # reference reading of each entry, in output order
    refs = []
    first_missing = None
    for e in ents:
        t = trees.get(S(e[0]))
        if t is None:
            return None
        live = []
        try:
            ref_eval(t, e, db, live)
            refs.append(live)
        except _Missing as m:
            first_missing = (m.field, S(e[0])); break
        except _OutOfDomain:
            return None
    if lab_alpha and any(not ps for e in ents for r, ps in e[3]):
        return None
    if first_missing:
        if out[0] == 1 and len(out) >= 3 and S(out[1]) == first_missing[0] \
           and first_missing[0] in S(out[2]) and first_missing[1] in S(out[2]):
            return None
        return 'required field %r of entry %r is missing but no pybtex error naming both was raised (got %s)' % (
            first_missing[0], first_missing[1], 'the error %r' % (S(out[2]),) if out[0] == 1 and len(out) >= 3 else {0: 'a bibliography', 1: 'another pybtex error', 2: 'a foreign exception'}.get(out[0]))
    if out[0] != 0:
        return 'no bibliography produced for a well-formed database with all required fields: %s' % (
            'pybtex error' + (' %r' % (S(out[2]),) if len(out) >= 3 else '') if out[0] == 1 else 'foreign exception')
    res = [[r[0], r[1], expand(r[2])] for r in out[1]]
    rend = out[2] if len(out) > 2 else None
    got = [S(r[0]) for r in res]
    want = [S(e[0]) for e in ents]
    if len(got) != len(want):
        return 'expected one formatted entry per resolved citation (%d), got %d' % (len(want), len(got))
    if sorted(got) != sorted(want):
        return 'formatted entries %r are not the resolved citations %r' % (got, want)
    if got != want:
        return 'formatted entries are in order %r, the %s order is %r' % (got, SORTS[sort_ayt], want)
    if len(out) > 3:
        for b, w in zip(BACKENDS, out[3]):
            if w is None:
                return 'backend %s failed to write the bibliography of %d entries' % (b, len(res))
    labels = [S(r[1]) for r in res]
    if not lab_alpha:
        if labels != [str(i + 1) for i in range(len(res))]:
            return 'number labels are %r, expected 1..%d in order' % (labels, len(res))
    else:
        base = [spec_alpha_base(e) for e in ents]
        seen = {}
        for b, l in zip(base, labels):
            if base.count(b) == 1:
                exp = b
            else:
                exp = b + chr(ord('a') + seen.get(b, 0)); seen[b] = seen.get(b, 0) + 1
            if l != exp:
                return 'alpha label %r, expected %r (base labels %r)' % (l, exp, base)
    if len(set(labels)) != len(labels):
        return 'labels are not pairwise distinct: %r' % (labels,)
    for idx, (e, r, live) in enumerate(zip(ents, res, refs)):
        text = flat_plain(r[2])
        key = S(e[0])
        for leaf in live:
            if leaf[0] == 'field':
                _, name, af, raw, v = leaf
                frag = v if raw else _strip_braces(_dec(v))
                # the decoded value is normalised by the parser only through brace removal
                if not _contains_folded(text, frag, af in (5, 9)):
                    return 'field %r of %r (%r) does not appear in the rendered text %r' % (name, key, v, text)
                if not raw:
                    for seg in _protected_segments(_dec(v)):
                        if seg not in text:
                            return 'brace-protected text %r of field %r of %r changed case in %r' % (seg, name, key, text)
            else:
                for p in leaf[2]:
                    for n in p[3]:
                        w = _strip_braces(_dec(S(n)))
                        if w.lower() not in text.lower():
                            return 'last name %r of %r does not appear in the rendered text %r' % (w, key, text)
        f = r[2]
        if not f:
            return 'entry %r renders as empty text: it does not end with a sentence terminator' % key
        last = f[-1][0]
        if not (last[0] == 0 and chr(last[1]) in '.?!'):
            return 'entry %r does not end with a sentence terminator: %r' % (key, text)
        if rend is not None:
            for b, s in zip(BACKENDS, rend[idx]):
                if s is None:
                    return 'backend %s failed to render entry %r' % (b, key)
            ptxt = rend[idx][BACKENDS.index('text')]
            if not ptxt.rstrip('\n').endswith(('.', '?', '!')):
                return 'text backend output of %r does not end with a sentence terminator: %r' % (key, ptxt)
    return None

def spec_abbreviate_token(tok):
    """first letter and a period for every piece (between whitespace / hyphens) that consists of letters"""
    return ''.join((p[0] + '.') if p.isalpha() else p for p in re.split(r'([\s\-])', tok))

def oracle_name(arg, out):
    """name_tokens_emitted on the implementation: every name token of the person, abbreviated (first and middle
    names, when asked) or in full, appears in the style's order with only spaces, ties and ", " around"""
    p, lastfirst, abbr = arg
    toks = []
    try:
        parts = [[_dec(S(n)) for n in part] for part in p]
    except Exception:
        return None
    if not all(_balanced(n) for part in parts for n in part):
        return None
    if out[0] != 0:
        return 'formatting a well-formed name raised'
    f, m, pl, l, j = [[_strip_braces(n) for n in part] for part in parts]
    if any(('{' in S(n) or '}' in S(n)) for part in p[:2] for n in part) and abbr:
        return None      # abbreviation of brace-protected letters: left to the correspondence
    fm = [spec_abbreviate_token(t) if abbr else t for t in f + m]
    order = (pl + l + j + fm) if lastfirst else (fm + pl + l + j)
    atoms = [chr(a[1]) if a[0] == 0 else '<%s>' % S(a[1]) for a, ms in expand(out[1])]
    seps = (' ', ',', '<nbsp>')
    def go(i, k):
        if k == len(order):
            return all(a in seps for a in atoms[i:])
        t = order[k]
        j0 = i
        while True:
            if atoms[j0:j0 + len(t)] == list(t) and go(j0 + len(t), k + 1):
                return True
            if j0 < len(atoms) and atoms[j0] in seps:
                j0 += 1
            else:
                return False
    if not go(0, 0):
        return 'name tokens %r do not appear in this order with only separators around in %r' % (order, ''.join(atoms))
    return None

def oracle_history(arg, out):
    """each call of a history is judged as that call alone; the caller's citation list stays as it was"""
    for k, (call, (r, unchanged)) in enumerate(zip(arg[1], out)):
        ep, cfg, db, mode = call[:4]
        c = history_cites(call, arg[0])
        m = oracle_bib([cfg, parsed_db(db), [] if c is None else [c]], r)
        if m:
            return 'call %d of the history (entry point %d, citation mode %d): %s' % (k + 1, ep, mode, m)
        if not unchanged:
            return 'call %d of the history modified the caller\'s citation list' % (k + 1)
    return None

def oracle(fn, arg, out):
    if fn == 10:
        return oracle_history(arg, out)
    if fn == 1:
        return oracle_bib(arg, out)
    if fn == 5:
        return oracle_name(arg, out)
    if fn == 8:
        if out[0] != 0 or [S(x) for x in out[1]] != [str(i + 1) for i in range(arg[0])]:
            return 'number labels are not 1..n'
        return None
    if fn == 3:
        es = arg[0]
        if any(not ps for e in es for r, ps in e[3]):
            return None
        if out[0] != 0:
            return 'alpha labels raised'
        labels = [S(x) for x in out[1]]
        if len(set(labels)) != len(labels):
            return 'labels are not pairwise distinct: %r' % (labels,)
        return None
    if fn == 4 and arg[1] == 1:
        if out[0] != 0:
            return 'sorting raised'
        byk = {S(e[0]): e for e in arg[0]}
        if len(byk) != len(arg[0]):
            return None
        want = [S(e[0]) for e in sorted(arg[0], key=spec_sortkey)]
        got = [S(r[0]) for r in out[1]]
        if got != want:
            return 'sorted order %r, expected (author/editor, year, title; stable) %r' % (got, want)
    return None

# ------------------------------------------------------------------------------------------
# known findings
def _bases_of(entries):
    return [spec_alpha_base(e) for e in entries]

def _f12(kind, fn, arg, detail):
    """alpha suffix collision: a base label that occurs once equals a repeated base label plus one of the
    suffix letters handed out for it"""
    if kind != 'oracle' or fn not in (1, 3) or not str(detail).startswith('labels are not pairwise distinct'):
        return False
    if fn == 3:
        ents = arg[0]
    else:
        keys, _ = spec_resolve(arg[1], None if not arg[2] else arg[2][0], arg[0][5])
        byk = {S(e[0]): e for e in arg[1]}
        ents = [byk[k] for k in keys]
    bases = _bases_of(ents)
    for b in set(bases):
        n = bases.count(b)
        if n >= 2:
            for k in range(n):
                if bases.count(b + chr(97 + k)) == 1:
                    return True
    return False

def _f24(kind, fn, arg, detail):
    """an entry none of whose printable fields is present renders as the empty text"""
    if kind != 'oracle' or fn != 1:
        return False
    m = re.match(r"entry '(.*)' renders as empty text", str(detail))
    if not m:
        return False
    cfg, db = arg[0], arg[1]
    trees = {S(k): (t[0] if t else None) for k, t in templates_for(cfg, db)}
    for e in db:
        if S(e[0]) == m.group(1):
            try:
                return ref_eval(trees[S(e[0])], e, db, []) == ''
            except Exception:
                return False
    return False

def _f27(kind, fn, arg, detail):
    """inproceedings / incollection whose whole "In ..." block is empty (booktitle and year present but
    empty, nothing else in the block): the rendering ends with the bare word In"""
    if kind != 'oracle' or fn != 1:
        return False
    m = re.match(r"entry '(.*)' does not end with a sentence terminator: '(.*)'$", str(detail), flags=re.S)
    if not m:
        return False
    text = m.group(2)
    if not (text == 'In' or text.endswith('<newblock>In')):
        return False
    for e in arg[1]:
        if S(e[0]) == m.group(1):
            if S(e[1]) not in ('inproceedings', 'incollection'):
                return False
            bt = _get_ci(e[2], 'booktitle')
            try:
                return bt is not None and _strip_braces(_dec(S(bt))) == ''
            except Exception:
                return False
    return False

def _f30_shape(kind, fn, arg, detail):
    """the same finding seen structurally: the bare literal 'In' of the inproceedings / incollection templates"""
    return (kind == 'extra' and fn == 'template_blocks_are_sentences' and isinstance(arg, dict)
            and arg.get('type') in ('inproceedings', 'incollection') and arg.get('offender') == "literal 'In'")

KNOWN_SIGNATURES = {'F12': _f12, 'F24': _f24, 'F30': lambda *a: _f27(*a) or _f30_shape(*a)}

# ------------------------------------------------------------------------------------------
# structural check of the dumped templates: every block an entry can end with is a sentence
NODE_NAMES = {4: 'together', 6: 'field', 7: 'names', 9: 'optional_field', 10: 'tag', 11: 'href', 14: 'name_part', 15: 'unknown node'}
def shape_offenders(t, ent):
    """the parts of a dumped tree whose value need not be empty or end with . ? ! although the entry can end with them"""
    k = t[0]
    if k == 0:
        txt = flat_plain(unFL(t[2]))
        return [] if (txt == '' or txt[-1] in '.?!') else ['literal %r' % txt]
    if k == 1:
        return []
    if k == 5:
        return [] if t[3] else ['sentence(add_period=False)']
    if k in (2, 3, 13, 8, 12):
        cs = t[4] if k == 2 else t[2] if k == 3 else t[1]
        return [o for c in cs for o in shape_offenders(c, ent)]
    if k in (6, 7) and _get_ci(ent[3] if k == 7 else ent[2], S(t[1])) is None and (k == 7 or _get_ci(ent[3], S(t[1])) is None):
        return []          # raises FieldIsMissing for this entry: it cannot be the end of a rendered entry
    if k in (6, 9, 7):
        return ['%s(%r)' % (NODE_NAMES[k], S(t[1]))]
    return [NODE_NAMES.get(k, 'node %d' % k)]

def extra_checks(ck, tier, rng):
    fails = []; n = 0
    seen = set()
    for fs in range(4):
        cfg = norm([fs, None, None, None, 0, 2, 1])
        for typ in TYPES:
            fnames, froles = type_fields(typ)
            for eds, auth in ((1, 1), (2, 1), (0, 1), (1, 0), (0, 0)):
                pers = ([['editor', [P(last=['E'])] * eds]] if eds else []) + ([['author', [P(last=['A'])]]] if auth else [])
                e = norm(['k', typ, [[f, 'v'] for f in fnames], pers])
                t = _templates_for(cfg, [e])[0][1]
                n += 1
                if not t:
                    continue
                for off in shape_offenders(t[0], e):
                    key = (typ, off)
                    if key in seen:
                        continue
                    seen.add(key)
                    fails.append(({'style': FSTYLES[fs], 'type': typ, 'offender': off},
                                  'the %s template of %s can end with %s, which is not inside a sentence: an entry whose last '
                                  'non-empty part it is does not end with a sentence terminator' % (typ, FSTYLES[fs], off), False))
    yield {'name': 'template_blocks_are_sentences', 'evaluations': n, 'failures': fails,
           'info': 'every part of every dumped entry template that can be the last non-empty part of the entry is a sentence(add_period=True) (or a literal ending in . ? !)'}


def replay_known(finding):
    p = finding.get('pinned')
    if not p:
        return None
    arg = norm(p['arg'])
    out = FUNCS[p['fn']][1](arg)
    msg = oracle(p['fn'], arg, out)
    return msg

# ------------------------------------------------------------------------------------------
# generators
def P(first=(), middle=(), prelast=(), last=(), lineage=()):
    return [list(first), list(middle), list(prelast), list(last), list(lineage)]

FIRSTS = ['John', 'J.', 'Jean-Paul', 'A', '{Hans}', 'mary', 'Xi', 'Ch{r}is', 'E. T.']
MIDDLES = ['Q.', 'Xavier', 'R', 'van']
PRELASTS = ['von', 'de', 'la', 'Van', 'd']
LASTS = ['Smith', 'Berg', 'McDonald', "O'Neil", '{AB}c', 'Li', 'a', 'Ba', 'B', 'A', 'Zed-Why', 'smith', '{\\O}re'[:0] + 'Ore']
LINEAGES = ['Jr', 'III', 'jr.']
WORDS = ['alpha', 'Beta', 'GAMMA', '{Delta}', 'e{P}silon', 'x-y', 'a--b', 'end.', 'what?', 'Wow!', 'of', 'a', '12', '3', 'IV',
         'The', '{A {B} c}', 'ab{}', 'Q', 'zeta:', '(eta)', 'A.', '"no."', '(cite!)', 'why?]', 'é'[:0] + 'Theta', "it's", '{}', 'p,q']
PAGES = ['12--34', '5-7', '9', '1---2', '-3', 'x{-}y', '4-', '10--', '', 'iv-ix', '{1-2}-3',
         '3-7,21-30,44', '1-2-3', '10-12, 15-17', '5+', '12+-14', 'a-b-c-d', '7-9 + 11-13']
YEARS = ['1999', '99', '2001a', '', 'n.d.', '2000', '1', '{1984}', '1999']
ROLES = ['author', 'editor']
ALLFIELDS = ['title', 'journal', 'volume', 'number', 'pages', 'month', 'year', 'note', 'url', 'urldate', 'eprint', 'pubmed', 'doi',
             'isbn', 'publisher', 'address', 'edition', 'series', 'chapter', 'booktitle', 'organization', 'howpublished', 'school',
             'type', 'institution', 'key']

def rand_person(rng, simple=False):
    if rng.random() < 0.04:
        return P(last=['others'])
    f = [rng.choice(FIRSTS) for _ in range(rng.choice([0, 1, 1, 1, 2]))]
    m = [rng.choice(MIDDLES) for _ in range(rng.choice([0, 0, 0, 1, 2]))]
    pl = [rng.choice(PRELASTS) for _ in range(rng.choice([0, 0, 0, 1, 2]))]
    l = [rng.choice(LASTS) for _ in range(rng.choice([1, 1, 1, 1, 2, 3]))]
    j = [rng.choice(LINEAGES) for _ in range(rng.choice([0, 0, 0, 0, 1]))]
    return P(f, m, pl, l, j)

def rand_value(rng, field):
    if field == 'pages':
        return rng.choice(PAGES)
    if field == 'year':
        return rng.choice(YEARS)
    if field in ('volume', 'number', 'chapter'):
        return rng.choice(['1', '12', '123', 'IV', 'x', '', '3a', '{12}'])
    if field in ('url', 'doi', 'eprint', 'pubmed'):
        return rng.choice(['http://a.b/c', '10.1/x-y', '1234.5678', 'x', 'A_b'])
    if field == 'key':
        return rng.choice(['Key', 'ab', 'ABCD', 'x y z', ''])
    if field == 'organization' and rng.random() < 0.4:
        return rng.choice(['The Org', 'The ', 'Theory', 'ACM'])
    n = rng.choice([1, 1, 2, 2, 3, 4])
    return ' '.join(rng.choice(WORDS) for _ in range(n))

def spell(rng, name):
    r = rng.random()
    if r < 0.9: return name
    if r < 0.95: return name.upper()
    return name.capitalize()

_TYPE_FIELDS = {}
def type_fields(typ):
    """the fields and roles the dumped templates of a type read (over the variants with/without editor)"""
    if typ in _TYPE_FIELDS:
        return _TYPE_FIELDS[typ]
    names = set(); roles = set()
    def walk(t):
        if t[0] in (6, 9): names.add(S(t[1]))
        elif t[0] == 7: roles.add(S(t[1]))
        for x in t[1:]:
            if isinstance(x, list):
                for y in x:
                    if isinstance(y, list) and y and isinstance(y[0], int) and y[0] <= 15 and len(y) > 1 and isinstance(y[-1], (list, int)):
                        try: walk(y)
                        except Exception: pass
    cfg = norm([0, None, None, None, 0, 2, 1])
    for eds in (0, 1, 2):
        e = norm(['k', typ, [], [['editor', [P(last=['E'])] * eds]] if eds else []])
        for k, t in templates_for(cfg, [e]):
            if t:
                _walk_tree(t[0], names, roles)
    _TYPE_FIELDS[typ] = (sorted(names), sorted(roles))
    return _TYPE_FIELDS[typ]

def _walk_tree(t, names, roles):
    k = t[0]
    if k in (6, 9): names.add(S(t[1])); return
    if k == 7: roles.add(S(t[1])); return
    kids = {2: 4, 3: 2, 4: 2, 5: 5, 8: 1, 10: 2, 11: 3, 12: 1, 13: 1, 14: 4}.get(k)
    if k == 11 and t[1]:
        _walk_tree(t[1][0], names, roles)
    if kids is not None:
        for c in t[kids]:
            _walk_tree(c, names, roles)

def plain_value(rng, field):
    """a value that does not end with a sentence terminator"""
    if field == 'pages': return rng.choice(['12-15', '3-7,21-30,44', '9', '1-2-3', '5+'])
    if field == 'year': return rng.choice(['1999', '2001a'])
    if field in ('volume', 'number', 'chapter'): return rng.choice(['1', '12', 'IV'])
    if field in ('url', 'doi', 'eprint', 'pubmed'): return rng.choice(['http://a.b/c', '10.1/x-y', '1234'])
    # (values ending in a terminator followed by a closing quote / bracket are NOT terminated)
    return rng.choice(['alpha Beta', 'GAMMA of {Delta}', 'see e{P}silon', 'x-y', 'zeta (eta)', 'he said "no."', '(do not cite!)', "why?'", 'end.]'])

_BASES = {}
def minimal_base(typ):
    """(fields, roles, others): a minimal set of the fields / roles the type's templates read with which the entry
    renders (computed from the dumped trees by the reference reading), and the remaining ones"""
    if typ in _BASES:
        return _BASES[typ]
    fnames, froles = type_fields(typ)
    cfg = norm([0, None, None, None, 0, 2, 1])
    def ok(fl, rl):
        e = norm(['k', typ, [[f, 'v'] for f in fl], [[r, [P(last=['A'])]] for r in rl]])
        t = templates_for(cfg, [e])[0][1]
        if not t:
            return False
        try:
            ref_eval(t[0], e, [e], [])
            return True
        except _Missing:
            return False
        except _OutOfDomain:
            return False
    fl, rl = list(fnames), list(froles)
    if not ok(fl, rl):
        _BASES[typ] = ([], [], [])
        return _BASES[typ]
    for x in list(froles) + list(fnames):
        f2 = [f for f in fl if f != x]; r2 = [r for r in rl if r != x]
        if ok(f2, r2):
            fl, rl = f2, r2
    others = [f for f in fnames if f not in fl] + [r for r in froles if r not in rl]
    _BASES[typ] = (fl, rl, others)
    return _BASES[typ]

def rand_entry(rng, key, typ=None, present=None, proles=None, keys_for_xref=()):
    typ = typ or rng.choice(TYPES)
    fnames, froles = type_fields(typ) if typ in TYPES else (ALLFIELDS[:6], ROLES)
    if present is None:
        p = rng.choice([0.3, 0.6, 0.9, 1.0])
        present = [f for f in fnames if rng.random() < p]
        if rng.random() < 0.15:
            present.append('key')
    if proles is None:
        proles = [r for r in ROLES if rng.random() < (0.75 if r in froles else 0.15)]
    fields = [[spell(rng, f), rand_value(rng, f)] for f in present]
    if keys_for_xref and rng.random() < 0.35:
        fields.append(['crossref', rng.choice(keys_for_xref)])
    rng.shuffle(fields)
    persons = [[spell(rng, r), [rand_person(rng) for _ in range(rng.choice([1, 1, 2, 2, 3, 4, 5, 6]))]] for r in proles]
    return [key, typ, fields, persons]

def rand_cfg(rng, strict=None):
    o = lambda n: rng.choice([None, None] + [[i] for i in range(n)])
    return [rng.randrange(4), o(2), o(2), o(2), rng.randrange(2), rng.choice([2, 2, 2, 1, 3, 0]),
            (1 if rng.random() < 0.7 else 0) if strict is None else strict]

KEYS = ['smith99', 'Knuth', 'abc', 'Zeta', 'k1', 'k2', 'Xy', 'aB', 'lamport', 'parent', 'Q', 'book2']

def rand_db(rng, n):
    keys = rng.sample(KEYS, n)
    db = []
    for i, k in enumerate(keys):
        db.append(rand_entry(rng, k, keys_for_xref=[x for x in keys if x != k] if rng.random() < 0.5 else ()))
    return db

def rand_cites(rng, db, clean=False):
    keys = [e[0] for e in db]
    r = rng.random()
    if r < 0.2:
        return None
    n = rng.randint(0, len(keys) + 1)
    c = [rng.choice(keys) for _ in range(n)]
    if not clean:
        if rng.random() < 0.15: c.insert(rng.randint(0, len(c)), '*')
        if rng.random() < 0.1: c.insert(rng.randint(0, len(c)), 'nokey')
        if rng.random() < 0.1 and c: c.append(c[0].swapcase())
    return [c]

# generic trees for the engine itself (fn 2)
def L(s): return [0, 1, FL(s)]
def LR(f): return [0, 0, FL(f)]
def FLD(n, a=0, raw=0): return [6, n, a, raw]
def OFLD(n, a=0, raw=0): return [9, n, a, raw]
def JOIN(cs, sep='', sep2=None, last=None): return [2, FL(sep), [] if sep2 is None else [FL(sep2)], [] if last is None else [FL(last)], cs]
def SENT(cs, cf=0, cp=0, ap=1, sep=', '): return [5, cf, cp, ap, FL(sep), cs]
PROT = lambda s: [[[0, ord(c)], [[2]]] for c in s]
EM = lambda s: [[[0, ord(c)], [[0, norm('em')]]] for c in s]

def leaf_pool():
    return [L('x'), L(''), L('Ab'), L('abc.'), [1], FLD('a'), FLD('b'), FLD('zz'), OFLD('zz'), OFLD('a', 3), FLD('p', 5), FLD('a', 1),
            FLD('u', 0, 1), [7, norm('author'), FL(', '), [FL(' and ')], [FL(', and ')]], [7, norm('editor'), FL(', '), [], []],
            LR(fl_sym('nbsp')), LR(fl_str('q') + PROT('R') + EM('s!')), FLD('e'), OFLD('t', 4), L('no.)'), L('x?"')]

ENT2 = ['Key1', 'misc', [['a', 'hello {W}orld'], ['b', 'B?'], ['p', '1--2-3'], ['u', 'http://x/{y}'], ['e', ''], ['t', 'the Title'], ['crossref', 'par']],
        [['author', [P(['John'], ['Q.'], ['von'], ['Smith'], ['Jr']), P(['Ann'], [], [], ['Li'])]]]]
DB2 = [ENT2, ['par', 'book', [['zz', 'inherited'], ['crossref', 'Key1']], [['editor', [P(['Ed'], [], [], ['It-Or'])]]]]]

def wrap_kinds(cs):
    yield JOIN(cs); yield JOIN(cs, ', ', ' and ', ', and ')
    yield [3, FL(' '), cs]
    yield [4, 0, cs]; yield [4, 1, cs]
    yield SENT(cs); yield SENT(cs, 1, 0, 1, ' '); yield SENT(cs, 0, 1, 0)
    yield [8, cs]
    yield [10, norm('em'), cs]
    yield [11, [L('http://u')], 0, cs]
    yield [11, [FLD('u', 0, 1)], 1, cs]
    yield [12, cs]
    yield [13, cs]
    yield [14, FL(', '), 1, 0, cs]; yield [14, FL(''), 0, 0, cs]

def _gen(tier, rng):
    quick = tier == 'quick'
    cfg0 = [0, None, None, None, 0, 2, 1]
    # ---- pinned
    f12 = [['e1', 'misc', [], [['author', [P(last=['Aa']), P(last=['Bb'])]]]],
           ['e2', 'misc', [], [['author', [P(last=['Ax']), P(last=['By'])]]]],
           ['e3', 'misc', [], [['author', [P(last=['Ab']), P(last=['Bc']), P(last=['ab'])]]]]]
    yield ('pinned', 3, [f12])
    yield ('pinned', 1, [[3, None, None, None, 0, 2, 1], [[e[0], e[1], [['title', 'T']], e[3]] for e in f12], None])
    yield ('pinned', 1, [cfg0, [['k', 'misc', [], []]], None])                                   # F24
    yield ('pinned', 1, [cfg0, [['c', 'inbook', [['title', 'T'], ['crossref', 'p'], ['pages', '1--2']], [['author', [P(last=['A'])]]]],
                                ['p', 'book', [['publisher', 'Pub'], ['year', '2000'], ['title', 'PT']], [['editor', [P(last=['E'])]]]]], [['c']]])   # F5
    yield ('pinned', 1, [cfg0, [['a', 'misc', [['title', 'T']], []]], [['a', 'nokey']]])          # F26 strict
    yield ('pinned', 1, [[0, None, None, None, 0, 2, 0], [['a', 'misc', [['title', 'T']], []]], [['a', 'nokey']]])
    yield ('pinned', 1, [cfg0, [['a', 'article', [['title', 'T']], [['author', [P(last=['A'])]]]]], None])   # missing journal
    yield ('pinned', 1, [cfg0, [['a', 'misc', [['crossref', 'b']], []], ['b', 'misc', [['crossref', 'a']], []]], None])   # F4 cycle
    # n = 0: empty citation list, empty database (F31: the LaTeX back end writes an empty bibliography)
    one = [['a', 'misc', [['title', 'T']], []]]
    for st in (0, 1):
        for fs in range(4):
            c = [fs, None, None, None, 0, 2, st]
            yield ('pinned', 1, [c, [], None]); yield ('pinned', 1, [c, [], [[]]]); yield ('pinned', 1, [c, one, [[]]])
            yield ('pinned', 1, [c, [], [['x']]]); yield ('pinned', 1, [c, [], [['*']]])
    # FC14a (C14): a role inherited through crossref is seen by field() but not by names()
    fc14 = [['c', 'inbook', [['title', 'T'], ['crossref', 'p'], ['pages', '1--2']], []],
            ['p', 'book', [['publisher', 'Pub'], ['year', '2000'], ['title', 'PT']], [['editor', [P(last=['Ed'])]]]]]
    yield ('pinned', 1, [cfg0, fc14, [['c']]])
    yield ('pinned', 2, [FLD('editor'), fc14[0], [fc14], 0, 0])
    yield ('pinned', 2, [[7, norm('editor'), FL(', '), [], []], fc14[0], [fc14], 0, 0])
    # an entry that is not in the database, whose parents form a cycle (the fuel of find_field)
    ent3 = ['Other', 'misc', [['crossref', 'par']], []]
    for t in (FLD('zz'), FLD('nope'), OFLD('nope'), [12, [OFLD('nope'), L('x')]]):
        yield ('pinned', 2, [t, ent3, [DB2], 0, 0])
        yield ('pinned', 2, [t, ent3, [[['par', 'misc', [['crossref', 'par']], []]]], 0, 0])
    yield ('pinned', 1, [cfg0, [['k', 'inproceedings', [['title', 'T'], ['booktitle', ''], ['year', '']], [['author', [P(last=['A'])]]]]], None])   # F30
    yield ('pinned', 1, [cfg0, [['k', 'incollection', [['title', 'T'], ['booktitle', '{}'], ['year', ' ']], [['author', [P(last=['A'])]]]]], None])
    # ---- exhaustive small scope: string-level helpers
    for n in range(0, 6 if quick else 7):
        for s in itertools.product('aB -.', repeat=n):
            yield ('exhaustive_abbreviate', 6, [''.join(s)])
    for n in range(0, 7 if quick else 8):
        for s in itertools.product('a{}-', repeat=n):
            yield ('exhaustive_from_latex', 7, [''.join(s)])
    for s in ['a~b', '--', '---', "``q''", 'a  b', ' a', 'a%b', '\\', 'a\\', "\\'e", '$x$', '{\\"o}x', 'a\tb', 'a\nb']:
        yield ('latex_decode', 7, [s])
    for n in list(range(0, 30)) + [99, 100, 101, 999, 1000, 1234]:
        yield ('number_labels', 8, [n])
    # ---- exhaustive small scope: the combinators over a pool of children
    pool = leaf_pool()
    small = pool[:12]
    for k in range(0, 3):
        for cs in itertools.product(small if k == 2 else pool, repeat=k):
            for t in wrap_kinds(list(cs)):
                yield ('exhaustive_combinators', 2, [t, ENT2, [DB2], 0, 0])
    if not quick:
        for cs in itertools.product(pool[:8], repeat=3):
            for t in wrap_kinds(list(cs)):
                yield ('exhaustive_combinators', 2, [t, ENT2, [DB2], 0, 0])
    # nested random trees
    def rtree(d):
        if d == 0 or rng.random() < 0.25:
            return rng.choice(pool)
        cs = [rtree(d - 1) for _ in range(rng.choice([0, 1, 2, 2, 3, 4]))]
        return rng.choice(list(wrap_kinds(cs)))
    for i in range(2500 if quick else 12000):
        yield ('random_trees', 2, [rtree(3), ENT2, [DB2] if rng.random() < 0.8 else None, rng.randrange(2), rng.randrange(2)])
    # ---- names
    parts = [[], ['A'], ['Ab'], ['Abc'], ['Jean-Paul'], ['J.', 'R'], ['{Xy}', 'de', 'Zed'], ['a b'], ['x', 'y', 'z', 'w']]
    for f in parts:
        for l in parts[:7]:
            for pl in ([], ['von'], ['d'], ['de', 'la']):
                for j in ([], ['Jr'], ['II']):
                    for st in (0, 1):
                        for ab in (0, 1):
                            yield ('exhaustive_names', 5, [P(f[:1], f[1:], pl, l, j), st, ab])
    for i in range(600 if quick else 6000):
        yield ('random_names', 5, [rand_person(rng), rng.randrange(2), rng.randrange(2)])
    # ---- alpha labels / sorting on small databases
    lab_people = [P(last=['Aa']), P(last=['Bb']), P(last=['ab']), P(last=['A']), P(prelast=['von'], last=['Berg']), P(last=['others']),
                  P(last=['X-Y']), P(first=['F'], last=['{AB}c', 'D'])]
    lab_entries = []
    for ps in [[0, 1], [0, 1, 2], [3], [4], [0, 1, 2, 3, 4], [0, 5], [6], [7], [0, 1, 3, 3, 5], []]:
        for y in (None, '1999', '5'):
            for typ in ('misc', 'book', 'proceedings', 'manual'):
                role = 'editor' if typ == 'proceedings' else 'author'
                flds = ([] if y is None else [['year', y]])
                per = [[role, [lab_people[i] for i in ps]]] if ps else []
                lab_entries.append([typ, flds, per])
                if not ps:
                    lab_entries.append([typ, flds + [['key', 'KeY12']], []])
                    lab_entries.append([typ, flds + [['organization', 'The Org']], []])
                    lab_entries.append([typ, flds, [['editor', [lab_people[0], lab_people[1]]]]])
    for i, (typ, flds, per) in enumerate(lab_entries):
        yield ('exhaustive_label', 9, [['Key%d' % i, typ, flds, per]])
    for i in range(1500 if quick else 10000):
        n = rng.choice([1, 2, 3, 3, 4, 5, 6])
        es = []
        for j in range(n):
            typ, flds, per = rng.choice(lab_entries[:60] if rng.random() < 0.7 else lab_entries)
            es.append(['K%d' % j if rng.random() < 0.8 else 'Key', typ, flds + [['title', rng.choice(['T', 't', 'A b'])]], per])
        yield ('random_labels', 3, [es])
        yield ('random_sort', 4, [[rand_entry(rng, 'k%d' % j, present=rng.sample(['year', 'title'], rng.randint(0, 2))) for j in range(n)], rng.choice([0, 1, 1])]) if i % 2 == 0 else ('random_sort', 4, [es, 1])
    # ---- the seventeen types x patterns of present fields
    for typ in TYPES:
        fnames, froles = type_fields(typ)
        pats = []
        if len(fnames) <= 8 and not quick:
            for bits in itertools.product([0, 1], repeat=len(fnames)):
                pats.append([f for f, b in zip(fnames, bits) if b])
        else:
            pats.append(list(fnames)); pats.append([])
            for f in fnames:
                pats.append([x for x in fnames if x != f])
                pats.append([f])
            for _ in range(20 if quick else 500):
                p = rng.choice([0.3, 0.5, 0.7, 0.9])
                pats.append([f for f in fnames if rng.random() < p])
        for pat in pats:
            for proles in ([r for r in ROLES if r in froles], ['author'], ['editor'], []):
                if rng.random() < 0.5:
                    e = rand_entry(rng, rng.choice(KEYS), typ, pat, proles)
                    yield ('type_patterns', 1, [rand_cfg(rng, strict=1), [e], None])
    # ---- every type: the minimal set of fields that renders, plus each further field / role alone (thorough: pairs),
    #      with values that do not end in a terminator -- the terminator has to come from the template
    for typ in TYPES:
        base_f, base_r, others = minimal_base(typ)
        extras = [[x] for x in others]
        if not quick:
            extras += [[a, b] for i, a in enumerate(others) for b in others[i + 1:]]
        extras.append([])
        for ex in extras:
            fl = base_f + [x for x in ex if x not in ROLES]
            rl = base_r + [x for x in ex if x in ROLES]
            e = [rng.choice(KEYS), typ, [[f, plain_value(rng, f)] for f in fl],
                 [[r, [P(['Ann'], [], [], ['Author'])] * rng.choice([1, 2])] for r in rl]]
            yield ('type_base_plus_optional', 1, [rand_cfg(rng, strict=1), [e], None])
    # ---- random databases
    for i in range(1200 if quick else 6000):
        db = rand_db(rng, rng.choice([1, 2, 3, 3, 4, 5, 6]))
        if rng.random() < 0.6:
            # make required fields mostly present so that whole bibliographies are produced
            db = [[e[0], e[1], e[2] + [[f, rand_value(rng, f)] for f in type_fields(e[1])[0] if f not in [x[0].lower() for x in e[2]] and f not in ('crossref',) and rng.random() < 0.9],
                   e[3] + [[r, [rand_person(rng)]] for r in ROLES if r not in [x[0].lower() for x in e[3]]]] for e in db]
        yield ('random_db', 1, [rand_cfg(rng), db, rand_cites(rng, db)])
    # ---- histories of calls in one process
    def hist_entry(key, typ=None):
        e = rand_entry(rng, key, typ)
        e[2] = [[k.lower(), v] for k, v in e[2] if k.lower() not in ('crossref',)]
        seen = set(); e[2] = [kv for kv in e[2] if not (kv[0] in seen or seen.add(kv[0]))]
        e[3] = [[r.lower(), [q for q in ps if spec_person_str(q) != 'others'] or [P(last=['Solo'])]] for r, ps in e[3]]
        seen = set(); e[3] = [rp for rp in e[3] if not (rp[0] in seen or seen.add(rp[0]))]
        # make the required fields present so that whole bibliographies come out
        have = [k for k, v in e[2]]
        e[2] += [[f, rand_value(rng, f) or 'x'] for f in type_fields(e[1])[0] if f not in have and f != 'crossref']
        e[3] += [[r, [P(['Ann'], [], [], ['Author'])]] for r in ROLES if r not in [x[0] for x in e[3]]]
        return e
    for i in range(40 if quick else 600):
        ncalls = rng.choice([2, 2, 3])
        pools = [rng.sample(KEYS, rng.choice([1, 2, 3])) for _ in range(ncalls)]
        if rng.random() < 0.3:
            pools[1] = list(pools[0])
        shared = rng.sample(pools[0], rng.randint(1, len(pools[0])))
        calls = []
        for k in range(ncalls):
            db = [hist_entry(key) for key in pools[k]]
            mode = rng.choice([0, 0, 1, 2, 2, 3])
            if mode in (2, 3) and not all(c in pools[k] for c in shared):
                db += [hist_entry(key) for key in shared if key not in pools[k]]
            cfg = rand_cfg(rng, strict=1); cfg[5] = 2
            calls.append([rng.randrange(5), cfg, db, mode, []])
        yield ('history', 10, [shared, calls])
    for ep in range(5):
        d1 = [hist_entry('alpha1'), hist_entry('alpha2')]; d2 = [hist_entry('beta1')]
        c0 = [0, None, None, None, 0, 2, 1]
        yield ('history', 10, [['alpha1'], [[ep, c0, d1, 0, []], [ep, c0, d2, 0, []]]])
        yield ('history', 10, [['alpha1'], [[ep, c0, d1, 2, []], [ep, c0, d1, 2, []], [ep, c0, d1, 3, []]]])
    # min_crossrefs as the caller passes it to the entry point: parents referenced by 1, 2, 3 cited children
    def xref_db(nchildren):
        kids = ['kid%d' % j for j in range(nchildren)]
        db = []
        for k in kids:
            e = hist_entry(k, rng.choice(['inbook', 'incollection', 'inproceedings']))
            e[2].append(['crossref', 'Parent'])
            db.append(e)
        db.append(hist_entry('Parent', rng.choice(['book', 'proceedings'])))
        if rng.random() < 0.5:
            db.insert(0, hist_entry('loner'))
        return kids, db
    combos = [(ep, m, n, c) for ep in range(6) for m in (1, 2, 3) for n in (1, 2, 3) for c in range(1, n + 1)]
    rng.shuffle(combos)
    for (ep, m, n, c) in (combos[:36] if quick else combos + combos):
        calls = []
        for (m2, n2, c2) in ((m, n, c), (rng.choice([1, 2, 3]), rng.choice([1, 2, 3]), None)):
            kids, db = xref_db(n2)
            cited = rng.sample(kids, c2 if c2 else rng.randint(1, n2))
            if rng.random() < 0.3 and 'loner' in [e[0] for e in db]:
                cited.append('loner')
            cfg = rand_cfg(rng, strict=1); cfg[5] = m2
            calls.append([ep, cfg, db, 4, cited])
        yield ('history_min_crossrefs', 10, [[], calls])
    # ---- malformed
    for i in range(300 if quick else 2500):
        db = rand_db(rng, rng.choice([1, 2, 3]))
        e = rng.choice(db)
        r = rng.randrange(7)
        if r == 0: e[1] = rng.choice(['unknown', 'Article', 'BOOK', ''])
        elif r == 1: e[2].append(['note', rng.choice(['a{b', 'a}b', '}{', '{{x}'])])
        elif r == 2: e[2].append(['title', rng.choice(['a\\', '\\', 'x\\y z'])])
        elif r == 3: e[3] = [['author', []]]
        elif r == 4: e[2].append(['crossref', 'nowhere'])
        elif r == 5: e[3] = [['author', [P(last=['a{b'])]]]
        else: e[2] = [[k, ''] for k, v in e[2]]
        yield ('malformed', 1, [rand_cfg(rng), db, rand_cites(rng, db)])

# core computes model_arg sequentially in the main process (twice in the thorough tier): the generated
# cases are recorded, their model arguments are computed once in a fork pool and kept marshalled
_GEN_CASES = []
_MARG = None
_MARG_POS = 0

def gen(tier, rng):
    global _MARG, _MARG_POS
    del _GEN_CASES[:]
    _MARG = None; _MARG_POS = 0
    for stream, fn, arg in _gen(tier, rng):
        arg = norm(arg)
        _GEN_CASES.append((fn, arg))
        yield (stream, fn, arg)

def _marg_chunk(idx):
    import marshal, zlib
    return [zlib.compress(marshal.dumps(norm(_model_arg(*_GEN_CASES[i]))), 1) for i in idx]

def _precompute_margs():
    import multiprocessing as mp
    n = len(_GEN_CASES)
    procs = max(1, min(core.NPROC, n // 500))
    if procs <= 1:
        return _marg_chunk(range(n))
    chunks = [list(range(k, n, procs)) for k in range(procs)]
    with mp.get_context('fork').Pool(procs) as pool:
        outs = pool.map(_marg_chunk, chunks)
    res = [None] * n
    for k, o in enumerate(outs):
        for i, r in zip(range(k, n, procs), o):
            res[i] = r
    return res

def model_arg(fn, arg):
    global _MARG, _MARG_POS
    if _GEN_CASES:
        if _MARG is None:
            _MARG = _precompute_margs()
        i = _MARG_POS % len(_GEN_CASES)
        gfn, garg = _GEN_CASES[i]
        if gfn == fn and garg == arg:
            import marshal, zlib
            _MARG_POS += 1
            return marshal.loads(zlib.decompress(_MARG[i]))
    return _model_arg(fn, arg)

def describe(fn, arg):
    def ent(e):
        return {'key': S(e[0]), 'type': S(e[1]), 'fields': {S(k): S(v) for k, v in e[2]},
                'persons': {S(r): [spec_person_str(p) for p in ps] for r, ps in e[3]}}
    if fn == 1:
        c = arg[0]
        return {'style': FSTYLES[c[0]], 'label_style': LABELS[c[1][0]] if c[1] else None, 'sorting_style': SORTS[c[2][0]] if c[2] else None,
                'name_style': NAMES[c[3][0]] if c[3] else None, 'abbreviate_names': bool(c[4]), 'min_crossrefs': c[5], 'strict': bool(c[6]),
                'entries': [ent(e) for e in arg[1]], 'citations': [S(x) for x in arg[2][0]] if arg[2] else None}
    if fn == 2:
        return {'template': repr(build_node(arg[0])), 'entry': ent(arg[1]), 'name_style': NAMES[arg[3]], 'abbreviate_names': bool(arg[4])}
    if fn in (3, 4):
        return {'entries': [ent(e) for e in arg[0]]}
    if fn == 5:
        return {'person': spec_person_str(arg[0]), 'parts': [[S(n) for n in part] for part in arg[0]], 'name_style': NAMES[arg[1]], 'abbr': bool(arg[2])}
    if fn in (6, 7):
        return {'text': S(arg[0])}
    if fn == 9:
        return {'entry': ent(arg[0])}
    if fn == 10:
        return {'callers_citation_list': [S(c) for c in arg[0]],
                'calls': [{'entry_point': ['pybtex.format_from_string', 'PybtexEngine().format_from_string', 'pybtex.format_from_file', 'PybtexEngine().format_from_files', 'Style.format_bibliography', 'pybtex.make_bibliography'][c[0]], 'min_crossrefs': c[1][5],
                           'style': FSTYLES[c[1][0]], 'citations': (['default', "['*']", 'the caller\'s list (re-used)', 'a tuple'][c[3]] if c[3] < 4 else [S(x) for x in c[4]]), 'bib': bib_of(c[2])} for c in arg[1]]}
    return {'arg': arg}

def nontrivial(fn, arg, out):
    if fn == 10:
        return any(c[0][:1] == [0] and c[0][1] for c in out)
    return out[:1] == [0] and len(sx(out)) > 12 or out[:1] == [1]

RULE = ('pinned defect inputs; histories of 2-3 consecutive calls in one process through pybtex.format_from_string / format_from_file, PybtexEngine().format_from_string / format_from_files and Style.format_bibliography with default citations, a fresh ["*"], the caller\'s own re-used list object and a tuple (each call judged as that call alone, the caller\'s list compared before/after); exhaustive: textutils.abbreviate on all strings over {a,B,space,-,.}, Text.from_latex on all strings over {a,{,},-}, '
        'every template combinator over all child tuples (length <= 2, thorough 3) from a pool of 19 leaves (literals, None, present/empty/missing/inherited '
        'fields with each apply_func, raw fields, names, rich literals), name styles over a grid of name-part shapes; random: nested trees of depth <= 3, '
        'random persons, random small databases for alpha labels and sorting; all 17 entry types x patterns of present template fields x role patterns x '
        'random style configuration (formatting style, label, sorting, name style, abbreviate_names); random databases of 1-6 entries with cross-references '
        'and citation lists (wildcard, unknown keys, case variants); malformed: unknown types, unbalanced braces, undecodable LaTeX, empty person lists, '
        'dangling cross-references, empty values.  distinct = distinct (function, argument); non-trivial = a non-empty result or a reported missing field.')
EXHAUSTIVE = {'quick': 'abbreviate: strings <= 5 over 5 chars; from_latex: strings <= 6 over 4 chars; 15 combinator shapes x child tuples of length <= 2 over 19/12 leaves',
              'thorough': 'abbreviate: strings <= 6; from_latex: strings <= 7; 15 combinator shapes x child tuples of length <= 3; all field-presence patterns of every entry type with <= 8 template fields'}
TRUSTED_BASE = ['modelled (not verified) code: pybtex/style/template.py, style/formatting/__init__.py, style/names/*.py, style/labels/alpha.py number.py, '
                'style/sorting/*.py, textutils.abbreviate/tie_or_space, unsrt.dashify, markup.LaTeXParser, Entry._find_field, Person.__str__; citation resolution is the C05 model',
                'rich text is modelled by its flat (atom, markup stack) rendering (C08 relates richtext.py to it); the template trees of unsrt.py are data dumped from the live Style object on every run',
                'latexcodec (codecs.decode(.., "ulatex")) is a library: its results are handed to the model as a table']
ASSUMPTIONS = ['letter classes / case mapping are ASCII (Base/PyChar); generated names and field values contain no non-ASCII letters',
               'unicodedata-based _strip_accents is the identity on the generated domain']
PARTIAL = ['F30 (an inproceedings/incollection entry whose booktitle and year are present but empty renders "... In") is a known finding', 'field coverage is relative to the dumped template trees (what the style reads is data); the four back ends are exercised by the oracle only (rendering succeeds, text back end ends with a terminator)',
           'F12 (alpha label collision) and F24 (empty entry) are known findings: alpha_labels_distinct and entry_terminated are proved in their _partial form with _refuted witnesses']
