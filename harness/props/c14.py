# C14 -- cross-referenced fields are inherited, own fields win, lookup always terminates.
# Model: coq/Model/Crossref.v; theorems: coq/Props/C14.v
#
# Case argument ("spec" form, shared by all functions):
#   entry = [id, [[field, value] ...], [[role, [person ...]] ...]]      id = identity of the Python object
#   db    = [[key, entry] ...]                                          in insertion order
#   fn 1/3: [db, start_entry, name, use_bib_data]     fn 2: [db, start_entry, name]
#   fn 9:   [db, names, use_bib_data]
#   fn 4:   [db, citations, min_crossrefs]            fn 5-8: [db, citations, min_crossrefs, fields]
import itertools, random, signal
from core import *

ID = 'C14'

E_SCH = ('T', 'N', ('L', ('T', 'S', 'S')), ('L', ('T', 'S', ('L', 'S'))))
DB_SCH = ('L', ('T', 'S', E_SCH))

# ----------------------------------------------------------------------------------------
# normalisation of a spec (so that shrunk / malformed specs still denote one well-defined
# object graph on both sides): one content per object id (first seen wins), field names and
# roles distinct modulo case (first kept) -- an OrderedCaseInsensitiveDict has no duplicates.
def _dedupe(pairs):
    seen, out = set(), []
    for p in pairs:
        k = S(p[0]).lower()
        if k not in seen:
            seen.add(k); out.append(p)
    return out

def norm_spec(db, extra=()):
    content = {}
    def ent(e):
        i = e[0]
        if i not in content:
            content[i] = [i, _dedupe(e[1]), _dedupe(e[2])]
        return content[i]
    ndb = [[k, ent(e)] for k, e in db]
    nextra = [ent(e) for e in extra]
    return ndb, nextra

def entry_keys(ndb):
    """the .key attribute each object ends up with: add_entry keeps the first entry of a
    (case-insensitively) repeated key and sets entry.key on every successful add"""
    present, keys = set(), {}
    for k, e in ndb:
        kl = S(k).lower()
        if kl in present:
            continue
        present.add(kl)
        keys[e[0]] = k
    return keys

def _join_and(ps):
    out = []
    for i, p in enumerate(ps):
        out += ([32, 97, 110, 100, 32] if i else []) + list(p)
    return out

def model_arg(fn, a):
    a = norm(a)
    if fn in (14, 15):
        plain = lambda db: [[k, [e[0], k, e[1], e[2]]] for k, e in db]
        srcs = [plain(x) for x in split_sources(e2e_norm(a[0]), a[1])]
        return [srcs, a[2], a[3], norm(E2E_FIELDS)] if fn == 14 else [srcs, a[2]]
    if fn in (10, 11):
        a = [e2e_norm(a[0])] + a[1:]
    if fn == 12:
        nd = e2e_norm(a[0], roles=True)
        as_fields = [[k, [e[0], e[1] + [[r, _join_and(ps)] for r, ps in e[2]], []]] for k, e in nd]    # person_fields=[]
        plain = lambda db: [[k, [e[0], k, e[1], e[2]]] for k, e in db]
        return [plain(as_fields), plain(nd), a[1], a[2], [norm('author')]]
    extra = [a[1]] if fn in (1, 2, 3) else []
    ndb, nextra = norm_spec(a[0], extra)
    keys = entry_keys(ndb)
    def me(e):
        return [e[0], keys.get(e[0], []), e[1], e[2]]
    # the model's db is the dict content: repeated keys never got in
    present, mdb = set(), []
    for k, e in ndb:
        kl = S(k).lower()
        if kl in present:
            continue
        present.add(kl); mdb.append([k, me(e)])
    if fn in (1, 2, 3):
        return [mdb, me(nextra[0])] + a[2:]
    if fn in (6, 8) and a[1] == NO_CITATIONS:
        return [mdb, [[42]]] + a[2:]              # citations=None means every entry, like ['*']
    if fn == 10:
        return [mdb, a[1], a[2], norm(E2E_FIELDS)]     # (the style index a[3] is not the model's business)
    if fn == 11:
        return [mdb, a[1]]
    return [mdb] + a[1:]

# ----------------------------------------------------------------------------------------
# implementation side
class _Timeout(Exception):
    pass
def _alarm(signum, frame):
    raise _Timeout()

def guarded(f):
    """an alarm guards real hangs (non-termination is otherwise observable as RecursionError)"""
    def g(a):
        old = signal.signal(signal.SIGALRM, _alarm)
        signal.alarm(30)
        try:
            return f(a)
        except _Timeout:
            return [2]
        finally:
            signal.alarm(0)
            signal.signal(signal.SIGALRM, old)
    return g

def build(db, extra=()):
    """spec -> (BibliographyData, [extra Entry objects]); same id = same Python object"""
    from pybtex.database import BibliographyData, Entry, Person
    from pybtex import errors
    ndb, nextra = norm_spec(db, extra)
    objs = {}
    def obj(e):
        if e[0] not in objs:
            objs[e[0]] = Entry('misc', fields=[(S(k), S(v)) for k, v in e[1]],
                               persons=dict((S(r), [Person(S(p)) for p in ps]) for r, ps in e[2]))
        return objs[e[0]]
    pairs = [(S(k), obj(e)) for k, e in ndb]
    with errors.capture():          # a repeated key is reported and skipped
        bd = BibliographyData(pairs)
    return bd, [obj(e) for e in nextra]

def impl_find_field(a):
    bd, (e,) = build(a[0], [a[1]])
    try:
        return [0, [norm(e._find_field(S(a[2]), bd if a[3] else None))]]
    except KeyError:
        return [0, []]
    except _Timeout:
        raise
    except Exception:
        return [2]

def impl_find_all(a):
    """Entry._find_field for every entry of the database x every name"""
    bd, _ = build(a[0])
    ndb, _ = norm_spec(a[0])
    objs = {}
    out = []
    seen = set()
    for k, e in ndb:
        kl = S(k).lower()
        if kl in seen:
            continue
        seen.add(kl)
        ent = bd.entries[S(k)]
        row = []
        for nm in a[1]:
            try:
                row.append([0, [norm(ent._find_field(S(nm), bd if a[2] else None))]])
            except KeyError:
                row.append([0, []])
            except _Timeout:
                raise
            except Exception:
                row.append([2])
        out.append(row)
    return out

def impl_field_value(a):
    from pybtex.bibtex.interpreter import Interpreter, Field, Crossref, MissingField
    bd, (e,) = build(a[0], [a[1]])
    it = Interpreter(None, None)
    it.bib_data = bd
    it.current_entry = e
    name = S(a[2])
    def run():
        v = (Crossref(it) if name == 'crossref' else Field(it, name)).value()
        if isinstance(v, MissingField):
            return [1, v.name]
        return [0, v]
    return call_impl(run)

def impl_template_field(a):
    from pybtex.style.template import field
    bd, (e,) = build(a[0], [a[1]])
    return call_impl(lambda: field(S(a[2]), raw=True).format_data({'entry': e, 'bib_data': bd if a[3] else None}))

def _kinds(errs):
    from pybtex.database import BibliographyDataError
    return [0 if isinstance(x, BibliographyDataError) else 1 for x in errs]

def impl_add_extra(a):
    from pybtex import errors
    bd, _ = build(a[0])
    try:
        with errors.capture() as errs:
            cs = bd.add_extra_citations([S(c) for c in a[1]], a[2])
            return [norm(cs), _kinds(errs)]
    except Exception:
        return [2]

def bst_source(fields):
    ent = ' '.join(f for f in fields if f != 'crossref')
    body = ' cite$ write$ newline$\n'
    for f in fields:
        body += ' %s missing$ { "?" } { "<" %s * ">" * } if$ write$ newline$\n' % (f, f)
    return 'ENTRY { %s } {} {}\nFUNCTION {out} {\n%s}\nREAD\nITERATE {out}\n' % (ent, body)

_BST_CACHE = {}
def impl_bst_run(a, strict=False):
    """the real BST machinery (bst parser, Interpreter.run, READ, ITERATE, Field/Crossref variables,
    missing$, write$, newline$); only the .bib parser is replaced by one that hands over the database"""
    from pybtex import errors
    from pybtex.bibtex import bst
    from pybtex.bibtex.interpreter import Interpreter
    from pybtex.exceptions import PybtexError
    bd, _ = build(a[0])
    fields = [S(f) for f in a[3]]
    class Given(object):
        def __init__(self, **kw):
            pass
        def parse_files(self, files):
            return bd
    def run():
        script = _BST_CACHE.get(tuple(fields))
        if script is None:
            script = _BST_CACHE[tuple(fields)] = list(bst.parse_string(bst_source(fields)))
        out = Interpreter(Given, None).run(script, [S(c) for c in a[1]], ['x'], a[2])
        lines = out.split('\n')
        assert lines[-1] == '' and (len(lines) - 1) % (len(fields) + 1) == 0, lines
        obs = []
        for i in range(0, len(lines) - 1, len(fields) + 1):
            vals = []
            for l in lines[i + 1:i + 1 + len(fields)]:
                if l == '?':
                    vals.append([])
                else:
                    assert l.startswith('<') and l.endswith('>'), l
                    vals.append([norm(l[1:-1])])
            obs.append([norm(lines[i]), vals])
        return obs
    try:
        if strict:
            return [0, run()]
        with errors.capture() as errs:
            obs = run()
            return [0, [_kinds(errs), obs]]
    except PybtexError:
        return [1]
    except _Timeout:
        raise
    except AssertionError:
        raise
    except Exception:
        return [2]

_STYLE_CACHE = {}
def make_style(fields, minx, legacy=False):
    """a style object holds no per-run state; building one costs three plugin look-ups, so they are cached"""
    key = (tuple(fields), minx, legacy)
    if key not in _STYLE_CACHE:
        _STYLE_CACHE[key] = _make_style(fields, minx, legacy)
    return _STYLE_CACHE[key]

def _make_style(fields, minx, legacy):
    from pybtex.style.formatting.unsrt import Style as Unsrt
    from pybtex.style.template import field, optional, join, first_of
    def dump():
        return join(sep='|')[[first_of[optional[join['<', field(f, raw=True), '>']], 'MISSING'] for f in fields]]
    class FieldDump(Unsrt):
        def get_misc_template(self, e):
            return dump()
    class LegacyDump(Unsrt):
        """a style of the older kind: format_<type>(context) methods instead of get_<type>_template"""
        def __getattribute__(self, name):
            if name == 'get_misc_template':
                raise AttributeError(name)
            return Unsrt.__getattribute__(self, name)
        def format_misc(self, context):
            return dump().format_data(context)
    return (LegacyDump if legacy else FieldDump)(min_crossrefs=minx)

def impl_py_run(a, strict=False):
    """BaseStyle.format_bibliography -> format_entries -> format_entry -> template field()"""
    from pybtex import errors
    from pybtex.exceptions import PybtexError
    bd, _ = build(a[0])
    fields = [S(f) for f in a[3]]
    def run():
        cits = None if a[1] == NO_CITATIONS else [S(c) for c in a[1]]      # format_bibliography(bib_data): all entries
        fb = make_style(fields, a[2], legacy=len(a[0]) % 2 == 0).format_bibliography(bd, cits)
        obs = []
        for fe in fb:
            parts = str(fe.text).split('|') if fields else []
            assert len(parts) == len(fields), (parts, fields)
            vals = []
            for p in parts:
                if p == 'MISSING':
                    vals.append([])
                else:
                    assert p.startswith('<') and p.endswith('>'), p
                    vals.append([norm(p[1:-1])])
            obs.append([norm(fe.key), vals])
        return obs
    try:
        if strict:
            return [0, run()]
        with errors.capture() as errs:
            obs = run()
            return [0, [_kinds(errs), obs]]
    except PybtexError:
        return [1]
    except _Timeout:
        raise
    except AssertionError:
        raise
    except Exception:
        return [2]

RUN_SCH = ('T', DB_SCH, ('L', 'S'), 'I', ('L', 'S'))

NO_CITATIONS = [[60, 78, 111, 110, 101, 62]]     # ['<None>']: call format_bibliography without a citation list
E2E_FIELDS = ['title', 'year', 'note']
E2E_STYLES = ['unsrt', 'plain', 'alpha', 'unsrtalpha']
def e2e_norm(db, roles=False):
    """the end-to-end streams recover values from rendered text, so the value of field f of object i is
    the token <F><i> and its key is k<i>, whatever the (possibly shrunk) spec says; only title/year/note/crossref
    are kept (roles=True: only crossref and the role author, whose persons are A<i> and, for odd i, B<i>); one entry per key"""
    ndb, _ = norm_spec(db)
    out, seen = [], set()
    for k, e in ndb:
        if e[0] in seen:
            continue
        seen.add(e[0])
        fs = []
        for f, v in e[1]:
            fl = S(f).lower()
            if fl in E2E_FIELDS and not roles:
                fs.append([norm(fl), norm('%s%d' % (fl[0].upper(), e[0]))])
            elif fl == 'crossref':
                fs.append([norm(fl), [c for c in v if (48 <= c < 58 or 65 <= c < 91 or 97 <= c < 123)]])
        ps = [[norm('author'), [norm('A%d' % e[0])] + ([norm('B%d' % e[0])] if e[0] % 2 else [])]] if roles and any(S(r).lower() == 'author' for r, _ in e[2]) else []     # odd objects have two authors
        out.append([norm('k%d' % e[0]), [e[0], fs, ps]])       # the key of object i is k<i>
    return out

def bib_text(ndb, roles=False):
    out = []
    for k, e in ndb:
        if roles:      # the title is the entry's own (identifies it in the rendered text); author only if it has the role
            fs = ['title = {T%d}' % e[0]] + ['author = {%s}' % ' and '.join(S(p) for p in ps) for r, ps in e[2]]
        else:          # the author is the entry's own (identifies it in the rendered text)
            fs = ['author = {A%d}' % e[0]]
        fs += ['%s = {%s}' % (S(f), S(v)) for f, v in e[1]]
        out.append('@misc{%s,\n  %s\n}\n' % (S(k), ',\n  '.join(fs)))
    return '\n'.join(out)

def children_first(ndb):
    """F13's ordering rule: every entry a crossref resolves to stands later in the file than the entry referring to it"""
    pos = {}
    for i, (k, e) in enumerate(ndb):
        pos.setdefault(S(k).lower(), i)
    for i, (k, e) in enumerate(ndb):
        cr = _ci(e[1], 'crossref')
        if cr is not None and S(cr).lower() in pos and pos[S(cr).lower()] <= i:
            return False
    return True

def all_wanted(ndb, cits):
    cs = set(S(c).lower() for c in cits)
    return '*' in cs or all(S(k).lower() in cs for k, e in ndb)

def run_e2e(bib, cits, minx, style, bst_fields, letters, id_letter, bst_text=None, py_text=None):
    """(1) the real BibTeX parser + BST interpreter with the field-dumping style, (2) pybtex.format_from_string with a
    stock style and the plaintext backend; both read the file FILTERED by the citations (wanted_entries).
    From the rendered text: the entry is identified by its own token <id_letter><i>, values are tokens <letter><i>."""
    import io, re, pybtex
    from pybtex import errors
    from pybtex.bibtex import bst
    from pybtex.bibtex.interpreter import Interpreter
    from pybtex.database.input.bibtex import Parser
    from pybtex.exceptions import PybtexError
    def run_bst():
        script = _BST_CACHE.get(tuple(bst_fields))
        if script is None:
            script = _BST_CACHE[tuple(bst_fields)] = list(bst.parse_string(bst_source(bst_fields)))
        out = bst_text(script) if bst_text else Interpreter(Parser, None).run(script, list(cits), [io.StringIO(bib)], minx)
        lines = out.split('\n')
        n = len(bst_fields) + 1
        obs = []
        for i in range(0, len(lines) - 1, n):
            obs.append([norm(lines[i]), [[] if l == '?' else [norm(l[1:-1])] for l in lines[i + 1:i + n]]])
        return obs
    def run_py():
        text = py_text() if py_text else pybtex.format_from_string(bib, style=style, citations=list(cits), output_backend='plaintext', min_crossrefs=minx)
        obs = []
        for line in text.split('\n')[:-1]:
            assert re.match(r'\[\w+\] ', line), line
            line = line.split('] ', 1)[1]
            who = re.findall(r'\b%s\d+\b' % id_letter, line)
            assert len(who) == 1, line
            vals = []
            for letter in letters:
                m = re.findall(r'\b%s\d+\b' % letter, line)
                if len(letter) > 1:      # a list of persons: the tokens in order, joined like a field
                    vals.append([norm(' and '.join(m))] if m else [])
                    continue
                assert len(m) <= 1, line
                vals.append([norm(m[0])] if m else [])
            obs.append([norm('k' + who[0][1:]), vals])
        return obs
    def align(res):
        """the stock styles sort differently: put the Python observations into the order of the BST ones
        (entries are identified by key), leftovers at the end"""
        if len(res) == 2 and res[0][:1] == [0] and res[1][:1] == [0]:
            py = list(res[1][1][1]); out = []
            for o in res[0][1][1]:
                for q in py:
                    if S(q[0]).lower() == S(o[0]).lower():
                        out.append(q); py.remove(q); break
            res[1][1][1] = out + py
        return res
    res = []
    for run in (run_bst, run_py):
        try:
            with errors.capture() as errs:
                obs = run()
                res.append([0, [_kinds(errs), obs]])
        except PybtexError:
            res.append([1])
        except (_Timeout, AssertionError):
            raise
        except Exception:
            res.append([2])
    return align(res)

def _style(a, i):
    return E2E_STYLES[a[i] % len(E2E_STYLES)] if len(a) > i else 'unsrt'

def impl_e2e(a):
    """end to end from .bib text, fields title/year/note: tokens T<i> / Y<i> / N<i>, entry identified by its author A<i>"""
    ndb = e2e_norm(a[0])
    return run_e2e(bib_text(ndb), [S(c) for c in a[1]], a[2], _style(a, 3), E2E_FIELDS, 'TYN', 'A')

def impl_e2e_roles(a):
    """end to end from .bib text, the person role author: BST sees the field author (inherited through crossref),
    the stock Python styles print it through names('author'); entry identified by its own title T<i>"""
    ndb = e2e_norm(a[0], roles=True)
    return run_e2e(bib_text(ndb, roles=True), [S(c) for c in a[1]], a[2], _style(a, 3), ['author'], ['[AB]'], 'T')

def impl_read_filtered(a):
    """Parser(wanted_entries=citations).parse_string(bib): which entries are in the database, under which key"""
    from pybtex import errors
    from pybtex.database.input.bibtex import Parser
    ndb = e2e_norm(a[0])
    try:
        with errors.capture() as errs:
            wanted = [S(c) for c in a[1][0]] if a[1] else None
            bd = Parser(wanted_entries=wanted).parse_string(bib_text(ndb))
            return [[[norm(k), norm(e.key), int(str(e.persons['author'][0])[1:])] for k, e in bd.entries.items()], len(errs)]
    except (_Timeout, AssertionError):
        raise
    except Exception:
        return [2]


# ---- several sources ------------------------------------------------------------------------------
def split_sources(ndb, cuts):
    """the file's entries, in order, cut into consecutive sources at the given positions (a repeated position = an empty source)"""
    pos = sorted(min(max(c, 0), len(ndb)) for c in cuts)
    out, prev = [], 0
    for c in pos + [len(ndb)]:
        out.append(ndb[prev:c]); prev = c
    return out

MULTI_MODES = ['Interpreter.run([StringIO..]) / pybtex.format_from_strings', 'format_from_files([paths]) of both engines', 'make_bibliography(.aux with \\bibdata{a,b}) of both engines']

def impl_e2e_multi(a):
    """the chain distributed over several .bib sources, through the engines' multi-source entry points"""
    import io, os, shutil, tempfile, pybtex, pybtex.bibtex
    from pybtex.bibtex.interpreter import Interpreter
    from pybtex.database.input.bibtex import Parser
    ndb = e2e_norm(a[0])
    srcs = [bib_text(x) for x in split_sources(ndb, a[1])]
    cits = [S(c) for c in a[2]]
    minx, style, mode = a[3], _style(a, 4), (a[5] % 3 if len(a) > 5 else 0)
    tmp = None
    try:
        if mode == 0:
            bst_text = lambda script: Interpreter(Parser, None).run(script, list(cits), [io.StringIO(x) for x in srcs], minx)
            py_text = lambda: pybtex.format_from_strings(srcs, style=style, citations=list(cits), output_backend='plaintext', min_crossrefs=minx)
        else:
            tmp = tempfile.mkdtemp(prefix='c14_')
            paths = []
            for i, x in enumerate(srcs):
                paths.append(os.path.join(tmp, 's%d.bib' % i))
                with open(paths[-1], 'w') as f:
                    f.write(x)
            with open(os.path.join(tmp, 'dump.bst'), 'w') as f:
                f.write(bst_source(E2E_FIELDS))
            dump = os.path.join(tmp, 'dump')
            if mode == 1:
                bst_text = lambda script: pybtex.bibtex.format_from_files(paths, style=dump, citations=list(cits), min_crossrefs=minx)
                py_text = lambda: pybtex.format_from_files(paths, style=style, citations=list(cits), output_backend='plaintext', min_crossrefs=minx)
            else:
                def aux(name):
                    p = os.path.join(tmp, name + '.aux')
                    with open(p, 'w') as f:
                        f.write(''.join('\\citation{%s}\n' % c for c in cits))
                        f.write('\\bibdata{%s}\n\\bibstyle{unsrt}\n' % ','.join(os.path.join(tmp, 's%d' % i) for i in range(len(srcs))))
                    return p
                def bst_text(script):
                    pybtex.bibtex.make_bibliography(aux('b'), style=dump, min_crossrefs=minx)
                    return open(os.path.join(tmp, 'b.bbl')).read()
                def py_text():
                    pybtex.make_bibliography(aux('p'), style=style, output_backend='plaintext', min_crossrefs=minx)
                    return open(os.path.join(tmp, 'p.txt')).read()
        return run_e2e(None, cits, minx, style, E2E_FIELDS, 'TYN', 'A', bst_text=bst_text, py_text=py_text)
    finally:
        if tmp:
            shutil.rmtree(tmp, ignore_errors=True)

def impl_read_multi(a):
    """ONE Parser(wanted_entries=citations) over several sources: parse_files([StringIO..]) or parse_string per source"""
    import io
    from pybtex import errors
    from pybtex.database.input.bibtex import Parser
    ndb = e2e_norm(a[0])
    srcs = [bib_text(x) for x in split_sources(ndb, a[1])]
    try:
        with errors.capture() as errs:
            wanted = [S(c) for c in a[2][0]] if a[2] else None
            parser = Parser(wanted_entries=wanted)
            if len(a) > 3 and a[3] % 2:
                for x in srcs:
                    bd = parser.parse_string(x)
                bd = parser.data
            else:
                bd = parser.parse_files([io.StringIO(x) for x in srcs])
            return [[[norm(k), norm(e.key), int(str(e.persons['author'][0])[1:])] for k, e in bd.entries.items()], len(errs)]
    except (_Timeout, AssertionError):
        raise
    except Exception:
        return [2]


# ---- histories on live objects -----------------------------------------------------------------
# op = [code, key, field, [value] | [], n]:  0 lookup (n: 0 _find_field, 1 interpreter Field.value, 2 template field())
#   1 set field   2 delete field   3 set ([target]) / remove ([]) the crossref   4 bd = BibliographyData(bd.entries.items())
#   5 bd.entries[key] = a new Entry (object id n) with only title = value
HOP_SCH = ('T', 'N', 'S', 'S', ('O', 'S'), 'N')

def impl_history(a):
    """one set of live Entry / BibliographyData objects; the operations are executed in order; every look-up is answered
    by the code on the objects as they are at that moment"""
    from pybtex.database import BibliographyData, Entry
    from pybtex.bibtex.interpreter import Interpreter, Field, MissingField
    from pybtex.style.template import field, FieldIsMissing
    from pybtex import errors
    bd, _ = build(a[0])
    out = []
    for op in a[1]:
        code, key, name = op[0], S(op[1]), S(op[2])
        val = S(op[3][0]) if op[3] else None
        if code == 4:
            with errors.capture():
                bd = BibliographyData(list(bd.entries.items()))
            continue
        if code not in (0, 1, 2, 3, 5):
            with errors.capture():
                bd = BibliographyData(list(bd.entries.items()))
            continue
        if key not in bd.entries:
            if code == 0:
                out.append([])
            continue
        e = bd.entries[key]
        if code == 0:
            try:
                via = op[4] % 3
                if via == 0:
                    r = [0, [norm(e._find_field(name, bd))]]
                elif via == 1:
                    it = Interpreter(None, None); it.bib_data = bd; it.current_entry = e
                    v = Field(it, name).value()
                    r = [0, []] if isinstance(v, MissingField) else [0, [norm(str(v))]]
                else:
                    r = [0, [norm(field(name, raw=True).format_data({'entry': e, 'bib_data': bd}))]]
            except (KeyError, FieldIsMissing):
                r = [0, []]
            except _Timeout:
                raise
            except Exception:
                r = [2]
            out.append([r])
        elif code == 1:
            e.fields[name] = val or ''
        elif code == 2:
            if name in e.fields:
                del e.fields[name]
        elif code == 3:
            if val is not None:
                e.fields['crossref'] = val
            elif 'crossref' in e.fields:
                del e.fields['crossref']
        elif code == 5:
            bd.entries[key] = Entry('misc', fields=[('title', val or '')])
    return out

def history_expected(a):
    """the same history on the spec, in plain Python: the nearest definition along the CURRENT chain"""
    ndb, _ = norm_spec(a[0])
    objs = {}
    slots = []            # [key, object id] in order, one per (case-insensitive) key
    seen = set()
    for k, e in ndb:
        if S(k).lower() in seen:
            continue
        seen.add(S(k).lower())
        objs.setdefault(e[0], [e[0], [[S(f), S(v)] for f, v in e[1]], [[S(r), [S(p) for p in ps]] for r, ps in e[2]]])
        slots.append([S(k), e[0]])
    def find(key):
        for sl in slots:
            if sl[0].lower() == key.lower():
                return sl
        return None
    def setf(o, f, v):
        for p in o[1]:
            if p[0].lower() == f.lower():
                p[0], p[1] = f, v
                return
        o[1].append([f, v])
    def delf(o, f):
        o[1][:] = [p for p in o[1] if p[0].lower() != f.lower()]
    def look(o, f):
        cur, visited = o, set()
        while cur is not None and cur[0] not in visited:
            visited.add(cur[0])
            for p in cur[1]:
                if p[0].lower() == f.lower():
                    return p[1]
            for r, ps in cur[2]:
                if r.lower() == f.lower():
                    return ' and '.join(ps)
            cr = [p[1] for p in cur[1] if p[0].lower() == 'crossref']
            sl = find(cr[0]) if cr else None
            cur = objs[sl[1]] if sl else None
        return None
    res = []
    for op in a[1]:
        code, key, name = op[0], S(op[1]), S(op[2])
        val = S(op[3][0]) if op[3] else None
        if code == 4 or code not in (0, 1, 2, 3, 5):
            continue
        sl = find(key)
        if sl is None:
            if code == 0:
                res.append(('absent', None))
            continue
        o = objs[sl[1]]
        if code == 0:
            res.append(('value', look(o, name)))
        elif code == 1:
            setf(o, name, val or '')
        elif code == 2:
            delf(o, name)
        elif code == 3:
            if val is not None:
                setf(o, 'crossref', val)
            else:
                delf(o, 'crossref')
        elif code == 5:
            objs[op[4]] = [op[4], [['title', val or '']], []]
            sl[0], sl[1] = key, op[4]
    return res

FUNCS = {
    1: ('Entry._find_field', guarded(impl_find_field), ('T', DB_SCH, E_SCH, 'S', 'B')),
    2: ('interpreter Field.value / Crossref.value', guarded(impl_field_value), ('T', DB_SCH, E_SCH, 'S')),
    3: ('template field()', guarded(impl_template_field), ('T', DB_SCH, E_SCH, 'S', 'B')),
    4: ('BibliographyData.add_extra_citations', guarded(impl_add_extra), ('T', DB_SCH, ('L', 'S'), 'I')),
    5: ('BST engine: READ + ITERATE over field variables (errors captured)', guarded(impl_bst_run), RUN_SCH),
    6: ('Python engine: BaseStyle.format_bibliography (errors captured)', guarded(impl_py_run), RUN_SCH),
    7: ('BST engine, strict mode', guarded(lambda a: impl_bst_run(a, True)), RUN_SCH),
    8: ('Python engine, strict mode', guarded(lambda a: impl_py_run(a, True)), RUN_SCH),
    10: ('end to end: .bib text -> BibTeX parser -> BST interpreter / pybtex.format_from_string(stock style, plaintext)', guarded(impl_e2e), ('T', DB_SCH, ('L', 'S'), 'I', 'N')),
    11: ('bibtex Parser(wanted_entries=citations).parse_string: the filtered database', guarded(impl_read_filtered), ('T', DB_SCH, ('O', ('L', 'S')))),
    12: ('end to end, person role author: BST field vs names() of the stock Python styles', guarded(impl_e2e_roles), ('T', DB_SCH, ('L', 'S'), 'I', 'N')),
    14: ('end to end over several .bib sources (format_from_strings / format_from_files / make_bibliography with \\bibdata{a,b}), both engines', guarded(impl_e2e_multi), ('T', DB_SCH, ('L', 'N'), ('L', 'S'), 'I', 'N', 'N')),
    15: ('one bibtex Parser(wanted_entries) over several sources (parse_files / repeated parse_string)', guarded(impl_read_multi), ('T', DB_SCH, ('L', 'N'), ('O', ('L', 'S')), 'N')),
    13: ('history of look-ups and edits on live Entry / BibliographyData objects', guarded(impl_history), ('T', DB_SCH, ('L', HOP_SCH))),
    9: ('Entry._find_field, every entry x every name', guarded(impl_find_all), ('T', DB_SCH, ('L', 'S'), 'B')),
}

# comparison: core's default (error classes / wording not compared).  Reports travel as kinds on both sides
# (0 = bad cross-reference, 1 = other), so that --replay, which uses the default comparison, works too.

# ----------------------------------------------------------------------------------------
# the property, re-stated in plain Python over the spec (independent of pybtex)
def _ci(pairs, name):
    for k, v in pairs:
        if S(k).lower() == name.lower():
            return v
    return None

def _table(ndb):
    t = {}
    for k, e in ndb:
        t.setdefault(S(k).lower(), e)
    return t

def _own(e, name):
    v = _ci(e[1], name)
    if v is not None:
        return S(v)
    ps = _ci(e[2], name)
    if ps is not None:
        return ' and '.join(S(p) for p in ps)       # generator person names are their own str()
    return None

def chain(table, start):
    """the entries reached from start by following crossref, until the chain ends, dangles or closes"""
    out, seen, cur = [], set(), start
    while cur is not None and cur[0] not in seen:
        out.append(cur); seen.add(cur[0])
        cr = _ci(cur[1], 'crossref')
        cur = table.get(S(cr).lower()) if cr is not None else None
    return out

def expected(table, start, name):
    """value of the nearest entry along the chain that defines name, else None (missing)"""
    for e in chain(table, start):
        v = _own(e, name)
        if v is not None:
            return v
    return None

def dangling(table, e):
    cr = _ci(e[1], 'crossref')
    return cr is not None and S(cr).lower() not in table

def cited_entries(ndb, table, cits):
    out = []
    for c in cits:
        c = S(c)
        if c == '*':
            out.extend(table.values())          # a repeated key never got into the database
        elif c.lower() in table:
            out.append(table[c.lower()])
    return out

def oracle(fn, a, out):
    if not isinstance(out, list) or not out:
        return 'malformed implementation output %r' % (out,)
    if fn == 14:      # several sources: exactly what is expected of their concatenation read as one source
        m = oracle(10, [a[0], a[2], a[3], a[4] if len(a) > 4 else 0], out)
        return m and ('sources %r via %s: ' % ([[S(k) for k, _ in x] for x in split_sources(e2e_norm(a[0]), a[1])], MULTI_MODES[a[5] % 3 if len(a) > 5 else 0]) + m)
    if fn == 15:
        m = oracle(11, [a[0], a[2]], out)
        return m and ('sources %r: ' % [[S(k) for k, _ in x] for x in split_sources(e2e_norm(a[0]), a[1])] + m)
    if fn in (1, 2, 3):
        ndb, (start,) = norm_spec(a[0], [a[1]])
        table = _table(ndb)
        name = S(a[2])
        if out == [2]:
            return 'lookup of %r crashed (foreign exception / recursion / hang) instead of terminating' % name
        if fn in (1, 3) and not a[3]:
            return None                      # without bib_data the property says nothing beyond "no crash"
        if fn == 2 and name == 'crossref':
            return None                      # the crossref variable is not an inherited field
        exp = expected(table, start, name)
        if fn == 1:
            got = S(out[1][0]) if out[1] else None
        elif fn == 2:
            got = S(out[1][1]) if out[1][0] == 0 else None
        else:
            got = S(out[1]) if out[0] == 0 else None
        if got != exp:
            return 'field %r: expected %r (own field, else person role, else nearest definition along the crossref chain, else missing), got %r' % (name, exp, got)
        return None
    if fn == 13:
        if out == [2]:
            return 'history crashed'
        exp = history_expected(a)
        if len(exp) != len(out):
            return 'malformed implementation output'
        looks = [op for op in a[1] if op[0] == 0]
        for i, ((kind, v), o, op) in enumerate(zip(exp, out, looks)):
            if kind == 'absent':
                continue
            if not o or o[0] == [2]:
                return 'look-up %d (%s of %r) crashed' % (i, S(op[2]), S(op[1]))
            got = S(o[0][1][0]) if o[0][1] else None
            if got != v:
                return ('look-up %d in the history (%r of entry %r through %s): the current graph gives %r (own field, else role, else nearest '
                        'definition along the chain as it is NOW), the code answered %r' % (i, S(op[2]), S(op[1]), ['_find_field', 'Field.value', 'field()'][op[4] % 3], v, got))
        return None
    ndb, _ = norm_spec(a[0])
    table = _table(ndb)
    if fn == 9:
        ents = list(table.values())
        if len(out) != len(ents):
            return 'malformed implementation output'
        for e, row in zip(ents, out):
            for nm, o in zip(a[1], row):
                if o == [2]:
                    return 'lookup of %r from object %d crashed (foreign exception / recursion / hang) instead of terminating' % (S(nm), e[0])
                if a[2]:
                    exp = expected(table, e, S(nm)); got = S(o[1][0]) if o[1] else None
                    if got != exp:
                        return 'object %d, field %r: expected %r (own field, else person role, else nearest definition along the crossref chain, else missing), got %r' % (e[0], S(nm), exp, got)
        return None
    if fn in (10, 12):
        roles = fn == 12
        ndb = e2e_norm(a[0], roles=roles); table = _table(ndb)
        names = ['author'] if roles else E2E_FIELDS
        style = E2E_STYLES[a[3] % len(E2E_STYLES)] if len(a) > 3 else 'unsrt'
        if len(out) != 2:
            return 'malformed implementation output'
        for which, o in zip(('BST', 'Python'), out):
            if o[:1] != [0]:
                return '%s engine raised (%s) although errors are captured' % (which, 'foreign exception' if o == [2] else 'pybtex error')
        # both engines read the file filtered by the citations; the nearest definition along the chain must be seen
        # whatever the citation list is, as long as parents follow their children in the file (F13's ordering rule,
        # property C05/C06) or nothing is filtered out
        if not (children_first(ndb) or all_wanted(ndb, a[1])):
            return None
        m = oracle(5, [ndb, a[1], a[2], norm(names)], out[0])
        if m:
            return 'end to end (file read filtered by the citations), ' + m
        cited = cited_entries(ndb, table, a[1])
        seen_ids = set()
        for key, vals in out[1][1][1]:
            e = table.get(S(key).lower())
            if e is None:
                return 'end to end: the Python %s style formatted an entry %r that is not in the file' % (style, S(key))
            seen_ids.add(e[0])
            for f, v in zip(names, vals):
                exp = expected(table, e, f); got = S(v[0]) if v else None
                if got != exp:
                    if roles and got is None and _own(e, f) is None:
                        return ('Python %s style does not show the inherited person role %r of entry %r: the BST engine sees %r, '
                                'names(%r) reads entry.persons only' % (style, f, S(key), exp, f))
                    return 'end to end (file read filtered by the citations), Python %s style, entry %r, field %r: expected %r, rendered %r' % (style, S(key), f, exp, got)
        for e in cited:
            if e[0] not in seen_ids:
                return 'end to end: cited entry k%d was not formatted by the Python %s style' % (e[0], style)
        if any(dangling(table, e) for e in cited) and 0 not in [(k[0] if isinstance(k, list) else k) for k in out[1][1][0]]:
            return 'end to end: a cited entry has a dangling crossref but the Python engine reported no bad cross-reference'
        return None
    if fn == 11:
        ndb = e2e_norm(a[0]); table = _table(ndb)
        if out == [2]:
            return 'filtered reading crashed'
        cits = a[1][0] if a[1] else [norm('*')]
        if not (children_first(ndb) or all_wanted(ndb, cits)):
            return None
        have = set(r[2] for r in out[0])
        for e in cited_entries(ndb, table, cits):
            for x in chain(table, e):
                if x[0] not in have:
                    return 'filtered reading (wanted_entries=%r) dropped k%d, an ancestor of the cited entry k%d' % ([S(c) for c in cits], x[0], e[0])
        return None
    if out == [2]:
        return 'crashed with a foreign exception instead of reporting'
    if fn in (6, 8) and a[1] == NO_CITATIONS:
        a = [a[0], [[42]]] + a[2:]
    cited = cited_entries(ndb, table, a[1])
    cited_dangling = any(dangling(table, e) for e in cited)
    any_dangling = any(dangling(table, e) for e in table.values())
    if fn == 4:
        bad = [k for k in out[1] if (k[0] if isinstance(k, list) else k) == 0]
        if cited_dangling and not bad:
            return 'a cited entry has a dangling crossref but no bad cross-reference was reported'
        if bad and not any_dangling:
            return 'bad cross-reference reported although every crossref resolves'
        return None
    if fn in (7, 8):
        if cited_dangling and out[0] != 1:
            return 'strict mode: a cited entry has a dangling crossref but no error was raised'
        if out[0] != 0:
            return None
        obs = out[1]
    else:
        if out[0] != 0:
            return 'engine raised although errors are captured'
        kinds, obs = out[1]
        if cited_dangling and 0 not in [(k[0] if isinstance(k, list) else k) for k in kinds]:
            return 'a cited entry has a dangling crossref but no bad cross-reference was reported'
    fields = [S(f) for f in a[3]]
    seen_ids = set()
    for key, vals in obs:
        e = table.get(S(key).lower())
        if e is None:
            return 'formatted an entry %r that is not in the database' % S(key)
        seen_ids.add(e[0])
        if len(vals) != len(fields):
            return 'wrong number of field observations'
        for f, v in zip(fields, vals):
            if f == 'crossref':
                continue
            exp = expected(table, e, f)
            got = S(v[0]) if v else None
            if got != exp:
                return '%s engine, entry %r, field %r: expected %r, saw %r' % ('BST' if fn in (5, 7) else 'Python', S(key), f, exp, got)
    for e in cited:
        if e[0] not in seen_ids:
            return 'cited entry (object %d) was not formatted' % e[0]
    return None

# ----------------------------------------------------------------------------------------
def mk(i, title=False, editor=False, crossref=None, year=False, tname='title', ename='editor', two=False, extra=()):
    f = []
    if title:
        f.append([tname, 'T%d' % i])
    if year:
        f.append(['year', 'Y%d' % i])
    if crossref is not None:
        f.append(['crossref', crossref])
    f.extend(extra)
    p = []
    if editor:
        p.append([ename, ['E%d' % i, 'Knuth, D%d' % i] if two else ['E%d' % i]])
    return [i, f, p]

KEYS = 'abcdefghij'
ALLF = ['title', 'editor', 'year', 'crossref']

def small_dbs(n, with_year=False):
    """every graph over n entries a,b,..: crossref in {none, each entry incl. itself, dangling}
       (the target spelled in the other case when source+target index is odd) x title? x editor? (x year?)"""
    opts = [None] + list(range(n)) + ['zz']
    fsets = list(itertools.product([0, 1], repeat=3 if with_year else 2))
    for xs in itertools.product(opts, repeat=n):
        for fs in itertools.product(fsets, repeat=n):
            db = []
            for i in range(n):
                x = xs[i]
                if isinstance(x, int):
                    x = KEYS[x].upper() if (i + x) % 2 else KEYS[x]
                db.append([KEYS[i], mk(i, title=fs[i][0], editor=fs[i][1], year=with_year and fs[i][2], crossref=x)])
            yield db

def rand_db(rng, n, p_cross=0.7, p_dangle=0.1, alias=False, dupkeys=False):
    keys = []
    pool = ['k%d' % i for i in range(n)]
    for i in range(n):
        k = pool[i]
        if rng.random() < 0.3:
            k = k.upper() if rng.random() < 0.5 else k.capitalize()
        keys.append(k)
    db = []
    shape = rng.choice(['chain', 'cycle', 'tree', 'random', 'random'])
    for i in range(n):
        if rng.random() > p_cross and shape == 'random':
            x = None
        elif rng.random() < p_dangle:
            x = rng.choice(['nosuch', '', 'k%d' % (n + 3)])
        elif shape == 'chain':
            x = pool[i + 1] if i + 1 < n else None
        elif shape == 'cycle':
            x = pool[(i + 1) % n]
        elif shape == 'tree':
            x = pool[rng.randrange(i)] if i else None
        else:
            x = pool[rng.randrange(n)]
        if x and rng.random() < 0.3:
            x = x.upper()
        few = rng.random() < 0.6       # sparse definitions make long inheritance chains
        e = mk(i, title=rng.random() < (0.15 if few else 0.5), editor=rng.random() < (0.15 if few else 0.4),
               year=rng.random() < 0.3, crossref=x,
               tname=rng.choice(['title', 'title', 'Title', 'TITLE']), ename=rng.choice(['editor', 'editor', 'Editor']),
               two=rng.random() < 0.5)
        if rng.random() < 0.1:
            e[1].append(['note', ''])            # an empty value is a value
        if rng.random() < 0.05:
            e[2].append(['translator', []])      # a role with no persons
        if rng.random() < 0.08:
            e[1].append([rng.choice(['editor', 'EDITOR']), 'FE%d' % i])   # a field named like a role: the field wins
        db.append([keys[i], e])
    if alias and n >= 2:
        j = rng.randrange(n)
        db.insert(rng.randrange(len(db) + 1), ['alias', db[j][1]])     # the same object under a second key
    if dupkeys and n >= 2:
        j = rng.randrange(n)
        db.insert(rng.randrange(len(db) + 1), [db[j][0].swapcase(), mk(90, title=True, crossref=pool[0])])   # repeated key: ignored
    return db

# finding FC14a: child without author, crossref to a parent with an author; only the child is cited
FC14A_PINNED = [[['k0', [0, [['crossref', 'k1']], []]], ['k1', [1, [], [['author', ['A1']]]]]], ['k0'], 2, 0]

QNAMES = ['title', 'editor', 'year', 'crossref', 'TITLE', 'Editor', 'note', 'translator', 'author', '']

def _warmup():
    """import pybtex and load its plugins once in the parent, before the implementation pool forks
    (otherwise every worker pays the imports inside its first, alarm-guarded, case)"""
    try:
        a = [[['a', [0, [['crossref', 'a']], []]]], ['a'], 2]
        for st in range(len(E2E_STYLES)):
            impl_e2e(norm(a + [st])); impl_e2e_roles(norm(a + [st]))
        impl_py_run(norm(a + [['title']])); impl_bst_run(norm(a + [['title']]))
    except Exception:
        pass

def gen(tier, rng):
    quick = tier == 'quick'
    _warmup()
    # ---- pinned: the defects of DESIGN.md section 4 (F4, F5) and every disagreement seen while building
    selfloop = [['a', mk(0, crossref='a')]]
    two = [['a', mk(0, crossref='b')], ['b', mk(1, crossref='a')]]
    three = [['a', mk(0, crossref='b')], ['b', mk(1, crossref='c')], ['c', mk(2, editor=True, crossref='a')]]
    f5 = [['child', mk(0, crossref='parent')], ['parent', mk(1, title=True, editor=True, year=True)]]
    lasso = [['a', mk(0, crossref='b')], ['b', mk(1, crossref='c')], ['c', mk(2, crossref='b')]]
    both = [['a', mk(0, editor=True, crossref='b', extra=[['editor', 'own']])], ['b', mk(1, editor=True, title=True)]]
    for db in (selfloop, two, three, f5, lasso, both):
        for k, e in db:
            for nm in ('title', 'editor', 'crossref'):
                yield ('pinned', 1, [db, e, nm, 1]); yield ('pinned', 2, [db, e, nm]); yield ('pinned', 3, [db, e, nm, 1])
        for fn in (5, 6, 7, 8):
            yield ('pinned', fn, [db, ['*'], 2, ALLF])
            yield ('pinned', fn, [db, [db[0][0]], 1, ALLF])
        yield ('pinned', 4, [db, ['*'], 2])
    # ---- exhaustive small scope
    nmax = 3
    for n in range(1, nmax + 1):
        for idx, db in enumerate(small_dbs(n)):
            yield ('exhaustive', 9, [db, ['title', 'editor'], 1])
            engines = n <= 2 or (not quick) or idx % 4 == 0
            if engines:
                yield ('exhaustive_engines', 5, [db, ['*'], 2, ALLF])
                yield ('exhaustive_engines', 6, [db, ['*'] if idx % 2 else ['<None>'], 2, ALLF])
            if n <= 2 or idx % 8 == 0:
                e = db[idx % n][1]
                yield ('exhaustive_glue', 2, [db, e, 'title']); yield ('exhaustive_glue', 2, [db, e, 'crossref'])
                yield ('exhaustive_glue', 3, [db, e, 'title', 1]); yield ('exhaustive_glue', 3, [db, e, 'editor', 1])
                yield ('exhaustive_glue', 1, [db, e, 'title', 0])
                cits = [[KEYS[idx % n]], ['*'], [KEYS[(idx + 1) % n].upper(), KEYS[idx % n]]][idx % 3]
                yield ('exhaustive_glue', 4, [db, cits, 1 + idx % 2])
                yield ('exhaustive_glue', 7, [db, cits, 2, ALLF]); yield ('exhaustive_glue', 8, [db, cits, 2, ALLF])
    if not quick:
        for idx, db in enumerate(small_dbs(2, with_year=True)):
            yield ('exhaustive', 9, [db, ['title', 'editor', 'year'], 1])
        # four entries, one field: every graph incl. all cycles and lassos over 4 nodes
        opts = [None] + list(range(4)) + ['zz']
        for xs in itertools.product(opts, repeat=4):
            for ts in itertools.product([0, 1], repeat=4):
                db = [[KEYS[i], mk(i, title=ts[i], crossref=(KEYS[xs[i]] if isinstance(xs[i], int) else xs[i]))] for i in range(4)]
                yield ('exhaustive4', 9, [db, ['title'], 1])
                if sum(ts) <= 1 and xs[0] is not None:
                    yield ('exhaustive4', 5, [db, ['*'], 2, ['title']]); yield ('exhaustive4', 6, [db, ['*'], 2, ['title']])
    # ---- structured random: larger graphs (chains, cycles, trees, random), key/field case variation,
    #      aliased objects, repeated keys, a start entry that is not in the database
    nrand = 1500 if quick else 8000
    for i in range(nrand):
        n = rng.choice([2, 3, 4, 5, 6, 8, 10, 12])
        db = rand_db(rng, n, alias=rng.random() < 0.15, dupkeys=rng.random() < 0.1)
        if rng.random() < 0.1:
            start = mk(50, crossref=rng.choice(db)[0], title=rng.random() < 0.2)       # a foreign entry
        else:
            start = rng.choice(db)[1]
        nm = rng.choice(QNAMES)
        yield ('random', 1, [db, start, nm, 0 if rng.random() < 0.1 else 1])
        yield ('random', 2, [db, start, rng.choice(QNAMES)])
        yield ('random', 3, [db, start, rng.choice(QNAMES), 0 if rng.random() < 0.1 else 1])
        keys = [k for k, _ in db]
        cits = rng.choice([['*'], rng.sample(keys, rng.randint(1, len(keys))), [k.swapcase() for k in rng.sample(keys, rng.randint(1, len(keys)))]])
        if rng.random() < 0.15:
            cits = cits + [rng.choice(['ghost', '*', cits[0]])]
        minx = rng.choice([2, 2, 1, 1, 0, 3, -1])
        fields = rng.choice([ALLF, ['title'], ['editor', 'title'], ['year', 'note', 'title', 'crossref'], []])
        yield ('random', 4, [db, cits, minx])
        yield ('random', 9, [db, rng.sample(QNAMES, 3), 0 if rng.random() < 0.05 else 1])
        yield ('random', rng.choice([5, 7]), [db, cits, minx, fields])
        yield ('random', rng.choice([6, 8]), [db, cits, minx, fields])
    # ---- end to end through the real .bib parser and the stock unsrt style: every entry cited (any order/case)
    def e2e_db(n, xs, fs):
        db = []
        for i in range(n):
            f = [[nm, '%s%d' % (nm[0].upper(), i)] for nm, on in zip(E2E_FIELDS, fs[i]) if on]
            x = xs[i]
            if x is not None:
                f.append(['crossref', x])
            db.append(['k%d' % i, [i, f, []]])
        return db
    for n in (1, 2, 3):
        opts = [None] + ['k%d' % j for j in range(n)] + ['zz']
        allg = list(itertools.product(opts, repeat=n))
        for gi, xs in enumerate(allg):
            reps = 2 if quick else 8
            for r in range(reps):
                fs = [[rng.random() < 0.35 for _ in E2E_FIELDS] for _ in range(n)]
                db = e2e_db(n, [x.upper() if (x and rng.random() < 0.3) else x for x in xs], fs)
                keys = [k for k, _ in db]
                cits = ['*'] if rng.random() < 0.3 else [k.upper() if rng.random() < 0.3 else k for k in rng.sample(keys, len(keys))]
                yield ('end_to_end', 10, [db, cits, rng.choice([2, 1]), rng.choice([0, 0, 1, 2, 3])])
    # ---- chains read FILTERED by the citation list (what both engines do): chain length 0..3 x which ancestor defines
    #      the field x citation lists (child only / child + some ancestors / *) x min_crossrefs 1..3; children first
    sidx = 0
    for L in range(0, 4):
        for definer in [None] + list(range(L + 1)):
            cit_sets = [['k0'] + ['k%d' % j for j in range(1, L + 1) if (mask >> (j - 1)) & 1] for mask in range(1 << L)] + [['*']]
            for cits in cit_sets:
                for minx in (1, 2, 3):
                    db = []
                    for i in range(L + 1):
                        f = []
                        if definer == i:
                            f.append(['title', 'T%d' % i])
                        if rng.random() < 0.3:
                            f.append(['year', 'Y%d' % i])
                        if i == L and rng.random() < 0.5:
                            f.append(['note', 'N%d' % i])
                        if i < L:
                            f.append(['crossref', ('K%d' if rng.random() < 0.2 else 'k%d') % (i + 1)])
                        db.append(['k%d' % i, [i, f, []]])
                    db.append(['k%d' % (L + 1), [L + 1, [['title', 'T%d' % (L + 1)]], []]])        # an unrelated, uncited entry
                    cs = [c.upper() if rng.random() < 0.15 else c for c in cits]
                    if rng.random() < 0.3:
                        cs = cs[::-1]
                    sidx += 1
                    yield ('filtered_chains', 10, [db, cs, minx, sidx % 4])
                    if minx == 2:
                        yield ('filtered_chains', 11, [db, [cs]])
    yield ('filtered_chains', 11, [e2e_db(3, ['k1', 'k2', None], [[1, 0, 0]] * 3), []])
    # parents BEFORE children with a filtering citation list: F13's territory (C05/C06), model vs code only
    for i in range(20 if quick else 200):
        n = rng.choice([2, 3, 4])
        xs = [rng.choice([None] + ['k%d' % j for j in range(n)]) for _ in range(n)]
        db = e2e_db(n, xs, [[rng.random() < 0.4 for _ in E2E_FIELDS] for _ in range(n)])
        cits = rng.sample([k for k, _ in db], rng.randint(1, n))
        yield ('filtered_any_order', 10, [db, cits, rng.choice([1, 2]), rng.randrange(4)])
        yield ('filtered_any_order', 11, [db, [cits]])
    # ---- the person role author through both engines: BST sees the inherited field, the stock styles use names()
    for L in range(1, 4):
        for mask in range(1 << (L + 1)):
            for cits in (['k0'], ['k%d' % j for j in range(L + 1)], ['*']):
                db = [['k%d' % i, [i, ([['crossref', 'k%d' % (i + 1)]] if i < L else []), ([['author', ['A%d' % i]]] if (mask >> i) & 1 else [])]] for i in range(L + 1)]
                sidx += 1
                yield ('person_roles', 12, [db, cits, 1 + sidx % 2, sidx % 4])
    yield ('pinned', 12, FC14A_PINNED)
    f5bib = [['k0', [0, [['crossref', 'k1']], []]], ['k1', [1, [['title', 'T1'], ['year', 'Y1'], ['note', 'N1']], []]]]
    yield ('pinned', 10, [f5bib, ['k0', 'k1'], 2, 0]); yield ('pinned', 10, [f5bib, ['*'], 1, 1])
    yield ('pinned', 10, [[['k0', [0, [['crossref', 'k0']], []]], ['k1', [1, [['crossref', 'k0'], ['note', 'N1']], []]]], ['k1', 'k0'], 2, 2])
    # ---- the chain distributed over 2-3 sources (children before parents ACROSS sources), explicit citation lists,
    #      through the multi-source entry points of both engines and through one Parser over several sources
    midx = 0
    for L in (1, 2, 3):
        n = L + 2                                              # chain k0..kL plus an unrelated entry
        splits = [[c] for c in range(1, n)] + [[c1, c2] for c1 in range(1, n) for c2 in range(c1 + 1, n)] + [[1, 1]]
        for definer in [None] + list(range(L + 1)):
            for mask in range(1 << L):
                cits = ['k0'] + ['k%d' % j for j in range(1, L + 1) if (mask >> (j - 1)) & 1]
                for cuts in splits:
                    midx += 1
                    if L == 3 and quick and midx % 2:
                        continue
                    db = []
                    for i in range(L + 1):
                        f = []
                        if definer == i:
                            f.append(['title', 'T%d' % i])
                        if i == L:
                            f.append(['year', 'Y%d' % i])
                        if i < L:
                            f.append(['crossref', 'k%d' % (i + 1)])
                        db.append(['k%d' % i, [i, f, []]])
                    db.append(['k%d' % (L + 1), [L + 1, [['note', 'N%d' % (L + 1)]], []]])
                    cs = cits[::-1] if midx % 3 == 0 else cits
                    yield ('multi_source', 14, [db, cuts, cs, 1 + midx % 2, midx % 4, midx % 3])
                    if midx % 4 == 0:
                        yield ('multi_source', 15, [db, cuts, [cs], midx // 4])
    yield ('multi_source', 14, [[['k0', [0, [['crossref', 'k1']], []]], ['k1', [1, [['title', 'T1']], []]]], [1], ['*'], 2, 0, 1])
    yield ('multi_source', 15, [[['k0', [0, [['crossref', 'k1']], []]], ['k1', [1, [['title', 'T1']], []]]], [1], [], 0])
    # ---- mutation_history: look-ups interleaved with edits on ONE set of live objects
    def hop(code, key='', fld='', val=None, n=0):
        return [code, key, fld, [] if val is None else [val], n]
    hdb = [['c', mk(0, crossref='p')], ['p', mk(1, title=True, editor=True, crossref='g')], ['g', mk(2, year=True)]]
    L = lambda k, f='title', via=0: hop(0, k, f, None, via)
    pinned_hist = [
        [L('c'), hop(1, 'p', 'title', 'X'), L('c'), L('c', via=1), L('c', via=2)],                 # parent's field edited
        [L('c'), hop(2, 'p', 'title'), L('c'), L('c', via=1)],                                        # ... deleted
        [L('c', 'year'), hop(3, 'c', '', 'g'), L('c'), L('c', 'year'), hop(3, 'c', '', None), L('c', 'year'), L('c', 'year', 2)],   # retargeted, removed
        [L('c'), hop(5, 'p', '', 'R', 7), L('c'), L('c', 'year'), L('c', 'editor', 1)],             # parent entry replaced
        [L('c'), hop(4), L('c'), hop(1, 'P', 'TITLE', 'Z'), hop(4), L('c', via=2)],                  # a second BibliographyData
        [L('c'), hop(1, 'c', 'title', 'own'), L('c'), L('c', via=1), hop(2, 'c', 'title'), L('c')],  # the child gets / loses its own value
        [L('c', 'note'), hop(1, 'g', 'note', 'late'), L('c', 'note'), L('c', 'note', 1), L('c', 'note', 2)],   # missing first, defined later
        [L('c', 'editor'), hop(1, 'c', 'editor', 'F'), L('c', 'editor'), hop(3, 'g', '', 'c'), L('g', 'title'), L('g', 'nothing')],   # cycle closed later
    ]
    for h in pinned_hist:
        yield ('mutation_history', 13, [hdb, h])
    # exhaustive: every history of <= 3 operations over a 14-letter operation alphabet on child -> parent (-> grandparent)
    alpha = [L('c', via=0), L('c', via=1), L('c', via=2), L('p'), hop(1, 'p', 'title', 'X'), hop(2, 'p', 'title'), hop(1, 'c', 'title', 'own'),
             hop(2, 'c', 'title'), hop(3, 'c', '', None), hop(3, 'c', '', 'g'), hop(3, 'c', '', 'p'), hop(4), hop(5, 'p', '', 'R', 8), hop(1, 'g', 'title', 'G')]
    for n in (1, 2, 3):
        for seq in itertools.product(alpha, repeat=n):
            if any(o[0] == 0 for o in seq):
                yield ('mutation_history', 13, [hdb, list(seq) + [L('c', via=n % 3)]])
    # random longer histories on random graphs
    for i in range(1500 if quick else 15000):
        n = rng.choice([2, 3, 4, 5])
        db = rand_db(rng, n, p_dangle=0.05, alias=rng.random() < 0.15)
        keys = [k for k, _ in db]
        ops = []
        for j in range(rng.randint(3, 12)):
            k = rng.choice(keys); k = k.swapcase() if rng.random() < 0.15 else k
            f = rng.choice(['title', 'title', 'editor', 'year', 'TITLE', 'note'])
            c = rng.choice([0, 0, 0, 0, 1, 1, 2, 3, 3, 4, 5])
            if c == 0:
                ops.append(hop(0, k, f, None, rng.randrange(3)))
            elif c == 1:
                ops.append(hop(1, k, f, 'V%d' % j))
            elif c == 2:
                ops.append(hop(2, k, f))
            elif c == 3:
                ops.append(hop(3, k, '', rng.choice([None, rng.choice(keys), rng.choice(keys).upper(), 'nosuch'])))
            elif c == 4:
                ops.append(hop(4))
            else:
                ops.append(hop(5, k, '', 'R%d' % j, 100 + j))
        ops.append(hop(0, rng.choice(keys), rng.choice(['title', 'editor', 'year']), None, rng.randrange(3)))
        yield ('mutation_history', 13, [db, ops])
    # ---- long chains and big cycles (termination; Python recursion stays well below its limit here)
    for n in ([20, 60] if quick else [20, 60, 150]):
        ch = [['k%d' % i, mk(i, crossref='k%d' % (i + 1))] for i in range(n)] + [['k%d' % n, mk(n, title=True)]]
        cy = [['k%d' % i, mk(i, crossref='k%d' % ((i + 1) % n))] for i in range(n)]
        for db in (ch, cy):
            yield ('long', 1, [db, db[0][1], 'title', 1]); yield ('long', 1, [db, db[n // 2][1], 'editor', 1])
            yield ('long', 5, [db, ['k0', 'k1'], 2, ['title']]); yield ('long', 6, [db, ['k0', 'k1'], 2, ['title']])
    # ---- malformed: dangling targets, missing citations, odd names
    for i in range(300 if quick else 4000):
        n = rng.choice([1, 2, 3, 5])
        db = rand_db(rng, n, p_dangle=0.5)
        keys = [k for k, _ in db]
        cits = rng.sample(keys, rng.randint(0, len(keys))) + rng.sample(['ghost', 'k0', 'K0', '*', ''], rng.randint(0, 2))
        rng.shuffle(cits)
        minx = rng.choice([2, 1, 0])
        yield ('malformed', 4, [db, cits, minx])
        for fn in (5, 6, 7, 8):
            yield ('malformed', fn, [db, cits, minx, ['title', 'crossref']])
        yield ('malformed', 1, [db, rng.choice(db)[1], rng.choice(['title', 'crossref', '', 'CROSSREF']), 1])

KNOWN_SIGNATURES = {
    # narrow: only the Python-side "inherited person role not shown" message of the role stream; a BST-side failure, a
    # wrong (rather than absent) value, or any failure of an own role is still reported
    'FC14a': lambda kind, fn, arg, detail: kind == 'oracle' and fn == 12 and isinstance(detail, str)
             and detail.startswith('Python ') and 'does not show the inherited person role' in detail,
}

def replay_known(finding):
    if finding.get('id') == 'FC14a':
        p = finding['pinned']
        a = norm(p['arg'])
        return oracle(p['fn'], a, FUNCS[p['fn']][1](a))
    return None

def nontrivial(fn, a, out):
    return out[:1] == [0] and any(_ci(e[1], 'crossref') is not None for k, e in a[0])

def describe(fn, a):
    def ent(e):
        return {'object': e[0], 'fields': {S(k): S(v) for k, v in e[1]}, 'persons': {S(r): [S(p) for p in ps] for r, ps in e[2]}}
    d = {'function': FUNCS[fn][0], 'database': [[S(k), ent(e)] for k, e in a[0]]}
    if fn in (14, 15):
        d['sources'] = [bib_text(x) for x in split_sources(e2e_norm(a[0]), a[1])]
        if fn == 14:
            d['citations'] = [S(c) for c in a[2]]; d['min_crossrefs'] = a[3]; d['python_style'] = _style(a, 4); d['entry_points'] = MULTI_MODES[a[5] % 3 if len(a) > 5 else 0]
        else:
            d['wanted_entries'] = [S(c) for c in a[2][0]] if a[2] else None
    elif fn == 13:
        names = {0: 'lookup', 1: 'set_field', 2: 'del_field', 3: 'set_crossref', 4: 'new BibliographyData', 5: 'replace entry'}
        d['history'] = [[names.get(o[0], 'new BibliographyData'), S(o[1]), S(o[2]), S(o[3][0]) if o[3] else None, o[4]] for o in a[1]]
    elif fn == 12:
        d['python_style'] = E2E_STYLES[a[3] % len(E2E_STYLES)] if len(a) > 3 else 'unsrt'; d['citations'] = [S(c) for c in a[1]]; d['min_crossrefs'] = a[2]; d['bib'] = bib_text(e2e_norm(a[0], roles=True), roles=True)
    elif fn == 11:
        d['wanted_entries'] = [S(c) for c in a[1][0]] if a[1] else None; d['bib'] = bib_text(e2e_norm(a[0]))
    elif fn == 10:
        d['python_style'] = E2E_STYLES[a[3] % len(E2E_STYLES)] if len(a) > 3 else 'unsrt'; d['citations'] = [S(c) for c in a[1]]; d['min_crossrefs'] = a[2]; d['bib'] = bib_text(e2e_norm(a[0]))
    elif fn == 9:
        d['fields'] = [S(f) for f in a[1]]; d['bib_data_passed'] = bool(a[2])
        del d['function']; d = dict(function=FUNCS[fn][0], **d)
    elif fn in (1, 2, 3):
        d['entry'] = ent(a[1]); d['field'] = S(a[2])
        if fn != 2:
            d['bib_data_passed'] = bool(a[3])
    else:
        d['citations'] = [S(c) for c in a[1]]; d['min_crossrefs'] = a[2]
        if fn != 4:
            d['fields'] = [S(f) for f in a[3]]
    return d

def _to_coq(v):
    if isinstance(v, int):
        return '(A (%d))' % v
    return '(L [%s])' % '; '.join(_to_coq(x) for x in v)

def _from_tokens(toks):
    """inverse of the Gallina flattening  A z -> 0 z ;  L l -> 1 items 2"""
    pos = [0]
    def item():
        t = toks[pos[0]]; pos[0] += 1
        if t == 0:
            z = toks[pos[0]]; pos[0] += 1
            return z
        assert t == 1
        out = []
        while toks[pos[0]] != 2:
            out.append(item())
        pos[0] += 1
        return out
    return item()

_FLAT = """
Fixpoint flat (s : sexp) : list Z :=
  match s with
  | A z => [0%Z; z]
  | L l => 1%Z :: (fix go (l : list sexp) : list Z := match l with [] => [2%Z] | x :: r => flat x ++ go r end) l
  end.
Open Scope Z_scope.
"""

def vm_crosscheck(ck, tier, rng):
    """extraction cross-check: the same cases through the extracted OCaml runner and through
    Eval vm_compute of the same dispatch function inside Coq"""
    import os, re
    k = 40 if tier == 'quick' else 400
    r = random.Random(rng.random())
    cases = []
    for i in range(k):
        db = rand_db(r, r.choice([1, 2, 3, 4, 6]), alias=r.random() < 0.2, dupkeys=r.random() < 0.1)
        keys = [x for x, _ in db]
        fn = r.choice([1, 2, 3, 4, 5, 6, 7, 8, 9])
        if fn in (1, 2, 3):
            a = [db, r.choice(db)[1], r.choice(QNAMES)] + ([1] if fn != 2 else [])
        elif fn == 9:
            a = [db, r.sample(QNAMES, 3), 1]
        else:
            a = [db, r.choice([['*'], r.sample(keys, r.randint(1, len(keys))), ['ghost'] + keys[:1]]), r.choice([0, 1, 2])] + ([ALLF] if fn != 4 else [])
        cases.append((fn, norm(model_arg(fn, norm(a)))))
    runner = ck.model.run(cases, ck.rundir, shards=1)
    src = open(os.path.join(COQ, 'Extr', 'C14.v')).read()
    body = src[:src.index('Extraction "model.ml"')]
    body = '\n'.join(l for l in body.split('\n') if not l.startswith('Require'))
    v = body + _FLAT
    for i, (fn, a) in enumerate(cases):
        v += 'Eval vm_compute in (%d, flat (dispatch %d %s)).\n' % (i, fn, _to_coq(a))
    path = os.path.join(ck.rundir, 'c14_vm_crosscheck.v')
    open(path, 'w').write(v)
    rc, out = coqc_file(path, ck.rundir)
    fails = []
    if rc != 0:
        fails.append(('coqc', out[-600:], False))
    else:
        blocks = re.findall(r'=\s*\((\d+),\s*\[(.*?)\]\)\s*:', out, flags=re.S)
        got = {}
        for idx, toks in blocks:
            got[int(idx)] = _from_tokens([int(t) for t in re.findall(r'-?\d+', toks)])
        for i, (fn, a) in enumerate(cases):
            if got.get(i) != runner[i]:
                fails.append(('case %d fn %d %s' % (i, fn, sx(a)[:200]), 'runner %r vs vm_compute %r' % (runner[i], got.get(i)), False))
    return {'name': 'extraction_vs_vm_compute', 'evaluations': len(cases), 'failures': fails[:3],
            'info': 'the extracted OCaml runner and vm_compute inside Coq agree on dispatch for %d random cases' % len(cases)}

ANCHORED = [('pybtex/database/__init__.py', 500, 534), ('pybtex/database/__init__.py', 246, 271),
            ('pybtex/bibtex/interpreter.py', 97, 132), ('pybtex/style/template.py', 252, 267),
            ('pybtex/style/formatting/__init__.py', 53, 96)]

def line_coverage(ck, tier, rng):
    """executed-line percentage of the anchored line ranges under a sample of the generated cases
    (measures generator blind spots; thorough tier only)"""
    import os, coverage
    files = sorted(set(os.path.join(REPO, f) for f, _, _ in ANCHORED))
    cov = coverage.Coverage(include=files, data_file=None)
    r = random.Random(rng.random())
    sample = []
    for k, (stream, fn, a) in enumerate(gen('quick', r)):
        if k % 7 == 0 or stream in ('pinned', 'end_to_end', 'long'):
            sample.append((fn, norm(a)))
    cov.start()
    try:
        for fn, a in sample:
            FUNCS[fn][1](a)
    finally:
        cov.stop()
    info, fails = {}, []
    for f, lo, hi in ANCHORED:
        _, stmts, _, missing, _ = cov.analysis2(os.path.join(REPO, f))
        src = open(os.path.join(REPO, f)).read().split('\n')
        isdef = lambda l: src[l - 1].strip().startswith(('def ', 'class ', '@'))      # executed at import time
        inr = [l for l in stmts if lo <= l <= hi and not isdef(l)]
        miss = [l for l in missing if lo <= l <= hi and not isdef(l)]
        info['%s:%d-%d' % (f, lo, hi)] = {'statements': len(inr), 'executed': len(inr) - len(miss),
                                           'not_executed': [[l, src[l - 1].strip()] for l in miss]}
    # a blind spot of the generators is information, not a violation of the property
    return {'name': 'impl_line_coverage', 'evaluations': len(sample), 'failures': fails, 'info': info}

def extra_checks(ck, tier, rng):
    yield vm_crosscheck(ck, tier, rng)
    if tier == 'thorough':
        yield line_coverage(ck, tier, rng)
    # the oracle joins person names as given: every name the generators use must be its own str()
    from pybtex.database import Person
    names = ['E%d' % i for i in range(0, 200)] + ['Knuth, D%d' % i for i in range(0, 200)]
    fails = [(n, 'str(Person(%r)) = %r' % (n, str(Person(n))), False) for n in names if str(Person(n)) != n]
    yield {'name': 'person_names_are_canonical', 'evaluations': len(names), 'failures': fails[:3],
           'info': 'generator person names are fixed points of str(Person(.)), so the oracle can join them itself'}

RULE = ('exhaustive: every cross-reference graph over n <= 3 entries (crossref of each entry: none / each entry incl. itself, '
        'spelled in either case / dangling) x every assignment of {title field, editor role} to the entries x every start entry x '
        '{title, editor} through Entry._find_field; the same databases through both engines (BST: bst parser + Interpreter READ/ITERATE '
        'writing every field; Python: BaseStyle.format_bibliography with a template writing every field) and through the glue '
        '(Field.value, Crossref.value, template field(), add_extra_citations, strict mode). random: graphs of 2..12 entries '
        '(chains, cycles, trees, random), key/field-name case variation, aliased objects, repeated keys, foreign start entry, '
        'empty values, roles without persons, citations incl. *, missing and repeated ones, min_crossrefs -1..3. filtered_chains: from .bib text, '
        'both engines reading the file filtered by the citations -- chains of length 0..3 x which ancestor defines the field x every citation list '
        '(child + any subset of ancestors, *) x min_crossrefs 1..3 x four stock styles, children first; the same through Parser(wanted_entries). '
        'multi_source: the chain (length 1..3) cut into 2-3 consecutive sources in every way x defining ancestor x explicit citation lists, through Interpreter.run / format_from_strings, '
        'format_from_files of both engines on real files, make_bibliography with \\bibdata{a,b} of both engines, and one Parser over several sources. '
        'mutation_history: look-ups interleaved with edits (set/delete field, set/remove crossref, replace an entry, new BibliographyData) on one set of live objects, '
        'every history of <= 3 operations over a 14-operation alphabet plus random histories of 4..13 operations, each look-up through _find_field / Field.value / field(). '
        'person_roles: chains 1..3 x every assignment of the role author x citation lists, BST field vs names() of the stock styles. long: chains and '
        'cycles of 20..150 entries. malformed: half of the crossrefs dangling. distinct = distinct (function, argument); '
        'non-trivial = the database has at least one crossref field and the call returned.')
EXHAUSTIVE = {'quick': 'all chains of length 0..3 x defining ancestor x citation subsets x min_crossrefs 1..3 read filtered through both engines; all graphs over <= 3 entries x {title, editor} assignments x all start entries x {title, editor} via Entry._find_field (engines: all for n <= 2, every 4th database for n = 3)',
              'thorough': 'as quick with both engines on every database, plus 2 entries x {title, editor, year}, plus all graphs over 4 entries x title assignments'}
TRUSTED_BASE = ['modelled (not verified) code: pybtex/database/__init__.py Entry._find_field/_find_person_field/_find_crossref_field, BibliographyData.add_extra_citations/_expand_wildcard_citations/_get_crossreferenced_citations; pybtex/bibtex/interpreter.py Field.value/Crossref.value/command_read/remove_missing_citations/_iterate; pybtex/style/template.py field() and names(); BibliographyData.want_entry/get_canonical_key/add_entry (filtered reading); pybtex/style/formatting/__init__.py format_bibliography/format_entries/format_entry',
                'str(Person) is an input of the model (a person is represented by its str()); the .bib parsers, the BST built-ins missing$/if$/write$/newline$ and the template combinators first_of/optional/join are exercised by the implementation runs but not modelled']
ASSUMPTIONS = ['keys and field names are ASCII (str.lower modelled on ASCII)',
               'cross-reference chains stay below CPython\'s recursion limit (498 hops from the top level at the default limit of 1000; deeper chains raise RecursionError); the model has no recursion limit',
               'object identity: two Entry objects with the same identity have the same content (trivially true in Python; a hypothesis ids_wf of the chain theorems)']
PARTIAL = ['lookup_depends_only_on_current_graph is trivially true of the model (it keeps no state); that the code keeps none either (no stale cache after an edit) is established by the mutation_history stream only',
           'names_inherit_refuted / names_own_partial: the stock styles\' names(role) does not see an inherited person role (known finding FC14a); the statement holds for roles the entry has itself and for every field read through field()',
           'filtered_chain_inherits assumes distinct keys and children-before-parents file order (the other order is finding F13 of C05/C06; Example children_first_needed)',
           'engines_agree / engines_agree_field are about ONE database handed to both engines; that the two engines build their databases differently from .bib text (BST: author/editor are fields, Python: persons) is outside the model and is covered by the end-to-end stream (title/year/note, four stock styles) only',
           'the chain theorems (find_field_spec, inherits_nearest, missing_along_chain) assume object identity ids_wf; find_terminates and own_field_wins do not',
           'CPython\'s recursion limit is not modelled: beyond 498 hops the implementation raises RecursionError (terminates, but not with a value)',
           'the BST variable named crossref (Crossref.value) is excluded from engines_agree: it is the resolved key, not an inherited field']
