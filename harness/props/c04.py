# C04 -- personal names are split into first / von / last / jr parts as BibTeX does.
# Model: coq/Model/Names.v (+ Model/BibtexStr.v split_tex_string, scan); spec: coq/Spec/Names.v;
# theorems: coq/Props/C04.v (proofs in coq/Proofs/Names*.v)
import itertools, random, json, os
from core import *
from props import c04_uni

ID = 'C04'

# ------------------------------------------------------------------------------------------
# implementation wrappers
def _person(*args, **kw):
    from pybtex.database import Person
    from pybtex import errors
    with errors.capture() as captured:
        p = Person(*args, **kw)
    return [[p.first_names, p.middle_names, p.prelast_names, p.last_names, p.lineage_names, p.bibtex_first_names],
            1 if captured else 0]

def impl_person(a): return call_impl(_person, S(a[0]))
def impl_person_parts(a):
    return call_impl(lambda: _person(S(a[0]), first=S(a[1]), middle=S(a[2]), prelast=S(a[3]), last=S(a[4]), lineage=S(a[5])))
def impl_split_space(a):
    from pybtex.bibtex.utils import split_tex_string
    return call_impl(split_tex_string, S(a[0]))
def impl_split_comma(a):
    from pybtex.bibtex.utils import split_tex_string
    return call_impl(split_tex_string, S(a[0]), ',')

FUNCS = {
    1: ('Person(string)', impl_person, ('T', 'S')),
    2: ('Person(string, first=, middle=, prelast=, last=, lineage=)', impl_person_parts, ('T', 'S', 'S', 'S', 'S', 'S', 'S')),
    4: ('split_tex_string(s)', impl_split_space, ('T', 'S')),
    5: ("split_tex_string(s, ',')", impl_split_comma, ('T', 'S')),
    6: ('letter class of a code point (str.isalpha/isupper/islower)', lambda a: c04_uni.py_class(a[0]), ('T', 'N')),
}

RULE = ('exhaustive_shapes: every sequence of up to N tokens over ten token classes (Capitalised, lowercase, braced, special-char upper, '
        'special-char lower, caseless word, empty group, hyphenated, tie-joined pair, brace-then-lowercase), each token made distinct by a position digit, '
        'x every placement of 0..3 commas in the gaps (also before the first and after the last token); '
        'exhaustive_chars: every string over {a B space ~ , { } \\} up to the length bound given to Person() and to split_tex_string with both separators; '
        'von_token_sweep: every string over {a B 1 { } \\} up to length 5 as the middle token of "Bq <tok> Bz" and as the first token of "<tok> Bz, Bq"; '
        'random: 1-7 tokens from a pool of 40 shapes, random separators (space runs, ~, "\\ ", all 29 whitespace code points), 0-4 commas; '
        'noise: random strings over {letters space ~ - { } \\ ,}; malformed: delete/duplicate/replace/truncate mutations of valid names; '
        'unicode_shapes: every sequence of up to 3 tokens over 19 classes (Greek, Cyrillic, accented Latin upper and lower, title-case digraph, Hebrew, Arabic, CJK, Devanagari, '
        'Arabic-Indic digit, currency sign, special characters and groups with Cyrillic/Hebrew letters, two ASCII classes) x 0..2 commas; unicode_token_sweep: every token of length <= 4 over '
        '{Cyrillic lower, Cyrillic upper, Hebrew, Arabic-Indic digit, {, }, \\}; class_table_sweep: the letter class of every covered code point (extracted table vs str.isalpha/isupper/islower); '
        'pinned: the inputs of F1 and of every disagreement seen while building the check. '
        'distinct = distinct (function, argument); non-trivial = the model returns a person with a non-empty von or jr part, or reports too many commas, or splits into >= 2 tokens.')
EXHAUSTIVE = {'quick': 'all token-class sequences of length <= 3 x 0..3 commas and a fixed third of those of length 4 x 0..2 commas (ten classes); all strings of length <= 5 over the 8-letter alphabet {a B space ~ , { } \\}; all middle tokens of length <= 5 over {a B 1 { } \\}',
              'thorough': 'all token-class sequences of length <= 3 x 0..3 commas and of length 4 x 0..2 commas (ten classes); all strings of length <= 5 over the 8-letter alphabet and of length 6 over {a space ~ , { }}; all middle tokens of length <= 6 over {a B 1 { } \\}'}
TRUSTED_BASE = ['modelled (not verified) code: pybtex/database/__init__.py Person.__init__/_parse_string (617-789) and pybtex/bibtex/utils.py '
                'split_tex_string/_find_closing_brace/BIBTEX_SPACE_RE (445-552), BibTeXString/scan_bibtex_string (96-147, 408-418)',
                'BIBTEX_SPACE_RE and the "," separator are hand-written matchers (Model/BibtexStr.v space_run, sep_comma), compared with the live '
                're objects through split_tex_string on the exhaustive character stream and a per-code-point sweep']
ASSUMPTIONS = ['letter classes beyond ASCII are the static table Model/NamesUni.v (U+0080..U+052F, Hebrew, Arabic, Devanagari, U+1E00..U+21FF, kana, CJK, full-width), re-derived from the running Python and swept through the extracted model on every run; other code points and the 33 cased-but-not-alphabetic code points of these blocks (U+0345, Roman numerals U+2160..217F) are outside the claimed domain',
               'Python str.isspace / regex \\s = the 29 code points of Base/PyChar.is_space (re-measured on every run over all of Unicode)']
PARTIAL = ['more than 100 nested braces in a token that does not start with a letter make Person() raise BibTeXError (a pybtex error, parse_name_guard, '
           'known finding FC04b, reported by the oracle): parse_name_total says "no foreign exception, no divergence" for every string, parse_name_ok gives success '
           'for every string with <= 100 opening braces',
           'code points outside the table of Model/NamesUni.v count as non-letters in the model; for the 33 cased-but-not-alphabetic code points the code itself is inconsistent '
           '(string[0].isupper()/islower() for the first character, char.isalpha() afterwards): excluded from the domain']

def describe(fn, a):
    if fn == 6:
        return {'function': FUNCS[fn][0], 'code_point': 'U+%04X' % a[0]}
    return {'function': FUNCS[fn][0], 'args': [S(x) for x in a]}

def nontrivial(fn, a, out):
    if fn == 6:
        return out != 0
    if out[0] != 0:
        return False
    if fn in (1, 2):
        p, rep = out[1]
        return bool(p[2] or p[4] or rep)
    return len(out[1]) >= 2

# ------------------------------------------------------------------------------------------
# the property itself, in plain Python, independent of pybtex
def o_profile(s):
    """(all opened braces are closed, maximal depth) -- a '}' at depth 0 is an ordinary character"""
    d = mx = 0
    for c in s:
        if c == '{':
            d += 1; mx = max(mx, d)
        elif c == '}' and d > 0:
            d -= 1
    return d == 0, mx

def o_split(s, comma):
    """split at brace-level-0 commas (comma=True: pieces are stripped, empty ones kept) or at brace-level-0
    whitespace, control spaces and unescaped ties (comma=False: empty pieces dropped)"""
    pieces, cur, d, i, n = [], [], 0, 0, len(s)
    while i < n:
        c = s[i]
        if c == '{':
            d += 1
        elif c == '}':
            if d > 0:
                d -= 1
        elif d == 0:
            if comma:
                if c == ',':
                    pieces.append(''.join(cur)); cur = []; i += 1
                    continue
            else:
                if c.isspace() or (c == '~' and not (i > 0 and s[i - 1] == '\\')):
                    pieces.append(''.join(cur)); cur = []; i += 1
                    continue
                if c == '\\' and i + 1 < n and s[i + 1] == ' ':
                    pieces.append(''.join(cur)); cur = []; i += 2
                    continue
        cur.append(c); i += 1
    pieces.append(''.join(cur))
    if comma:
        return [p.strip() for p in pieces]
    return [p.strip() for p in pieces if p]     # strip only matters for a token that ends inside a never-closed group

def o_special_lower(inner):
    """inner = the special character without its outer braces, starting with the backslash"""
    i, n = 1, len(inner)
    while i < n and inner[i].isalpha():      # control word
        i += 1
    i += 1                                    # the non-letter that ends it (or the one-character control symbol)
    while i < n:
        if inner[i].isalpha():
            return inner[i].islower()
        i += 1
    return False

def o_is_von(tok):
    """a token is 'lowercase' iff its first brace-level-0 letter is, or its first special character
    (a brace-level-0 '{' immediately followed by a backslash) has a lowercase first letter after the control sequence"""
    d, i, n = 0, 0, len(tok)
    while i < n:
        c = tok[i]
        if c == '{':
            if d == 0 and i + 1 < n and tok[i + 1] == '\\':
                j, dd = i + 1, 1
                while j < n:
                    if tok[j] == '{':
                        dd += 1
                    elif tok[j] == '}':
                        dd -= 1
                        if dd == 0:
                            break
                    j += 1
                return o_special_lower(tok[i + 1:j])
            d += 1
        elif c == '}':
            if d > 0:
                d -= 1
        elif d == 0 and c.isalpha():
            return c.islower()
        i += 1
    return False

def o_von_last(ts):
    """'von Last' part: the von part ends at the last lowercase token that is not the last token"""
    js = [i for i in range(len(ts) - 1) if o_is_von(ts[i])]
    j = js[-1] + 1 if js else 0
    return ts[:j], ts[j:]

def o_expect(s):
    s = s.strip()
    if not s:
        return [[], [], [], [], []], 0
    parts = o_split(s, True)
    rep = 1 if len(parts) > 3 else 0
    if rep:
        parts = parts[:2] + [' '.join(parts[2:])]
    lineage = []
    if len(parts) == 1:
        ts = o_split(s, False)
        vs = [i for i in range(len(ts) - 1) if o_is_von(ts[i])]
        if vs:
            fm, von, last = ts[:vs[0]], ts[vs[0]:vs[-1] + 1], ts[vs[-1] + 1:]
        else:
            fm, von, last = ts[:-1], [], ts[-1:]
    else:
        von, last = o_von_last(o_split(parts[0], False))
        fm = o_split(parts[-1], False)
        if len(parts) == 3:
            lineage = o_split(parts[1], False)
    return [fm[:1], fm[1:], von, last, lineage], rep

_DROP = set('~\\,')
def o_content(x):
    return ''.join(c for c in x if not c.isspace() and c not in _DROP)

def oracle(fn, arg, out):
    if fn == 6:
        return None
    strs = [S(x) for x in arg]
    closed = all(o_profile(x)[0] for x in strs)
    if out[0] == 2:
        return 'a foreign (non-pybtex) exception was raised for %r' % (strs,)
    if out[0] == 1:
        return 'a pybtex error was raised (not merely reported): parsing does not succeed for %s' % (
            ', '.join(repr(x) if len(x) < 60 else repr(x[:25] + '...' + x[-25:]) + ' (length %d, brace depth %d)' % (len(x), o_profile(x)[1]) for x in strs),)
    if fn in (4, 5):
        got = [S(t) for t in out[1]]
        exp = o_split(strs[0], fn == 5) if strs[0] else []
        if got != exp:
            return 'split_tex_string(%r%s) = %r, tokens at brace level 0 are %r' % (strs[0], ", ','" if fn == 5 else '', got, exp)
        if closed:
            for t in got:
                if not o_profile(t)[0]:
                    return 'a braced group was split: token %r of %r' % (t, strs[0])
        if o_content(''.join(got)) != o_content(strs[0]):
            return 'characters lost, duplicated or reordered: %r -> %r' % (strs[0], got)
        return None
    lists = [[S(t) for t in l] for l in out[1][0]]
    rep = out[1][1]
    first, middle, prelast, last, lineage, bfn = lists
    if bfn != first + middle:
        return 'bibtex_first_names %r is not first + middle' % (bfn,)
    for l in lists:
        for t in l:
            if t == '' or t != t.strip():
                return 'empty or unstripped token %r' % (t,)
    if fn == 1 and len(middle) > 0 and len(first) != 1:
        return 'middle names without exactly one first name'
    # (since the fix bae0311 a never-closed group extends to the end of the string, so the brace level is defined for every string)
    exp, erep = o_expect(strs[0])
    if fn == 2:
        extra = [o_split(x, False) for x in strs[1:6]]
        exp = [exp[k] + extra[k] for k in range(5)]
    if lists[:5] != exp:
        return 'Person(%s): first/middle/von/last/jr = %r, BibTeX rule gives %r' % (', '.join(map(repr, strs)), lists[:5], exp)
    if rep != erep:
        return 'too-many-commas report is %d, expected %d for %r' % (rep, erep, strs[0])
    if closed:
        for t in sum(lists[:5], []):
            if not o_profile(t)[0]:
                return 'a braced group was split: token %r' % (t,)
    return None

# ------------------------------------------------------------------------------------------
# known finding FC04b: the recursion guard of BibTeXString (max_level = 100): a token that does not start with a letter and
# nests braces more than 100 deep makes Person() raise BibTeXError('too many nested braces')
def _sig_fc04b(kind, fn, arg, detail):
    if kind != 'oracle' or fn not in (1, 2) or not str(detail).startswith('a pybtex error was raised'):
        return False
    return max(o_profile(S(x))[1] for x in arg) > 100

KNOWN_SIGNATURES = {'FC04b': _sig_fc04b}

def replay_known(finding):
    p = finding.get('pinned')
    if not p:
        return None
    arg = norm(p['arg'])
    return oracle(p['fn'], arg, FUNCS[p['fn']][1](arg))

def search_failing(ck, fn, arg, rng):
    """a model/implementation disagreement: look for an input near it on which the property itself fails"""
    s = S(arg[0])
    cands = [s, 'Bq ' + s + ' Bz', s + ' Bz, Bq', 'Bq, ' + s, 'de ' + s + ' Bz', s + ' Bz', 'Bq ' + s, 'Bq de ' + s + ' Bz', s + ', jr, Bq']
    for t in s.split():
        cands += ['Bq ' + t + ' Bz', t + ' Bz, Bq']
    for c in cands:
        for f in (1, 4, 5):
            a = norm([c])
            try:
                m = oracle(f, a, FUNCS[f][1](a))
            except Exception:
                m = None
            if m and not _sig_fc04b('oracle', f, a, m):
                return (a, m) if f == fn else (a, '[via %s] %s' % (FUNCS[f][0], m))
    return None

# ------------------------------------------------------------------------------------------
# generators
WS = [chr(c) for c in (32, 9, 10, 11, 12, 13, 28, 31, 133, 160, 5760, 8192, 8195, 8201, 8202, 8232, 8233, 8239, 8287, 12288)]
CLASSES = ['Ab', 'de', '{V w}', "{\\'E}x", "{\\'e}X", '1st', '{}', 'Je-an', 'A.~b.', '{A}b']
ALPHA = 'aB ~,{}\\'
POOL = ['Jean', 'de', 'la', 'von', 'Fontaine', '{Van}', "{\\'E}douard", "{\\'e}x", '1st', '{}', 'Jean-Paul', 'A.~B.', 'jr',
        '{\\relax van}', '\\LaTeX', "d'Aviano", '{\\a{b}', 'x\\ y', 'q\\~r', '{von der}', '{\\o}', '{\\OE}x', "{\\'{e}}", "{\\'{E}}b",
        '{A}b', '{a}B', '{{\\e}}x', '{-}x', '-x', '.Y', '{\\1a}', '{\\1A}', '{\\ab c}', '{\\ab C}', 'III', "{\\'}", '{x}{\\y Z}', 'a}b', 'M{\\"u}ller', "{\\'e"]
UNI_CLASSES = ['\u0391\u03bb\u03c6\u03b1', '\u03c6\u03bf\u03bd', '\u0418\u0432\u0430\u043d', '\u0444\u043e\u043d', '\u00c9mile', '\u00e9x', '\u01c5x',
               '\u05d1\u05df', '\u0628\u0646', '\u738b', '\u0930\u093e\u092e', '\u0663x', '\u20acx', '{\\\'\u042d}x', '{\\\'\u044d}X', '{\u05d3}\u0431', '-\u0411x', 'Ab', 'de']
UNI_ALPHA = ['\u0431', '\u0411', '\u05d1', '\u0663', '{', '}', '\\']
PINNED = ['\u05d3\u05d5\u05d3 \u05d1\u05df \u05d2\u05d5\u05e8\u05d9\u05d5\u05df', 'Jean \u05d1\u05df Last', 'Jean \u0434\u0435 Last', 'Jean \u0394\u0395 Last', 'Jean \u01c5x Last', 'x ' + '{' * 101 + '}' * 101 + ' y', 'x ' + '{' * 101 + ' y', '~', '~ ~', '\\ ', ',', ',,', ',,,', '{', '}', '{\\', '{\\}', 'a,b,c,d,e', 'a,b,c\\,d', '~,~', ' , ', 'Jean {a\\b}c Last', '{a\\b}c Last, Jean',
          'Jean {ab}c Last', 'Jean {\\o} Last', '{' * 101 + 'a', 'a ' + '{' * 101 + 'a', '{' * 100 + 'a' + '}' * 100 + ' b', 'de la Fontaine', 'Jean de la Fontaine',
          'de la Fontaine, Jean', 'de la Fontaine, jr, Jean', 'Jean de', 'de', 'jean de la fontaine', 'Jean de La Fontaine du Bois Joli', 'Jean {de} la Fontaine',
          '{a{b c d', '{a{b, c', 'a{b} c}d {e', 'x\\~y z', 'x\\\\~y z', 'x\\\\ y', 'a b', 'a b　c', 'A,\\ B', '\\', 'a\\', '{\\a b} c', '{\\a, b}, c']

def _shape(classes, commas):
    """classes: tuple of class indices; commas: tuple, number of commas in each of the len+1 gaps"""
    out = [',' * commas[0]]
    for i, c in enumerate(classes):
        out.append(CLASSES[c] + str(i) + ',' * commas[i + 1])
    return ' '.join(x for x in out if x)

def _uni_shapes(quick):
    n = len(UNI_CLASSES)
    for ntok, maxc in [(1, 2), (2, 2), (3, 2 if not quick else 1)]:
        placements = [p for k in range(maxc + 1) for p in _comma_placements(ntok + 1, k)]
        for classes in itertools.product(range(n), repeat=ntok):
            for pl in placements:
                out = [',' * pl[0]]
                for i, c in enumerate(classes):
                    out.append(UNI_CLASSES[c] + str(i) + ',' * pl[i + 1])
                yield ' '.join(x for x in out if x)

def _comma_placements(ngaps, k):
    for combo in itertools.combinations_with_replacement(range(ngaps), k):
        c = [0] * ngaps
        for g in combo:
            c[g] += 1
        yield tuple(c)

def gen(tier, rng):
    quick = tier == 'quick'
    for s in PINNED:
        yield ('pinned', 1, [s])
        yield ('pinned', 4, [s])
        yield ('pinned', 5, [s])
    # (a) exhaustive over token-class shapes
    ncls = len(CLASSES)
    plan = [(0, 3), (1, 3), (2, 3), (3, 3), (4, 2)]
    for ntok, maxc in plan:
        placements = [p for k in range(maxc + 1) for p in _comma_placements(ntok + 1, k)]
        for classes in itertools.product(range(ncls), repeat=ntok):
            if ntok == 4 and quick and (classes[0] + 3 * classes[1] + 7 * classes[2] + classes[3]) % 3 != 0:
                continue      # quick tier: a fixed third of the 4-token shapes
            for pl in placements:
                yield ('exhaustive_shapes', 1, [_shape(classes, pl)])
    # (b) exhaustive over characters (totality, separators, unbalanced braces)
    for n in range(0, 6):
        for tup in itertools.product(ALPHA, repeat=n):
            s = ''.join(tup)
            yield ('exhaustive_chars', 1, [s])
            yield ('exhaustive_chars', 4, [s])
            yield ('exhaustive_chars', 5, [s])
    if not quick:
        for tup in itertools.product('a ~,{}', repeat=6):
            yield ('exhaustive_chars', 1, [''.join(tup)])
    # (c) the case rule: every small token in a position where only its case decides
    for n in range(1, 6 if quick else 7):
        for tup in itertools.product('aB1{}\\', repeat=n):
            t = ''.join(tup)
            yield ('von_token_sweep', 1, ['Bq ' + t + ' Bz'])
            if n <= 4:
                yield ('von_token_sweep', 1, [t + ' Bz, Bq'])
    # (c') letters beyond ASCII: Greek, Cyrillic, accented Latin (upper / lower), title-case, caseless scripts, non-ASCII digits and symbols
    for classes_commas in _uni_shapes(quick):
        yield ('unicode_shapes', 1, [classes_commas])
    for n in range(1, 5 if quick else 6):
        for tup in itertools.product(UNI_ALPHA, repeat=n):
            t = ''.join(tup)
            yield ('unicode_token_sweep', 1, ['Bq ' + t + ' Bz'])
            if n <= 3:
                yield ('unicode_token_sweep', 1, [t + ' Bz, Bq'])
    for lo, hi in c04_uni.DOMAIN:
        cps = range(lo, hi + 1) if hi - lo < 3000 else list(range(lo, lo + 64)) + [rng.randint(lo, hi) for _ in range(200)] + [hi]
        for cp in cps:
            if not c04_uni.excluded(cp):
                yield ('class_table_sweep', 6, [cp])
    for cp in range(0, 128):
        yield ('class_table_sweep', 6, [cp])
    # (d) structured random
    def sep():
        r = rng.random()
        if r < 0.55: return ' '
        if r < 0.7: return '~'
        if r < 0.8: return ' ' * rng.randint(2, 3)
        if r < 0.87: return '\\ '
        if r < 0.95: return rng.choice(WS)
        return rng.choice(WS) + '~' + rng.choice(WS)
    def name():
        k = rng.randint(1, 7)
        parts = [rng.choice(POOL) if rng.random() < 0.7 else rng.choice(CLASSES + UNI_CLASSES) for _ in range(k)]
        ncomma = rng.choice([0, 0, 0, 1, 1, 2, 2, 3, 4])
        for _ in range(ncomma):
            parts.insert(rng.randint(0, len(parts)), ',')
        s = ''
        for i, p in enumerate(parts):
            if i and not (p == ',' and rng.random() < 0.8):
                s += sep()
            s += p
        return s
    for i in range(4000 if quick else 30000):
        s = name()
        if rng.random() < 0.2:
            s = rng.choice(WS) + s + rng.choice(WS)
        yield ('random', 1, [s])
        if i % 4 == 0:
            yield ('random', 2, [s if rng.random() < 0.5 else ''] + [sep().join(rng.choice(POOL) for _ in range(rng.randint(0, 2))) for _ in range(5)])
        if i % 4 == 1:
            yield ('random', 4, [s]); yield ('random', 5, [s])
    # (e) noise
    NOISE = 'abcXYZ  ~~-{{}}\\,,.1\''
    for i in range(3000 if quick else 20000):
        s = ''.join(rng.choice(NOISE) for _ in range(rng.randint(0, 24)))
        yield ('noise', 1, [s])
        if i % 3 == 0:
            yield ('noise', 4, [s]); yield ('noise', 5, [s])
    # (f) malformed: character-level mutations of valid names
    for i in range(2000 if quick else 15000):
        s = list(name())
        for _ in range(rng.randint(1, 3)):
            if not s:
                break
            j = rng.randrange(len(s)); r = rng.random()
            if r < 0.3: del s[j]
            elif r < 0.5: s.insert(j, s[j])
            elif r < 0.8: s[j] = rng.choice('{}\\~, aB')
            else: s = s[:j]
        yield ('malformed', 1, [''.join(s)])
    # deep nesting around the recursion guard (max_level = 100)
    for d in (99, 100, 101, 102):
        yield ('nesting', 1, ['Bq ' + '{' * d + 'x' + '}' * d + ' Bz'])
        yield ('nesting', 1, ['Bq {\\a' + '{' * d + 'x' + '}' * d + '} Bz'])
        yield ('nesting', 1, ['a' + '{' * d + 'x' + '}' * d + ' Bz'])

def extra_checks(ck, tier, rng):
    # the letter-class table of Model/NamesUni.v, re-derived from the running Python
    src = open(os.path.join(COQ, 'Model', 'NamesUni.v')).read()
    want = c04_uni.table_text()
    fails = [] if want in src else [('Model/NamesUni.v', 'the table in the file differs from the one derived from this Python (str.isalpha/isupper/islower); regenerate it with harness/props/c04_uni.py', False)]
    yield {'name': 'letter_class_table', 'evaluations': sum(hi - lo + 1 for lo, hi in c04_uni.DOMAIN), 'failures': fails,
           'info': '%d runs over %d code points; %d cased-but-not-alphabetic code points excluded: %s' % (
               len(c04_uni.entries()), sum(hi - lo + 1 for lo, hi in c04_uni.DOMAIN), len(c04_uni.excluded_list()),
               ' '.join('U+%04X' % c for c in c04_uni.excluded_list()))}
    # the separator class of BIBTEX_SPACE_RE, one code point at a time, all of Unicode
    from pybtex.bibtex.utils import BIBTEX_SPACE_RE
    model_ws = set(list(range(9, 14)) + list(range(28, 33)) + [133, 160, 5760] + list(range(8192, 8203)) + [8232, 8233, 8239, 8287, 12288])
    fails, n = [], 0
    for cp in range(0x110000):
        if 0xD800 <= cp <= 0xDFFF:
            continue
        c = chr(cp); n += 1
        a = bool(BIBTEX_SPACE_RE.fullmatch(c)); m = cp in model_ws or cp == 126
        if a != m or (c.isspace() != (cp in model_ws)):
            fails.append(('U+%04X' % cp, 'BIBTEX_SPACE_RE=%s isspace=%s model=%s' % (a, c.isspace(), m), False))
    yield {'name': 'separator_class_sweep', 'evaluations': n, 'failures': fails[:5],
           'info': 'BIBTEX_SPACE_RE matches a single code point iff it is one of the 29 whitespace code points or ~'}
