# C04 -- personal names are split into first / von / last / jr parts.
# Model: coq/Model/Names.v (+ Model/BibtexStr.v); theorems: coq/Props/C04.v
import itertools, random
from core import *

ID = 'C04'

def _person(*args, **kw):
    from pybtex.database import Person
    from pybtex import errors
    with errors.capture() as captured:
        p = Person(*args, **kw)
    return [[p.first_names, p.middle_names, p.prelast_names, p.last_names, p.lineage_names], 1 if captured else 0]

def impl_person(a): return call_impl(_person, S(a[0]))
def impl_person_parts(a):
    return call_impl(lambda: _person(S(a[0]), first=S(a[1]), middle=S(a[2]), prelast=S(a[3]), last=S(a[4]), lineage=S(a[5])))
def impl_str(a):
    from pybtex.database import Person
    from pybtex import errors
    def f():
        with errors.capture():
            return str(Person(S(a[0])))
    return call_impl(f)

FUNCS = {
    1: ('Person(string)', impl_person, ('T', 'S')),
    2: ('Person(string, first=, middle=, prelast=, last=, lineage=)', impl_person_parts, ('T', 'S', 'S', 'S', 'S', 'S', 'S')),
    3: ('str(Person(string))', impl_str, ('T', 'S')),
}
RULE = 'placeholder'
EXHAUSTIVE = {}
TRUSTED_BASE = []
ASSUMPTIONS = []
PARTIAL = []

def describe(fn, a):
    return {'function': FUNCS[fn][0], 'args': [S(x) for x in a]}

ALPHA = 'aB ~,{}\\'
def gen(tier, rng):
    for n in range(0, 6 if tier == 'quick' else 7):
        for tup in itertools.product(ALPHA, repeat=n):
            s = ''.join(tup)
            yield ('exhaustive', 1, [s])
            if n <= 4:
                yield ('exhaustive', 3, [s])
    toks = ['Jean', 'de', 'la', 'von', 'Fontaine', '{Van}', "{\\'E}douard", "{\\'e}x", '1st', '{}', 'Jean-Paul', 'A.~B.', 'jr', '{\\relax van}', '\\LaTeX', 'd\'Aviano', '{\\a{b}', 'x\\ y', 'q\\~r']
    for i in range(3000 if tier == 'quick' else 40000):
        k = rng.randint(1, 6)
        parts = [rng.choice(toks) for _ in range(k)]
        ncomma = rng.choice([0, 0, 1, 1, 2, 3, 4])
        for _ in range(ncomma):
            parts.insert(rng.randint(0, len(parts)), ',')
        s = rng.choice([' ', '  ', '~', ' ']).join(parts).replace(' ,', ',')
        yield ('random', 1, [s])
        if i % 5 == 0:
            yield ('random', 2, [s] + [' '.join(rng.choice(toks) for _ in range(rng.randint(0, 2))) for _ in range(5)])
