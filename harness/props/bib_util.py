# shared by c10.py and c01.py: implementation wrappers around the .bib reader, result encoding
# (same shape as coq/Extr/C10.v), pattern tables.
import io, re
from core import *

MODES = {0: 'strict', 1: 'non-strict', 2: 'capture'}
_WARN = re.compile(r'^(?:<INPUT>: )?WARNING: (.*)$', re.M)
_LINE = re.compile(r'in line (\d+)')
_PARSER_CLS = {}

def enc_person(p):
    return [p.first_names, p.middle_names, p.prelast_names, p.last_names, p.lineage_names]

def enc_entry(e, dirty):
    return [1 if dirty else 0, e.key, e.type, e.original_type,
            [[k, v] for k, v in e.fields.items()],
            [[role, [enc_person(p) for p in ps]] for role, ps in e.persons.items()]]

def err_line(e):
    l = getattr(e, 'lineno', None)
    return l if isinstance(l, int) else -1

def parse_in_mode(mode, text, kw=None):
    return parse_seq(mode, [text], kw)

def parse_seq(mode, texts, kw=None):
    """ONE Parser() instance reading the texts one after the other (parse_string each) in strict (0) / non-strict (1) / capture (2) mode.
    Returns [0, [entries, preamble, errors]] | [1, 0, line] (pybtex error escaped) | [2] (foreign exception).
    entries/preamble items carry a 'dirty' flag: an error was reported between the return of the
    previous BibliographyData.add_entry/add_to_preamble call and the return of this one."""
    import pybtex.io
    from pybtex import errors
    from pybtex.exceptions import PybtexError
    from pybtex.plugin import find_plugin
    cls = _PARSER_CLS.get('c')
    if cls is None:      # looked up once per process: the entry-point scan takes ~8 ms
        cls = _PARSER_CLS['c'] = find_plugin('pybtex.database.input', 'bibtex')
    old_strict, old_stderr = errors.strict, pybtex.io.stderr
    buf = io.StringIO()
    pybtex.io.stderr = buf
    errors.strict = (mode == 0)
    captured = None
    def nerr():
        if mode == 2:
            return len(captured)
        if mode == 1:
            return len(_WARN.findall(buf.getvalue()))
        return 0
    try:
        parser = cls(**(kw or {}))
        data = parser.data
        state = {'last': 0}
        dirty, pre_dirty = {}, []
        orig_add, orig_pre = data.add_entry, data.add_to_preamble
        def add_entry(key, entry):
            orig_add(key, entry)
            n = nerr()
            dirty[id(entry)] = n > state['last']
            state['last'] = n
        def add_to_preamble(*values):
            orig_pre(*values)
            n = nerr()
            for _ in values:
                pre_dirty.append(n > state['last'])
            state['last'] = n
        data.add_entry = add_entry
        data.add_to_preamble = add_to_preamble
        def run():
            for text in texts:
                r = parser.parse_string(text)
            ents = [enc_entry(e, dirty.get(id(e), False)) for e in r.entries.values()]
            pre = [[1 if d else 0, v] for d, v in zip(pre_dirty, r.preamble_list)]
            if len(pre_dirty) != len(r.preamble_list):
                pre = [[0, v] for v in r.preamble_list]
            return ents, pre
        try:
            if mode == 2:
                with errors.capture() as captured:
                    ents, pre = run()
                    errs = [[0, err_line(e)] for e in captured]
            else:
                ents, pre = run()
                out = buf.getvalue()
                errs = []
                for msg in _WARN.findall(out):
                    m = _LINE.search(msg)
                    errs.append([0, int(m.group(1)) if (m and msg.lstrip().startswith(('syntax error', 'undefined string'))) else -1])
            return [0, norm([ents, pre, errs])]
        except PybtexError as e:
            return [1, 0, err_line(e)]
        except RecursionError:
            return [2]
        except Exception as e:
            return [2]
    finally:
        errors.strict = old_strict
        pybtex.io.stderr = old_stderr
        errors.captured_errors = None

def parse_all_modes(text, kw=None):
    return [parse_in_mode(m, text, kw) for m in (0, 1, 2)]

def lowlevel_in_mode(mode, text):
    """list(LowLevelParser(text, macros=<fresh case-insensitive month table>, handle_error=...))"""
    from pybtex.database.input.bibtex import LowLevelParser, month_names
    from pybtex.utils import CaseInsensitiveDict
    from pybtex.exceptions import PybtexError
    errs = []
    kw = dict(macros=CaseInsensitiveDict(month_names))
    if mode != 0:
        kw['handle_error'] = errs.append
    try:
        p = LowLevelParser(text, **kw)
        cmds = []
        for c in p:
            name, body = c[0], c[1]
            nl = name.lower()
            if nl == 'string':
                cmds.append([0, name, [] if body[0] is None else [body[0]], list(body[1])])
            elif nl == 'preamble':
                cmds.append([1, name, list(body[0])])
            else:
                cmds.append([2, name, [] if body[0] is None else [body[0]], [[k, list(v)] for k, v in body[1]]])
        return [0, norm([cmds, [[0, err_line(e)] for e in errs], []])]
    except PybtexError as e:
        return [1, 0, err_line(e)]
    except Exception:
        return [2]

# ---- canonical forms for the comparison model vs implementation
def canon_parse(r, clean_only=True):
    """error class dropped; of entries / preamble items produced while an error was being
    reported ('dirty') nothing is compared (the property leaves open what a corrupted entry
    contributes); the rest is compared in full, in order."""
    if not isinstance(r, list) or not r:
        return r
    if r[0] == 1:
        return [1, r[2] if len(r) > 2 else None]
    if r[0] == 0:
        ents, pre, errs = r[1]
        if clean_only:
            ents = [e[1:] for e in ents if not e[0]]
            pre = [p[1] for p in pre if not p[0]]
        return [0, ents, pre, [e[1] for e in errs]]
    return r

def canon_low(r):
    if not isinstance(r, list) or not r:
        return r
    if r[0] == 1:
        return [1, r[2] if len(r) > 2 else None]
    if r[0] == 0:
        cmds, errs, _ = r[1]
        if errs:      # partial results of a command that reported an error are left open
            return [0, len(cmds), [e[1] for e in errs]]
        return [0, cmds, []]
    return r

PATS = {0: 'NAME', 1: 'KEY_PAREN', 2: 'KEY_BRACE', 3: 'NUMBER'}
LITS = {'{': 'LBRACE', '}': 'RBRACE', '(': 'LPAREN', ')': 'RPAREN', '"': 'QUOTE', ',': 'COMMA', '=': 'EQUALS', '#': 'HASH', '@': 'AT'}
def live_pattern(p):
    from pybtex.database.input.bibtex import LowLevelParser
    if len(p) == 1:
        return getattr(LowLevelParser, PATS[p[0]])
    return getattr(LowLevelParser, LITS[chr(p[1])])

def impl_match(arg):
    pat, s = arg[0], S(arg[1])
    m = live_pattern(pat).match(s, 0)
    if not m:
        return []
    return norm([[m.group(), s[m.end():]]])

def impl_months(arg):
    from pybtex.database.input.bibtex import month_names
    from pybtex.utils import CaseInsensitiveDict
    d = CaseInsensitiveDict(month_names)
    return norm(sorted([k.lower(), d[k]] for k in d))

def impl_get_token(arg):
    from pybtex.scanner import Scanner, PrematureEOF
    pats, s = arg[0], S(arg[1])
    sc = Scanner(s)
    live = [live_pattern(p) for p in pats]
    try:
        t = sc.get_token(live)
    except PrematureEOF:
        return norm([[0], [s[sc.pos:], sc.lineno, sc.pos]])
    if t is None:
        return norm([[1], [s[sc.pos:], sc.lineno, sc.pos]])
    return norm([[2, pats[live.index(t.pattern)], t.value], [s[sc.pos:], sc.lineno, sc.pos]])

def impl_skip_to(arg):
    from pybtex.scanner import Scanner
    from pybtex.database.input.bibtex import LowLevelParser
    chars, s = S(arg[0]), S(arg[1])
    sc = Scanner(s)
    live = [getattr(LowLevelParser, LITS[c]) for c in chars]
    t = sc.skip_to(live)
    if t is None:
        return []
    return norm([[t.value, ord(t.value[-1]), [s[sc.pos:], sc.lineno, sc.pos]]])

def impl_normalize_ws(arg):
    from pybtex.textutils import normalize_whitespace
    return norm(normalize_whitespace(S(arg[0])))

WS29 = [chr(c) for c in list(range(9, 14)) + list(range(28, 33)) + [133, 160, 5760] + list(range(8192, 8203)) + [8232, 8233, 8239, 8287, 12288]]
