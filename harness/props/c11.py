# C11 -- format.name$ formats names as BibTeX does.
# Model: coq/Model/NameFormat.v (+ Model/BibtexStr.v, Model/Names.v); theorems: coq/Props/C11.v
import itertools, random, re
from core import *

ID = 'C11'

# ----------------------------------------------------------------------------------------
# implementation wrappers
def _names():
    from pybtex.bibtex import names
    return names

def _enc_part(p):
    n = _names()
    if isinstance(p, n.Text):
        return [0, p.text]
    tie = {None: 0, '~': 1, '~~': 2}[p.tie]
    return [1, p.pre_text, [ord(p.format_char)] if p.format_char else [], 1 if p.abbreviate else 0,
            [] if p.delimiter is None else [p.delimiter], p.post_text, tie]

def _mk_person(pl):
    from pybtex.database import Person
    p = Person()
    p.first_names = [S(x) for x in pl[0]]; p.middle_names = [S(x) for x in pl[1]]
    p.prelast_names = [S(x) for x in pl[2]]; p.last_names = [S(x) for x in pl[3]]
    p.lineage_names = [S(x) for x in pl[4]]
    return p

def impl_parse(a):
    return call_impl(lambda: [_enc_part(p) for p in _names().NameFormat(S(a[0])).parts])

def impl_format_name(a):
    from pybtex import errors
    def f():
        with errors.capture() as captured:
            r = _names().format_name(S(a[0]), S(a[1]))
        return [r, 1 if captured else 0]
    return call_impl(f)

def impl_builtin(a):
    """the format.name$ built-in, executed on a real Interpreter's stack"""
    from pybtex import errors
    from pybtex.bibtex.builtins import builtins
    from pybtex.bibtex.interpreter import Interpreter
    def f():
        it = Interpreter(None, None)
        it.push(S(a[0])); it.push(a[1]); it.push(S(a[2]))
        with errors.capture():
            builtins['format.name$'].execute(it)
        r = it.pop()
        if it.stack:
            raise RuntimeError('format.name$ left extra values on the stack')
        return [r, 0]
    return call_impl(f)

def impl_join(a):
    return call_impl(lambda: _names().join([S(w) for w in a[0]], S(a[1]), S(a[2])))
def impl_tie_or_space(a):
    return call_impl(lambda: _names().tie_or_space(S(a[0]), S(a[1]), S(a[2])))
def _raw(r):
    return [S(r[0]), S(r[1][0]) if r[1] else None, S(r[2][0]) if r[2] else None, S(r[3])]
def impl_part_format(a):
    return call_impl(lambda: _names().NamePart(_raw(a[0])).format(_mk_person(a[1])))
def impl_abbreviate(a):
    from pybtex.bibtex.utils import bibtex_abbreviate
    return call_impl(bibtex_abbreviate, S(a[0]), S(a[1][0]) if a[1] else None)
def impl_match(a):
    P = _names().NameFormatParser
    pat = [P.TEXT, P.NON_LETTERS, P.FORMAT_CHARS][a[0]]
    m = pat.match(S(a[1]))
    return len(m.group()) if m else 0
def impl_format_person(a):
    def f():
        nf = _names().NameFormat(S(a[0]))
        p = _mk_person(a[1])
        return ''.join(part.format(p) for part in nf.parts)
    return call_impl(f)
def impl_parse_name_part(a):
    def f():
        ps = _names().NameFormatParser(S(a[0]))
        pre, fc, dl, post = ps.parse_name_part()
        return [[pre, [] if fc is None else [fc], [] if dl is None else [dl], post], ps.get_remainder()]
    return call_impl(f)

def impl_history(a):
    """several calls one after the other in ONE process (a cache or any other state kept between calls
    shows up as a call whose answer depends on the earlier ones)"""
    # start every history from freshly loaded modules, so that its answers do not depend on what this worker
    # process (or the shrinker) ran before: a replay in a new process gives the same answers
    import importlib, pybtex.bibtex.utils, pybtex.bibtex.names, pybtex.bibtex.builtins
    for m in (pybtex.bibtex.utils, pybtex.bibtex.names, pybtex.bibtex.builtins):
        importlib.reload(m)
    out = []
    for c in a:
        if c[3]:
            out.append(impl_builtin([c[0], c[1], c[2]]))
        else:
            out.append(impl_format_name([c[0], c[2]]))
    return out

PERSON = ('T', ('L', 'S'), ('L', 'S'), ('L', 'S'), ('L', 'S'), ('L', 'S'))
FUNCS = {
    1: ('NameFormat(format).parts', impl_parse, ('T', 'S')),
    2: ('pybtex.bibtex.names.format_name(name, format)', impl_format_name, ('T', 'S', 'S')),
    3: ('format.name$ built-in (names, n, format)', impl_builtin, ('T', 'S', 'I', 'S')),
    4: ('pybtex.bibtex.names.join(words, tie, space)', impl_join, ('T', ('L', 'S'), 'S', 'S')),
    5: ('pybtex.bibtex.names.tie_or_space(word, tie, space)', impl_tie_or_space, ('T', 'S', 'S', 'S')),
    6: ('NamePart(format_list).format(person)', impl_part_format, ('T', ('T', 'S', ('O', 'S'), ('O', 'S'), 'S'), PERSON)),
    7: ('pybtex.bibtex.utils.bibtex_abbreviate(string, delimiter)', impl_abbreviate, ('T', 'S', ('O', 'S'))),
    8: ('NameFormatParser.TEXT/NON_LETTERS/FORMAT_CHARS.match', impl_match, ('T', 'X', 'S')),
    9: ('NameFormat(format).format over a Person with given part lists', impl_format_person, ('T', 'S', PERSON)),
    10: ('NameFormatParser.parse_name_part', impl_parse_name_part, ('T', 'S')),
    11: ('history of format_name / format.name$ calls in one process', impl_history, ('L', ('T', 'S', 'I', 'S', 'B'))),
}

def canon(fn, r):
    if fn == 11:
        # every call on its own; the "too many commas" report (memoised built-in, C18) is not compared
        return [[0, [x[1][0], 0]] if isinstance(x, list) and x[:1] == [0] else canon_res(x) for x in r]
    r = canon_res(r)
    if fn == 3 and isinstance(r, list) and r[:1] == [0]:
        return [0, [r[1][0], 0]]     # the memoised built-in: the "too many commas" report is C18's business
    return r

RULE = ('exhaustive: every format string over {{ }} f v X ~ . 1 _ up to the length bound through the parser, and through format_name with two fixed names; '
        'every raw part (pre x letters x delimiter x post) x every person with 0..3 tokens per part from a 6-token pool through NamePart.format; '
        'every word list of length 0..5 over a 6-word pool through join; every 1..2(3)-part format over a pool of part shapes x a pool of names; '
        'the three parser regexes on every string up to length 5 over a 10-letter alphabet. '
        'random: names from the C04 generator (von/jr/commas/ties/special characters) x formats from a grammar with all four letters, full and abbreviated, '
        'upper case, pre/post text with nested braces, explicit separators, single/double/triple trailing ties, level-0 text; name lists with index in and out of range. '
        'malformed: single-character corruptions (delete/duplicate/replace/insert) of grammar formats, raw noise, nesting to depth 103. '
        'history: lists of 3..10 format_name / format.name$ calls executed in order in ONE process on freshly loaded modules (repeated malformed formats, a malformed format '
        'and its well-formed prefix in both orders, interleaved with valid ones), every answer compared with the model\'s answer for that call alone and checked by the oracle. '
        'distinct = distinct (function, argument); non-trivial = the call succeeded on a format containing a brace group and produced non-empty text.')
EXHAUSTIVE = {'quick': 'all format strings of length <= 5 over a 9-letter alphabet (parser), length <= 4 x 2 names (format_name); all raw parts x persons from the pools; regexes on all strings of length <= 5 over 10 letters',
              'thorough': 'all format strings of length <= 6 over a 9-letter alphabet (parser), length <= 5 x 2 names (format_name); all raw parts x persons from the pools; all 3-part formats over the shape pool x name pool; regexes on all strings of length <= 6 over 10 letters'}
TRUSTED_BASE = ['modelled (not verified) code: pybtex/bibtex/names.py (NameFormatParser, NamePart, Text, NameFormat, join, tie_or_space), pybtex/bibtex/builtins.py _format_name / format.name$, '
                'and, through the imported models Model/BibtexStr.v and Model/Names.v, pybtex/bibtex/utils.py (bibtex_len, bibtex_abbreviate, bibtex_first_letter, split_tex_string, split_name_list) and Person',
                'the regexes TEXT / NON_LETTERS / FORMAT_CHARS are hand-written matchers compared with the live re objects by an exhaustive small-scope sweep on every run']
ASSUMPTIONS = ['letter/digit/word classes are modelled on ASCII; non-ASCII letters and digits are outside the claimed domain (DESIGN.md 2.2)',
               'brace nesting deeper than about 400 inside a format string makes the recursive-descent parser hit Python\'s recursion limit (RecursionError); the model has no such limit; generators stay below depth 110']
PARTIAL = ['abbrev_hyphen_braced: for balanced words; the letter of a piece is characterised whenever the piece scans (nesting <= 100); unbalanced words are left to the correspondence (function 7) and C12',
           '"as BibTeX does" is represented by the tie / abbreviation / emission laws of the property text (Spec/NameFormat.v and the Python oracle); no BibTeX binary is available to compare with',
           'letterless parts, three or more trailing ties and underscores at brace level 1 are outside the property\'s grammar: compared model-vs-code only, oracle silent']

def describe(fn, a):
    d = {'function': FUNCS[fn][0]}
    try:
        if fn == 1: d['format'] = S(a[0])
        elif fn == 2: d['name'] = S(a[0]); d['format'] = S(a[1])
        elif fn == 3: d['names'] = S(a[0]); d['n'] = a[1]; d['format'] = S(a[2])
        elif fn == 4: d['words'] = [S(w) for w in a[0]]; d['tie'] = S(a[1]); d['space'] = S(a[2])
        elif fn == 5: d['word'] = S(a[0]); d['tie'] = S(a[1]); d['space'] = S(a[2])
        elif fn == 6: d['format_list'] = _raw(a[0]); d['person'] = [[S(x) for x in l] for l in a[1]]
        elif fn == 7: d['string'] = S(a[0]); d['delimiter'] = S(a[1][0]) if a[1] else None
        elif fn == 8: d['pattern'] = ['TEXT', 'NON_LETTERS', 'FORMAT_CHARS'][a[0]]; d['string'] = S(a[1])
        elif fn == 9: d['format'] = S(a[0]); d['person'] = [[S(x) for x in l] for l in a[1]]
        elif fn == 10: d['text'] = S(a[0])
        elif fn == 11: d['calls'] = [{'names': S(c[0]), 'n': c[1], 'format': S(c[2]), 'via': 'format.name$' if c[3] else 'format_name'} for c in a]
    except Exception:
        d['arg'] = a
    return d

def nontrivial(fn, a, out):
    if fn == 11:
        return any(isinstance(x, list) and x[:1] == [1] for x in out) and any(isinstance(x, list) and x[:1] == [0] for x in out)
    if not (isinstance(out, list) and out[:1] == [0]):
        return False
    if fn in (2, 3):
        return 123 in a[-1] and len(out[1][0]) > 0
    if fn == 9:
        return 123 in a[0] and len(out[1]) > 0
    if fn == 1:
        return any(p[0] == 1 for p in out[1])
    return len(out[1]) > 0 if isinstance(out[1], list) else bool(out[1])

# ----------------------------------------------------------------------------------------
# the oracle: the property, re-implemented in plain Python from its text
LEGAL = {'f', 'ff', 'l', 'll', 'v', 'vv', 'j', 'jj'}

def _is_letter(c): return c.isascii() and c.isalpha()

def classify_format(f):
    """-> ('malformed', why) | ('outside', why) | ('ok', items); items: ('text', t) | ('part', pre, letters, delim, post)"""
    depth = 0
    for c in f:
        if c == '{': depth += 1
        elif c == '}':
            depth -= 1
            if depth < 0:
                return ('malformed', 'unbalanced braces')
    if depth != 0:
        return ('malformed', 'unbalanced braces')
    items = []
    i = 0; n = len(f); text = ''
    outside = None
    while i < n:
        c = f[i]
        if c != '{':
            text += c; i += 1; continue
        if text:
            items.append(('text', text)); text = ''
        # a level-1 group: find its end
        j = i + 1; d = 1
        while d > 0:
            if f[j] == '{': d += 1
            elif f[j] == '}': d -= 1
            j += 1
        body = f[i + 1:j - 1]
        i = j
        # scan the body at level 1
        k = 0; m = len(body); d = 0
        runs = []     # (start, end) of maximal level-1 letter runs
        while k < m:
            ch = body[k]
            if ch == '{': d += 1; k += 1
            elif ch == '}': d -= 1; k += 1
            elif d == 0 and _is_letter(ch):
                s0 = k
                while k < m and _is_letter(body[k]): k += 1
                runs.append((s0, k))
            else:
                if d == 0 and (ch == '_' or (not ch.isascii() and (ch.isalnum()))):
                    outside = 'a level-1 character outside the grammar: %r' % ch
                k += 1
        if len(runs) > 1:
            return ('malformed', 'repeated letters in one part')
        if runs:
            s0, e0 = runs[0]
            letters = body[s0:e0].lower()
            if letters not in LEGAL:
                return ('malformed', 'illegal letters %r' % body[s0:e0])
            pre = body[:s0]; rest = body[e0:]; delim = None
            if rest.startswith('{'):
                d = 1; k = 1
                while d > 0:
                    if rest[k] == '{': d += 1
                    elif rest[k] == '}': d -= 1
                    k += 1
                delim = rest[1:k - 1]; rest = rest[k:]
            items.append(('part', pre, letters, delim, rest))
        else:
            items.append(('part', '', '', None, body))
    if text:
        items.append(('text', text))
    if outside:
        return ('outside', outside)
    return ('ok', items)

def text_len(s):
    """BibTeX's text length: braces do not count, a special character ({\\ at level 0 ... matching }) counts 1.
    None when the braces of s are not balanced (the oracle then keeps silent)."""
    n = 0; i = 0; d = 0; L = len(s)
    while i < L:
        c = s[i]
        if c == '{':
            if d == 0 and i + 1 < L and s[i + 1] == '\\':
                j = i + 1; dd = 1
                while j < L and dd > 0:
                    if s[j] == '{': dd += 1
                    elif s[j] == '}': dd -= 1
                    j += 1
                if dd > 0:
                    return None
                n += 1; i = j; continue
            d += 1
        elif c == '}':
            d -= 1
            if d < 0:
                return None
        else:
            n += 1
        i += 1
    return n if d == 0 else None

def _balanced(s):
    d = 0
    for c in s:
        if c == '{': d += 1
        elif c == '}':
            d -= 1
            if d < 0: return False
    return d == 0

def _first_letter(piece):
    """the first letter of a balanced piece: letters count at any brace depth; a special character
    ({\\ at brace level 0 ... its matching brace) is a letter as a whole"""
    i = 0; d = 0; L = len(piece)
    while i < L:
        c = piece[i]
        if c == '{':
            if d == 0 and i + 1 < L and piece[i + 1] == '\\':
                j = i + 1; dd = 1
                while j < L and dd > 0:
                    if piece[j] == '{': dd += 1
                    elif piece[j] == '}': dd -= 1
                    j += 1
                inner = piece[i + 1:j - 1]
                if len(inner) >= 2:
                    return piece[i:j]
                i = j; continue          # "{\\}": a lone backslash is no letter
            d += 1
        elif c == '}':
            d -= 1
        elif c.isalpha():
            return c
        i += 1
    return ''

def abbreviate(tok, delim):
    """hyphen-aware abbreviation: the first letters of the pieces between hyphens AT BRACE LEVEL 0
    (a hyphen inside braces or inside a special character is ordinary text), joined by the delimiter"""
    if not _balanced(tok):
        from pybtex.bibtex.utils import bibtex_abbreviate      # unbalanced tokens: C12's business
        return bibtex_abbreviate(tok, delim)
    pieces = []; cur = ''; d = 0
    for c in tok:
        if c == '{': d += 1
        elif c == '}': d -= 1
        if c == '-' and d == 0:
            pieces.append(cur); cur = ''
        else:
            cur += c
    pieces.append(cur)
    letters = [l for l in (_first_letter(p.strip()) for p in pieces) if l]
    return ('.-' if delim is None else delim).join(letters)

def max_depth(s):
    d = m = 0
    for c in s:
        if c == '{': d += 1; m = max(m, d)
        elif c == '}': d = max(0, d - 1)
    return m

def spec_format(items, parts):
    """the property's formatting law; parts = {'f': [...], 'l': [...], 'v': [...], 'j': [...]}; None = keep silent"""
    out = ''
    for it in items:
        if it[0] == 'text':
            out += it[1]; continue
        _, pre, letters, delim, post = it
        stripped = post.rstrip('~')
        nt = len(post) - len(stripped)
        if nt > 2:
            return None           # more than a double trailing tie: outside the property's grammar
        if letters:
            toks = parts[letters[0]]
            if not toks:
                continue          # the part is emitted only if the name part is non-empty
            abbr = len(letters) == 1
            if abbr:
                toks = [abbreviate(t, delim) for t in toks]
            if delim is not None:
                joined = delim.join(toks)
            else:
                joined = ''
                for i, t in enumerate(toks):
                    joined += t
                    if i < len(toks) - 1:
                        if i == len(toks) - 2:
                            tie = True
                        elif i == 0:
                            tl = text_len(t)
                            if tl is None:
                                return None
                            tie = tl < 3
                        else:
                            tie = False
                        joined += ('.' if abbr else '') + ('~' if tie else ' ')
        else:
            joined = ''
        body = pre + joined + stripped
        if nt == 1:
            tl = text_len(body)
            if tl is None:
                return None
            body += '~' if tl < 3 else ' '
        elif nt == 2:
            body += '~'
        out += body
    return out

def _person_parts(name):
    from pybtex.database import Person
    from pybtex import errors
    with errors.capture():
        p = Person(name)
    return {'f': p.first_names + p.middle_names, 'l': p.last_names, 'v': p.prelast_names, 'j': p.lineage_names}

def _oracle_format(fmt, parts_thunk, kind, got, deep):
    """kind: 0 ok / 1 pybtex error / 2 foreign exception; got: the formatted string when kind == 0"""
    cls = classify_format(fmt)
    if kind == 2:
        return 'a foreign (non-pybtex) exception instead of a result or a pybtex error'
    if cls[0] == 'malformed':
        if kind != 1:
            return 'malformed format string (%s) was not rejected but formatted as %r' % (cls[1], got)
        return None
    if cls[0] == 'outside':
        return None
    if kind == 1:
        if deep:
            return None      # "too many nested braces" is a legitimate BibTeX error
        return 'well-formed format string rejected'
    try:
        parts = parts_thunk()
        want = spec_format(cls[1], parts)
    except Exception:
        return None
    if want is None:
        return None
    if got != want:
        return 'formatted %r, the format.name$ rules give %r' % (got, want)
    return None

def oracle(fn, a, out):
    if fn == 11:
        # the property must hold on EVERY call of a process, not only on the first use of a format string
        for k, (c, o) in enumerate(zip(a, out)):
            m = oracle(3, [c[0], c[1], c[2]], o) if c[3] else oracle(2, [c[0], c[2]], o)
            if m:
                return 'call %d of the history (%s, format %r): %s' % (k, 'format.name$' if c[3] else 'format_name', S(c[2]), m)
        return None
    if not (isinstance(out, list) and out and out[0] in (0, 1, 2)):
        return None
    if fn == 2:
        name, fmt = S(a[0]), S(a[1])
        deep = max_depth(name) > 99 or max_depth(fmt) > 99
        return _oracle_format(fmt, lambda: _person_parts(name), out[0], S(out[1][0]) if out[0] == 0 else None, deep)
    if fn == 3:
        names, n, fmt = S(a[0]), a[1], S(a[2])
        if out[0] == 2:
            return 'a foreign (non-pybtex) exception instead of a result or a pybtex error'
        from pybtex.bibtex.utils import split_name_list
        try:
            l = split_name_list(names)
        except Exception:
            return None
        cls = classify_format(fmt)
        if not 1 <= n <= len(l):
            if out[0] != 1:
                return 'there is no name #%d in %r, yet no error' % (n, names)
            return None
        deep = max_depth(names) > 99 or max_depth(fmt) > 99
        return _oracle_format(fmt, lambda: _person_parts(l[n - 1]), out[0], S(out[1][0]) if out[0] == 0 else None, deep)
    if fn == 9:
        fmt = S(a[0])
        pl = [[S(x) for x in l] for l in a[1]]
        parts = {'f': pl[0] + pl[1], 'v': pl[2], 'l': pl[3], 'j': pl[4]}
        deep = max_depth(fmt) > 99 or any(max_depth(t) > 99 for l in pl for t in l)
        return _oracle_format(fmt, lambda: parts, out[0], S(out[1]) if out[0] == 0 else None, deep)
    if fn == 1:
        cls = classify_format(S(a[0]))
        if out[0] == 2:
            return 'a foreign (non-pybtex) exception from the format parser'
        if cls[0] == 'malformed' and out[0] != 1:
            return 'malformed format string (%s) was parsed without an error' % cls[1]
        if cls[0] == 'ok' and out[0] != 0:
            return 'well-formed format string rejected by the parser'
        if cls[0] == 'ok':
            lvl0 = ''.join(it[1] for it in cls[1] if it[0] == 'text')
            got = ''.join(S(p[1]) for p in out[1] if p[0] == 0)
            if lvl0 != got:
                return 'level-0 text %r parsed as %r' % (lvl0, got)
        return None
    if fn == 7 and out[0] == 0 and _balanced(S(a[0])) and max_depth(S(a[0])) <= 99:
        want = abbreviate(S(a[0]), S(a[1][0]) if a[1] else None)
        if S(out[1]) != want:
            return 'abbreviated %r as %r, hyphens at brace level 0 only give %r' % (S(a[0]), S(out[1]), want)
        return None
    if fn == 4 and out[0] == 0:
        words = [S(w) for w in a[0]]; tie, space = S(a[1]), S(a[2])
        want = ''
        for i, t in enumerate(words):
            want += t
            if i < len(words) - 1:
                if i == len(words) - 2: tb = True
                elif i == 0:
                    tl = text_len(t)
                    if tl is None: return None
                    tb = tl < 3
                else: tb = False
                want += tie if tb else space
        if S(out[1]) != want:
            return 'join gave %r, the tie-or-space rule gives %r' % (S(out[1]), want)
    return None

# ----------------------------------------------------------------------------------------
# generators
NAME_TOKS = ['Jean', 'de', 'la', 'von', 'Fontaine', '{Van}', "{\\'E}douard", "{\\'e}x", '1st', '{}', 'Jean-Paul', 'A.~B.', 'jr',
             '{\\relax van}', '\\LaTeX', "d'Aviano", '{\\a{b}', 'x\\ y', 'q\\~r', 'Xu', 'Li', 'X', 'Phony-Baloney', 'Ch.', 'J.-P.', '-', 'a-', '{A-B}-c', 'Jr.', 'III',
             '{Hewlett-Packard}', 'Jean{-}Pierre', '{\\relax Jean-Luc}', 'Karl-{Heinz-Otto}', 'M{\\"u}ller-L{\\"u}d', 'J-{K-L}-M', '{der-Waals}']
NAME_POOL = ['Charles Louis Xavier Joseph de la Vallee Poussin', 'abc', 'Jean-Pierre Hansen', 'F. Phidias Phony-Baloney', 'Donald Knuth',
             'Donald E. Knuth', 'de la Fontaine, Jr, Jean Marie Paul Luc', 'von Berg, Li', "{\\'E}. Li Xu van der Waals Jr", 'A B C D E F', '', 'X',
             'Ab Cd von Ef Gh, Ij Kl, Mn Op Qr', 'a, b, c, d', 'Ludwig van Beethoven', '{von Neumann}, John', 'Xu Li', 'J.-P. Sartre', 'de~la~Rue, Jo~Ann Mary', 'Brinch Hansen, Per']

PRES = ['', ', ', '{x}', '(', ' ', '{a{b}c}', '1. ', '~', '{\\em}', '{}', '-']
LETTERS = ['f', 'ff', 'l', 'll', 'v', 'vv', 'j', 'jj', 'F', 'FF', 'L', 'Vv', 'jJ', 'LL']
DELIMS = [None, None, None, '', '.', '~', '-', ' ', '{x}', '. ', 'ab', ',~']
POSTS = ['', '', '.', '~', '~~', '.~', '.~~', ',~', '{x}~', ' ', ')', '~.', '~~~', '1', '{~}', '{y}~~', ',', '. ']
LEVEL0 = ['', '', '', ' ', ', ', 'and ', '~', 'x1_', '; ', 'Q', '\\', '12']

def gen_part(rng, letters=True):
    pre = rng.choice(PRES) if rng.random() < 0.5 else ''
    let = rng.choice(LETTERS) if letters and rng.random() < 0.93 else ''
    dl = rng.choice(DELIMS) if let else None
    post = rng.choice(POSTS)
    return '{' + pre + let + ('' if dl is None else '{' + dl + '}') + post + '}'

def gen_format(rng):
    out = rng.choice(LEVEL0)
    for _ in range(rng.choice([1, 1, 2, 3, 4, 4, 5])):
        out += gen_part(rng) + rng.choice(LEVEL0)
    return out

def gen_name(rng):
    k = rng.randint(1, 7)
    parts = [rng.choice(NAME_TOKS) for _ in range(k)]
    ncomma = rng.choice([0, 0, 0, 1, 1, 2, 2, 3])
    for _ in range(ncomma):
        parts.insert(rng.randint(0, len(parts)), ',')
    return rng.choice([' ', ' ', ' ', '  ', '~', ' ']).join(parts).replace(' ,', ',')

def corrupt(rng, f):
    if not f:
        return rng.choice('{}fX_~')
    i = rng.randrange(len(f))
    k = rng.random()
    junk = '{}{}fflvjXq_~1.'
    if k < 0.3: return f[:i] + f[i + 1:]
    if k < 0.5: return f[:i] + f[i] + f[i:]
    if k < 0.8: return f[:i] + rng.choice(junk) + f[i + 1:]
    return f[:i] + rng.choice(junk) + f[i:]

PINNED = [
    (2, ['Donald Knuth', '{FF}']), (2, ['Donald Knuth', '{L}']), (2, ['Donald Knuth', '{Ff}']),        # F14
    (3, ['Donald Knuth', 2, '{ff}']), (3, ['Donald Knuth', 0, '{ff}']), (3, ['A B and C D', -1, '{ll}']), (3, ['', 1, '{ll}']),   # F15
    (2, ['Charles Louis Xavier Joseph de la Vallee Poussin', '{vv~}{ll}{, jj}{, f.}']),
    (2, ['abc', '{vv~}{ll}{, jj}{, f.}']), (2, ['Jean-Pierre Hansen', '{ff~}{vv~}{ll}{, jj}']), (2, ['Jean-Pierre Hansen', '{f.~}{vv~}{ll}{, jj}']),
    (2, ['F. Phidias Phony-Baloney', '{v{}}{l}']), (2, ['F. Phidias Phony-Baloney', '{v{}}{l.}']), (2, ['F. Phidias Phony-Baloney', '{v{}}{l{}}']),
    (1, ['{{ }ff~{ }}{vv~{- Test text here -}~}{ll}{, jj}']), (1, ['abc def {f~} xyz {f}?']), (1, ['{{abc}{def}ff~{xyz}{#@$}}']),
    (1, ['{{abc}{def}ff{xyz}{#@${}{sdf}}}']), (1, ['{f.~}']), (1, ['{f~.}']), (1, ['{f{.}~}']),
    (2, ['Donald Knuth', '{ff']), (2, ['Donald Knuth', '{f']), (2, ['Donald Knuth', 'ff}']), (2, ['Donald Knuth', '{ff}{ff ll}']), (2, ['Donald Knuth', '{fff}']),
    (2, ['Donald Knuth', '{fl}']), (2, ['Donald Knuth', '{x}']), (2, ['Donald Knuth', '{f_}']), (2, ['Donald Knuth', '{, ~}|']), (2, ['Donald Knuth', '{~}|']),
    (2, ['Donald Knuth', '{f{']), (2, ['Donald Knuth', '{f{x}']), (2, ['a, b, c, d', '{ff}{ll}{jj}']),
    (4, [['a', 'long', 'long', 'road'], '~', ' ']), (4, [['very', 'long', 'phrase'], '~', ' ']),
    # hyphens protected by braces do not start a new initial (seeded C11f)
    (2, ['{Hewlett-Packard}, Jean-Pierre', '{f.}{ l.}']), (2, ['{Hewlett-Packard}, Jean-Pierre', '{f{/}}|{l{+}}']),
    (2, ['Jean{-}Pierre Hansen', '{f.~}{ll}']), (2, ['{\\relax Jean-Luc} Picard', '{f.}{ ll}']),
    (2, ['Karl-{Heinz-Otto} M{\\"u}ller-L{\\"u}denscheidt', '{f.}{ l.}']), (2, ['van {der-Waals}, Jr-{Sr-X}, J-{K-L}-M', '{f{/}}|{l{+}}|{j{=}}']),
    (7, ['{Hewlett-Packard}', []]), (7, ['Jean{-}Pierre', []]), (7, ['{\\relax Jean-Luc}', []]), (7, ['Karl-{Heinz-Otto}', ['']]),
]

MALFORMED_POOL = ['{ll}{, xx}', '{ff~}{vv~}{ll}{, jj', 'by {ff }{ll ll}', '{ff~}{vv~}{ll}}{, jj}', '{vv~}{ll}{, {jj}', '{ll}, {f.}{ fv}',
                  '{vv~}{ll}{ ff jj}', 'x}', '{ll}{', '{ll}{f', '{ff}{f_}', 'and {FF}{LLL}']
WELLFORMED_POOL = ['{ff~}{vv~}{ll}{, jj}', '{vv~}{ll}{, jj}{, f.}', '{ll}', 'by {ff }', '{ll}{, }', '{ff~}{vv~}{ll}', '{ll}, {f.}', 'x', '{ff}', 'and {FF}']
HIST_NAMES = ['Charles Louis Xavier Joseph de la Vallee Poussin', 'Donald E. Knuth', 'von Berg, Jr, Li', 'abc']

def gen_history(rng):
    """a list of calls for ONE process: malformed formats repeated, a malformed format and its well-formed prefix
    in both orders, interleaved with valid ones, through format_name and through the built-in"""
    calls = []
    def call(fmt):
        if rng.random() < 0.5:
            return [rng.choice(HIST_NAMES), 0, fmt, 0]
        k = rng.randint(1, 3)
        names = ' and '.join(rng.choice(HIST_NAMES) for _ in range(k))
        return [names, rng.choice([1, 1, k, k, k + 1, 0]), fmt, 1]
    bad = [rng.choice(MALFORMED_POOL) if rng.random() < 0.6 else corrupt(rng, gen_format(rng)) for _ in range(rng.randint(1, 2))]
    good = [rng.choice(WELLFORMED_POOL) if rng.random() < 0.6 else gen_format(rng) for _ in range(rng.randint(1, 2))]
    prefixes = []
    for b in bad:       # well-formed prefixes of the malformed string (what a partially filled cache would hold)
        for cut in range(len(b), 0, -1):
            if classify_format(b[:cut])[0] == 'ok':
                prefixes.append(b[:cut]); break
    pool = bad * 3 + good * 2 + prefixes * 2
    for _ in range(rng.randint(4, 10)):
        calls.append(call(rng.choice(pool)))
    return calls


P_TOKS = ['A', 'Bcd', 'Jo-Pi', "{\\'E}f", 'de', '{x-Y}z']
def persons(maxtok):
    """persons with 0..maxtok tokens in the part under test (others fixed small)"""
    lists = [[]]
    for k in range(1, maxtok + 1):
        for tup in itertools.product(P_TOKS, repeat=k):
            lists.append(list(tup))
    return lists

def gen(tier, rng):
    thorough = tier != 'quick'
    for fn, a in PINNED:
        yield ('pinned', fn, a)
    # --- histories: several calls in one process, every answer compared with the model's answer for that call alone
    for b in MALFORMED_POOL:
        for nm in HIST_NAMES[:2]:
            yield ('history', 11, [[nm, 0, b, 0], [nm, 0, b, 0], [nm + ' and ' + nm, 2, b, 1], [nm, 0, b, 0], [nm, 1, b, 1]])
            yield ('history', 11, [[nm, 1, b, 1], [nm, 1, b, 1], [nm, 0, b, 0]])
    for b, g in [('{ll}{, xx}', '{ll}'), ('{ff~}{vv~}{ll}{, jj', '{ff~}{vv~}{ll}'), ('by {ff }{ll ll}', 'by {ff }'), ('{ll}, {f.}{ fv}', '{ll}, {f.}')]:
        nm = HIST_NAMES[0]
        yield ('history', 11, [[nm, 0, g, 0], [nm, 0, b, 0], [nm, 0, g, 0], [nm, 0, b, 0], [nm, 1, b, 1], [nm, 1, g, 1]])
        yield ('history', 11, [[nm, 0, b, 0], [nm, 0, g, 0], [nm, 0, b, 0], [nm, 0, '{ff~}{vv~}{ll}{, jj}', 0], [nm, 1, b, 1]])
    for i in range(400 if not thorough else 4000):
        yield ('history', 11, gen_history(rng))
    # --- (a) exhaustive format strings through the parser and through format_name
    ALPHA = '{}fvX~.1_'
    for n in range(0, (7 if thorough else 6)):
        for tup in itertools.product(ALPHA, repeat=n):
            s = ''.join(tup)
            yield ('exhaustive_format', 1, [s])
            if n <= (5 if thorough else 4):
                yield ('exhaustive_format', 2, ['Jean de La Fontaine', s])
                yield ('exhaustive_format', 2, ['von Xu, Li', s])
    # --- the three regexes, exhaustively
    RALPHA = '{}aZ1_~ €.'
    for n in range(0, (7 if thorough else 6)):
        for tup in itertools.product(RALPHA, repeat=n):
            s = ''.join(tup)
            for k in range(3):
                yield ('regex_sweep', 8, [k, s])
    # --- parse_name_part glue
    for n in range(0, 5):
        for tup in itertools.product('{}fL~1_', repeat=n):
            yield ('exhaustive_name_part', 10, [''.join(tup)])
    # --- (c) NamePart.format: raw parts x persons
    raws = []
    for pre in ['', ', ', 'ab']:
        for fc in [None, 'f', 'ff', 'l', 'll', 'v', 'vv', 'j', 'jj']:
            for dl in ([None, '', '.', '-~'] if fc else [None]):
                for post in ['', '~', '~~', '.~', 'x~~~', '{\\a}~']:
                    raws.append([pre, [fc] if fc else [], [] if dl is None else [dl], post])
    plists = persons(3 if thorough else 2)
    for raw in raws:
        fc = S(norm(raw[1][0])) if raw[1] else ''
        for pl in plists:
            if fc[:1] == 'f':
                for cut in range(0, min(len(pl), 1) + 1):
                    yield ('exhaustive_part', 6, [raw, [pl[:cut], pl[cut:], ['v'], ['L'], []]])
            elif fc[:1] == 'l':
                yield ('exhaustive_part', 6, [raw, [['F'], [], [], pl, []]])
            elif fc[:1] == 'v':
                yield ('exhaustive_part', 6, [raw, [['F'], [], pl, ['L'], []]])
            elif fc[:1] == 'j':
                yield ('exhaustive_part', 6, [raw, [['F'], [], [], ['L'], pl]])
            elif len(pl) <= 1:
                yield ('exhaustive_part', 6, [raw, [pl, [], [], ['L'], []]])
    # invalid format_list values (not producible by the parser): model says Crash where Python raises non-pybtex exceptions
    for fc in ['x', 'fl', 'fff', 'F', '', 'ffl']:
        yield ('part_invalid', 6, [['', [fc], [], ''], [['A'], [], [], ['B'], []]])
    # --- (d) join / tie_or_space
    WORDS = ['', 'a', 'ab', 'abc', '{ab}c', "{\\'e}b", 'abcd']
    for n in range(0, 6 if thorough else 5):
        for tup in itertools.product(WORDS if n <= 3 else WORDS[1:5], repeat=n):
            yield ('exhaustive_join', 4, [list(tup), '~', ' '])
            if n <= 3:
                yield ('exhaustive_join', 4, [list(tup), '.~', '. '])
    for n in range(0, 5 if thorough else 4):
        for tup in itertools.product('ab{}\\ ~', repeat=n):
            yield ('exhaustive_tie', 5, [''.join(tup), '~', ' '])
    # --- abbreviation
    for n in range(0, 6 if thorough else 5):
        for tup in itertools.product('aB1 -{}\\', repeat=n):
            s = ''.join(tup)
            yield ('exhaustive_abbrev', 7, [s, []])
            if n <= 3:
                yield ('exhaustive_abbrev', 7, [s, ['']]); yield ('exhaustive_abbrev', 7, [s, ['.']])
    # --- (b) pool formats x pool names
    shapes = ['{ff~}', '{vv~}', '{ll}', '{, jj}', '{f.~}', '{v{}}', '{l{.}~~}', '{{x}j{-}, ~}', '{FF }', '{ (vv)}', ' and ', '{ll~}', '{f{}}', '{j.~~}']
    for k in (1, 2, 3) if thorough else (1, 2):
        for tup in itertools.product(shapes, repeat=k):
            f = ''.join(tup)
            for nm in (NAME_POOL if k < 3 else NAME_POOL[:8]):
                yield ('pool', 2, [nm, f])
    # --- structured random
    nrand = 60000 if thorough else 6000
    for i in range(nrand):
        f = gen_format(rng); nm = gen_name(rng) if rng.random() < 0.8 else rng.choice(NAME_POOL)
        yield ('random', 2, [nm, f])
        if i % 4 == 0:
            k = rng.randint(1, 4)
            nms = [gen_name(rng) for _ in range(k)]
            names = rng.choice([' and ', ' and ', ' AND ', ' And  ']).join(nms)
            n = rng.choice([1, 1, 2, 2, 3, k, k, k + 1, 0, -1, rng.randint(-3, 7)])
            yield ('random_builtin', 3, [names, n, f])
        if i % 5 == 0:
            yield ('random', 1, [f])
        if i % 6 == 0:
            pl = [[rng.choice(NAME_TOKS) for _ in range(rng.choice([0, 0, 1, 1, 2, 3, 4]))] for _ in range(5)]
            yield ('random_person', 9, [f, pl])
    # --- malformed
    for i in range(nrand // 2):
        f = corrupt(rng, gen_format(rng))
        if rng.random() < 0.2:
            f = corrupt(rng, f)
        yield ('malformed', 2, [rng.choice(NAME_POOL), f])
        if i % 3 == 0:
            yield ('malformed', 1, [f])
    for i in range(nrand // 10):
        f = ''.join(rng.choice('{}{}flvjFxq~~._1 ,-\\') for _ in range(rng.randint(1, 12)))
        yield ('noise', 2, [rng.choice(NAME_POOL), f])
    # --- nesting depth around the max_level guard of bibtex_len
    for d in (98, 99, 100, 101, 103):
        yield ('deep', 2, ['Donald Knuth', '{' + '{' * d + 'x' + '}' * d + 'ff~}'])
        yield ('deep', 2, ['Donald Knuth', '{' + '{' * d + 'x' + '}' * d + 'ff}'])
        yield ('deep', 2, ['{' * d + 'Donald' + '}' * d + ' Knuth', '{f.~}{ll}'])
        yield ('deep', 1, ['{' * d + '}' * d])
