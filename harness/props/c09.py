# C09 -- back ends render text faithfully, text never acts as markup.
# Model: coq/Model/Backends.v; theorems: coq/Props/C09.v
import itertools, random, re, os, warnings
from html.parser import HTMLParser
from core import *

ID = 'C09'
BACKENDS = ['html', 'latex', 'markdown', 'plaintext']     # model numbering 0..3

# the alphabet of the property's quantifier (each back end's metacharacters) + neutral characters
META = '<>&"*_`[]()#+-.!\\{}~%$^'
ALPHA = META + 'aZ 1;'
# every back end's escape OUTPUTS and near-misses, used as atomic tokens: text that already looks escaped
# must be escaped again ("escaping is not idempotent by accident")
TOKENS = ['&amp;', '&lt;', '&gt;', '&quot;', '&#38;', '&#x26;', '&nbsp;', '&ndash;', '&x;', '&;', '& ;', '&a', '&#;',
          '\\\\', '\\*', '\\_', '\\{', '\\}', '\\`', '\\[', '\\!',
          '{\\%}', '\\&', '\\#', '\\%', '\\textbackslash{}', '\\textasciitilde', '\\textasciitilde ', '\\~{}', '\\ ',
          '--', '---', '~', '~~', "''", '``', '<b>', '</b>', '<br/>', '[x](y)', '**', '`x`']
TOKEN_NEUTRAL = ['a', ' ', ';', '&', '#', 'x1']
MD_ESCAPABLE = '\\`*_{}[]()#+-.!'        # Markdown syntax document, "backslash escapes"

# ----------------------------------------------------------------------------------------
# building real pybtex objects from a recipe (RtTypes encoding) and dumping the real tree
def _backend(b, **kw):
    import importlib
    m = importlib.import_module('pybtex.backends.' + BACKENDS[b])
    return m.Backend(**kw)

def build(t, raw):
    """recipe -> pybtex object.  raw: bypass the smart constructor (parts exactly as given)"""
    from pybtex.richtext import String, Symbol, Text, Tag, HRef, Protected
    k = t[0]
    if k == 0:
        return String(S(t[1]))
    if k == 1:
        return Symbol(S(t[1]))
    parts = [build(p, raw) for p in t[-1]]
    if not raw:
        with warnings.catch_warnings():
            warnings.simplefilter('ignore')
            if k == 2: return Text(*parts)
            if k == 3: return Tag(S(t[1]), *parts)
            if k == 4: return HRef(S(t[1]), *parts, external=bool(t[2]))
            if k == 5: return Protected(*parts)
    cls = {2: Text, 3: Tag, 4: HRef, 5: Protected}[k]
    o = cls.__new__(cls)
    if k == 3:
        o.name = S(t[1]); o.info = (o.name,)
    if k == 4:
        o.url = S(t[1]); o.info = (o.url,); o.external = bool(t[2])
    o.parts = parts
    o.length = sum(len(p) for p in parts)
    return o

def dump(o):
    """the real object tree in the RtTypes wire encoding"""
    from pybtex.richtext import String, Symbol, Text, Tag, HRef, Protected
    if isinstance(o, String):
        return [0, norm(o.value)]
    if isinstance(o, Symbol):
        return [1, norm(o.name)]
    ps = [dump(p) for p in o.parts]
    if isinstance(o, Tag):
        return [3, norm(o.name), ps]
    if isinstance(o, HRef):
        return [4, norm(o.url), 1 if o.external else 0, ps]
    if isinstance(o, Protected):
        return [5, ps]
    if isinstance(o, Text):
        return [2, ps]
    raise TypeError('cannot dump %r' % (o,))

def tree_strings(t, acc):
    k = t[0]
    if k in (0, 1):
        acc.append(t[1])
    else:
        if k in (3, 4):
            acc.append(t[1])
        for p in t[-1]:
            tree_strings(p, acc)
    return acc

# ---- tables regenerated from the code / measured from the libraries on every run
_TAB = {}
def backend_tables(b):
    if b not in _TAB:
        be = _backend(b)
        sym = [[norm(k), norm(v)] for k, v in be.symbols.items()]
        tags = []
        for k, v in getattr(be, 'tags', {}).items():
            tags.append([norm(k), [] if v is None else [norm(v)]])
        _TAB[b] = (sym, tags, be)
    return _TAB[b]

_ENC = {}
_ENCBE = {}
def enc_entry(c, encoding=None):
    """latexcodec's translation of one character + 'ends in a control word' (measured black-box)"""
    if encoding:
        return _enc_entry_for(c, encoding)
    if c not in _ENC:
        be = backend_tables(1)[2]
        x = be.format_str(c)
        y = be.format_str(c + 'a')
        if y == x + 'a':
            cw = 0
        elif y == x + ' a':
            cw = 1
        else:
            raise RuntimeError('latexcodec encoder is not of the modelled shape on %r: %r %r' % (c, x, y))
        _ENC[c] = [ord(c), norm(x), cw]
    return _ENC[c]

def _enc_entry_for(c, encoding):
    key = (encoding, c)
    if key not in _ENC:
        if encoding not in _ENCBE:
            _ENCBE[encoding] = _backend(1, encoding=encoding)
        be = _ENCBE[encoding]
        x = be.format_str(c); y = be.format_str(c + 'a')
        if y == x + 'a': cw = 0
        elif y == x + ' a': cw = 1
        else: raise RuntimeError('latexcodec encoder (%s) is not of the modelled shape on %r: %r %r' % (encoding, c, x, y))
        _ENC[key] = [ord(c), norm(x), cw]
    return _ENC[key]

def enc_table(strings, encoding=None):
    cs = sorted(set(c for s in strings for c in s))
    return [enc_entry(chr(c), encoding) for c in cs if enc_entry(chr(c), encoding)[1:] != [[c], 0]]

# ----------------------------------------------------------------------------------------
# implementation wrappers.  Case arguments (what gen yields):
#  1 [b, raw, tree]   2 [b, s]   3 [b, php, preamble, [[key,label,tree]...]]   4 [v]   5 [v]   6 [b, kind, x, ext, text]
def impl_render(a):
    b, raw, tree = a
    return call_impl(lambda: build(tree, raw).render(_backend(b)))

def impl_format_str(a):
    b, s = a
    return call_impl(lambda: _backend(b).format_str(S(s)))

class _Style:
    def __init__(self):
        from pybtex.style.labels import BaseLabelStyle
        self.label_style = BaseLabelStyle()

def impl_doc(a):
    import io
    from pybtex.style import FormattedEntry, FormattedBibliography
    b, php, preamble, entries = a
    def run():
        es = [FormattedEntry(S(k), build(t, 0), S(l)) for (k, l, t) in entries]
        fb = FormattedBibliography(es, _Style(), preamble=S(preamble))
        be = _backend(b, php_extra=True) if (b == 2 and php) else _backend(b)
        out = io.StringIO()
        be.write_to_stream(fb, out)
        return out.getvalue()
    return call_impl(run)

def impl_from_latex(a):
    from pybtex.richtext import Text
    return call_impl(lambda: dump(Text.from_latex(S(a[0]))))

def impl_roundtrip(a):
    from pybtex.richtext import Text
    return call_impl(lambda: Text.from_latex(S(a[0])).render(_backend(1)))

def impl_format_node(a):
    b, kind, x, ext, text = a
    be = _backend(b)
    if kind == 0:
        return call_impl(lambda: be.format_tag(S(x), S(text)))
    if kind == 1:
        return call_impl(lambda: be.format_href(S(x), S(text), bool(ext)))
    return call_impl(lambda: be.format_protected(S(text)))

ENCODINGS = [None, 'latin-1', 'ascii', 'UTF-8']
def _history_backend(b, php, ei):
    kw = {}
    if ENCODINGS[ei]:
        kw['encoding'] = ENCODINGS[ei]
    if b == 2 and php:
        kw['php_extra'] = True
    return _backend(b, **kw)

def _fbib(entries, preamble):
    from pybtex.style import FormattedEntry, FormattedBibliography
    es = [FormattedEntry(S(k), build(t, 0), S(l)) for (k, l, t) in entries]
    return FormattedBibliography(es, _Style(), preamble=S(preamble))

def impl_history(a):
    """ONE back-end object, several uses in a row; every use reported separately"""
    import io, tempfile, shutil
    b, php, ei, ops = a
    be = _history_backend(b, php, ei)
    tmp = None
    outs = []
    try:
        for op in ops:
            k = op[0]
            if k == 0:
                pre, entries, viafile = op[1], op[2], op[3]
                if viafile:
                    def run():
                        nonlocal tmp
                        if tmp is None:
                            tmp = tempfile.mkdtemp(prefix='c09h')
                        path = os.path.join(tmp, 'out%d' % len(outs))
                        be.write_to_file(_fbib(entries, pre), path)
                        with open(path, encoding=be.encoding, newline='') as f:
                            return f.read()
                else:
                    def run():
                        out = io.StringIO()
                        be.write_to_stream(_fbib(entries, pre), out)
                        return out.getvalue()
                outs.append(call_impl(run))
            elif k == 1:
                outs.append(call_impl(lambda: build(op[1], 0).render(be)))
            elif k == 2:
                outs.append(call_impl(lambda: be.format_str(S(op[1]))))
            else:
                def run():
                    chunks = []
                    be.output = chunks.append
                    be.write_entry(S(op[1]), S(op[2]), S(op[3]))
                    return ''.join(chunks)
                outs.append(call_impl(run))
    finally:
        if tmp:
            shutil.rmtree(tmp, ignore_errors=True)
    return outs

def canon(fn, r):
    if fn == 7 and isinstance(r, list):
        return [canon_res(x) for x in r]
    return canon_res(r)

TREE = 'X'
FUNCS = {
    1: ('text.render(Backend())', impl_render, ('T', 'N', 'B', TREE)),
    2: ('Backend.format_str', impl_format_str, ('T', 'N', 'S')),
    3: ('Backend.write_to_stream', impl_doc, ('T', 'N', 'B', 'S', ('L', ('T', 'S', 'S', TREE)))),
    4: ('Text.from_latex', impl_from_latex, ('T', 'S')),
    5: ('Text.from_latex(v).render(latex)', impl_roundtrip, ('T', 'S')),
    6: ('Backend.format_tag/format_href/format_protected', impl_format_node, ('T', 'N', 'N', 'S', 'B', 'S')),
    7: ('one Backend object used several times (write_to_stream/write_to_file/render/format_str/write_entry)', impl_history, ('T', 'N', 'B', 'N', ('L', 'X'))),
}

def _decode(v):
    import codecs, latexcodec  # noqa
    try:
        return [norm(codecs.decode(S(v), 'ulatex'))]
    except Exception:
        return []

def model_arg(fn, a):
    """what the model is given: the REAL object tree (after the smart constructor), the tables of
    the back end regenerated from the code, latexcodec's translation of the characters involved"""
    if fn == 1:
        b, raw, tree = a
        real = dump(build(tree, raw))
        sym, tags, _ = backend_tables(b)
        enc = enc_table(tree_strings(real, [])) if b == 1 else []
        return [b, sym, tags, enc, real]
    if fn == 2:
        b, s = a
        return [b, enc_table([s]) if b == 1 else [], s]
    if fn == 3:
        from pybtex.textutils import width
        b, php, preamble, entries = a
        sym, tags, _ = backend_tables(b)
        reals = [dump(build(t, 0)) for (_, _, t) in entries]
        strs = []
        for r in reals:
            tree_strings(r, strs)
        enc = enc_table(strs) if b == 1 else []
        es = [[k, l, width(S(l)), r] for (k, l, _), r in zip(entries, reals)]
        return [b, php, norm(backend_tables(b)[2].encoding), preamble, sym, tags, enc, es]
    if fn == 4:
        return [_decode(a[0])]
    if fn == 5:
        d = _decode(a[0])
        sym, tags, _ = backend_tables(1)
        return [d, sym, tags, enc_table(d)]   # d is [] or [decoded]
    if fn == 6:
        b, kind, x, ext, text = a
        return [b, kind, x, ext, text, backend_tables(b)[1], enc_table([x]) if b == 1 else []]
    if fn == 7:
        from pybtex.textutils import width
        b, php, ei, ops = a
        sym, tags, _ = backend_tables(b)
        be = _history_backend(b, php, ei)
        strs = []; mops = []
        for op in ops:
            if op[0] == 0:
                reals = [dump(build(t, 0)) for (_, _, t) in op[2]]
                for r in reals:
                    tree_strings(r, strs)
                mops.append([0, op[1], [[k, l, width(S(l)), r] for (k, l, _), r in zip(op[2], reals)]])
            elif op[0] == 1:
                r = dump(build(op[1], 0)); tree_strings(r, strs); mops.append([1, r])
            elif op[0] == 2:
                strs.append(op[1]); mops.append([2, op[1]])
            else:
                mops.append([3, op[1], op[2], op[3]])
        enc = enc_table(strs, be.encoding) if b == 1 else []
        return [b, php, norm(be.encoding), sym, tags, enc, mops]
    return a

# ----------------------------------------------------------------------------------------
# the oracle: the property text, in plain Python, on the implementation's output
def leaves(t, stack=()):
    """plain content of a recipe: [(atom, markup-stack)], atom = character or ('sym', name).
    The smart constructor only regroups, so this is also the content of the built tree."""
    k = t[0]
    if k == 0:
        return [(chr(c), stack) for c in t[1]]
    if k == 1:
        return [(('sym', S(t[1])), stack)]
    m = {2: None, 3: ('tag', S(t[1])) if k == 3 else None, 4: ('href', S(t[1]), bool(t[2])) if k == 4 else None, 5: ('prot',)}[k]
    st = stack if m is None else stack + (m,)
    out = []
    for p in t[-1]:
        out.extend(leaves(p, st))
    return out

def markup_nodes(t):
    if t[0] in (0, 1):
        return []
    out = [t] if t[0] in (3, 4, 5) else []
    for p in t[-1]:
        out.extend(markup_nodes(p))
    return out

NAME_RE = re.compile(r'[A-Za-z][A-Za-z0-9]*\Z')
HTML_RAWTEXT = {'script', 'style', 'textarea', 'title', 'xmp', 'iframe', 'noembed', 'noframes', 'plaintext'}
def ordinary_url(u):
    return u != '' and not any(c in '"<>&{}()\\%#~^$ ' or c.isspace() for c in u)
def url_in_domain(u, b):
    """ordinary URLs, per back end: what the URL must not contain for the back end's own syntax"""
    if u == '' or any(c.isspace() for c in u):
        return False
    bad = {0: '"<>&', 1: '{}\\', 2: '()<>"', 3: ''}[b]
    return not any(c in bad for c in u)
def tree_in_oracle_domain(t, b=None):
    """tag names are names, URLs are ordinary, symbols are the three documented ones"""
    for n in markup_nodes(t):
        if n[0] == 3 and (not NAME_RE.match(S(n[1])) or S(n[1]).lower() in HTML_RAWTEXT):
            return False
        if n[0] == 4 and not (ordinary_url(S(n[1])) if b is None else url_in_domain(S(n[1]), b)):
            return False
    return all(a[0] != 'sym' or a[1] in ('nbsp', 'ndash', 'newblock') for a, _ in leaves(t) if isinstance(a, tuple))

class _Ev(HTMLParser):
    def __init__(self):
        super().__init__(convert_charrefs=False)
        self.ev = []
    def handle_starttag(self, tag, attrs): self.ev.append(('start', tag, attrs))
    def handle_endtag(self, tag): self.ev.append(('end', tag))
    def handle_startendtag(self, tag, attrs): self.ev.append(('bad', 'self-closing ' + tag))
    def handle_data(self, d): self.ev.append(('data', d))
    def handle_entityref(self, n): self.ev.append(('ent', n))
    def handle_charref(self, n): self.ev.append(('char', n))
    def handle_comment(self, d): self.ev.append(('bad', 'comment'))
    def handle_decl(self, d): self.ev.append(('bad', 'decl'))
    def handle_pi(self, d): self.ev.append(('bad', 'pi'))
    def unknown_decl(self, d): self.ev.append(('bad', 'unknown decl'))

HTML_SYM = {'nbsp': '\xa0', 'ndash': '–', 'newblock': '\n'}
def oracle_html(tree, out):
    import html as _html
    p = _Ev(); p.feed(out); p.close()
    stack = []; data = []; nstart = 0
    for e in p.ev:
        if e[0] == 'bad':
            return 'HTML output contains a construct no node asked for (%s): %r' % (e[1], out)
        if e[0] == 'start':
            stack.append(e[1]); nstart += 1
        elif e[0] == 'end':
            if not stack or stack[-1] != e[1]:
                return 'HTML output is not well-formed (unexpected </%s>): %r' % (e[1], out)
            stack.pop()
        elif e[0] == 'data':
            if '<' in e[1] or '>' in e[1]:
                return 'HTML output has a bare < or > in character data: %r' % (out,)
            data.append(e[1])
        elif e[0] == 'ent':
            u = _html.unescape('&%s;' % e[1])
            if u == '&%s;' % e[1]:
                return 'HTML output has an unknown entity &%s;: %r' % (e[1], out)
            data.append(u)
        elif e[0] == 'char':
            data.append(_html.unescape('&#%s;' % e[1]))
    if stack:
        return 'HTML output is not well-formed (unclosed <%s>): %r' % (stack[-1], out)
    if '&' in ''.join(d for (k, d) in [(e[0], e[1]) for e in p.ev if e[0] == 'data']):
        return 'HTML output has a bare & in character data: %r' % (out,)
    expected = ''.join(a if isinstance(a, str) else HTML_SYM[a[1]] for a, _ in leaves(tree))
    if ''.join(data) != expected:
        return 'HTML character data %r differs from the text %r (output %r)' % (''.join(data), expected, out)
    if nstart > len(markup_nodes(tree)):
        return 'HTML output has more elements (%d) than the tree has markup nodes: %r' % (nstart, out)
    return None

def md_text_of(out, urls):
    """tokenise Markdown output: backslash-escaped characters and ordinary characters are text,
    unescaped escapable characters, <...> and ](url) are markup"""
    text = []; i = 0; n = len(out)
    while i < n:
        c = out[i]
        if c == '\\' and i + 1 < n and out[i + 1] in MD_ESCAPABLE:
            text.append(out[i + 1]); i += 2
        elif c == '<':
            j = out.find('>', i)
            if j < 0:
                return None
            i = j + 1
        elif c == ']' and out[i + 1:i + 2] == '(':
            j = out.find(')', i)
            if j < 0:
                return None
            i = j + 1
        elif c in MD_ESCAPABLE:
            i += 1                       # a delimiter emitted as markup
        elif c == '&':
            m = re.match(r'&([A-Za-z]+);', out[i:])
            if not m:
                return None
            text.append({'amp': '&', 'lt': '<', 'gt': '>'}.get(m.group(1), ('ent', m.group(1))))
            i += len(m.group(0))
        elif c == '>':
            return None
        else:
            text.append(c); i += 1
    return text

MD_SYM = {'nbsp': [' ', '\xa0', ('ent', 'nbsp')], 'ndash': [('ent', 'ndash'), '–'], 'newblock': ['\n', ' ']}
def oracle_md(tree, out):
    got = md_text_of(out, None)
    if got is None:
        return 'Markdown output has an unescaped < > or & that no node asked for: %r' % (out,)
    exp = leaves(tree)
    if len(got) != len(exp):
        return 'Markdown output: text characters %r differ from the text (an escapable character is not escaped, or text is lost): %r' % (got, out)
    for g, (a, _) in zip(got, exp):
        if isinstance(a, str):
            if g != a:
                return 'Markdown output: text characters %r differ from the text: %r' % (got, out)
        elif g not in MD_SYM[a[1]]:
            return 'Markdown output: symbol %s rendered as %r: %r' % (a[1], g, out)
    return None

def brace_balanced(s):
    d = 0
    for c in s:
        if c == '{': d += 1
        elif c == '}':
            d -= 1
            if d < 0: return False
    return d == 0

def depth_profile(s):
    d = 0; out = []
    for c in s:
        if c == '{': d += 1
        elif c == '}': d -= 1
        else: out.append((c, d))
    return out

LATEX_INERT = set('abcdefghijklmnopqrstuvwxyzABCDEFGHIJKLMNOPQRSTUVWXYZ0123456789 .,;:!?()[]<>"\'*+-=/|@`')
LATEX_ESC = {'#': '#', '%': '%', '&': '&', '_': '_'}
def latex_tokens(out):
    """[(kind, value, depth)]: kind 'c' character (escapes decoded), 'cw' control word, 'nbsp'"""
    toks = []; i = 0; n = len(out); d = 0
    while i < n:
        c = out[i]
        if c == '{': d += 1; i += 1
        elif c == '}': d -= 1; i += 1
        elif c == '\\':
            if i + 1 < n and out[i + 1].isalpha():
                j = i + 1
                while j < n and out[j].isalpha(): j += 1
                name = out[i + 1:j]
                if j < n and out[j] == ' ': j += 1          # a control word eats one following space
                if name == 'href':
                    # \href[options]{url}{text}: the options and the URL are arguments of their own
                    if out[j:j + 1] == '[':
                        j = out.find(']', j) + 1
                    if out[j:j + 1] == '{':
                        k = out.find('}', j)
                        toks.append(('link', out[j + 1:k], d)); j = k + 1
                elif name == 'url' and out[j:j + 1] == '{':
                    # \url{url}: the argument is verbatim -- it is the URL AND the (unescaped) text
                    k = out.find('}', j)
                    toks.append(('link', out[j + 1:k], d))
                    toks.extend(('c', ch, d + 1) for ch in out[j + 1:k])
                    j = k + 1
                toks.append(('cw', name, d)); i = j
            elif i + 1 < n:
                toks.append(('c', ' ' if out[i + 1] == ' ' else out[i + 1], d)); i += 2
            else:
                toks.append(('c', '\\', d)); i += 1
        elif c == '~':
            toks.append(('nbsp', '~', d)); i += 1
        else:
            toks.append(('c', c, d)); i += 1
    return toks

def adjacent_strings(t):
    if t[0] in (0, 1):
        return False
    ps = t[-1]
    return any(a[0] == 0 and b[0] == 0 for a, b in zip(ps, ps[1:])) or any(adjacent_strings(p) for p in ps)

def oracle_latex(tree, out, real=None):
    strs = [S(x) for x in tree_strings(tree, [])]
    lv = leaves(tree)
    chars = [a for a, _ in lv if isinstance(a, str)]
    if all(brace_balanced(s) for s in strs) and not brace_balanced(out):
        return 'LaTeX output has unbalanced braces although every string of the tree is balanced: %r' % (out,)
    if not all(c in LATEX_INERT or c in '#%&_~' for c in chars):
        return None
    if adjacent_strings(tree):
        # only reachable by setting .parts directly (the constructors merge adjacent strings): each
        # string is encoded on its own, so a control word ending one string swallows a space starting the next
        return None
    # the text is neither lost nor reordered, and every character sits inside the groups of the
    # markup nodes it was attached to: at least one group per enclosing Protected, at most one per
    # enclosing markup node (a link's URL and options are arguments of their own)
    exp = []
    for a, st in lv:
        if isinstance(a, str):
            exp.append(('c', a, st))
        elif a[1] == 'nbsp':
            exp.append(('nbsp', '~', st))
        elif a[1] == 'ndash':
            exp.extend([('c', '-', st), ('c', '-', st)])
        elif a[1] == 'newblock':
            exp.extend([('c', '\n', st), ('cw', 'newblock', st)])
    got = []; links = []
    for (k, v, d) in latex_tokens(out):
        if k == 'link':
            links.append(v)
        elif k == 'cw' and v == 'textasciitilde':
            got.append(('c', '~', d))
        elif k == 'cw' and v != 'newblock':
            continue                                  # a command emitted for a tag
        else:
            got.append((k, v, d))
    if [g[:2] for g in got] != [e[:2] for e in exp]:
        return 'LaTeX output: characters %r differ from the text %r: %r' % ([g[1] for g in got][:40], [e[1] for e in exp][:40], out)
    # the argument of \url / the first argument of \href is the URL the link was attached to, verbatim
    # (links of the CONSTRUCTED text: the constructors merge neighbouring links to the same URL into one)
    hrefs = [n for n in markup_nodes(real if real is not None else tree) if n[0] == 4]
    if all(leaves(n) or not any(m[0] == 5 for m in markup_nodes(n)) for n in hrefs):
        want = [S(n[1]) for n in hrefs if leaves(n)]
        if links != want:
            return 'LaTeX output: the URL arguments of \\url/\\href are %r but the links were attached to %r: %r' % (links, want, out)
    for (k, v, d), (_, _, st) in zip(got, exp):
        nprot = sum(1 for m in st if m == ('prot',))
        if not (nprot <= d <= len(st)):
            return 'LaTeX output: %r sits at brace depth %d but was attached to %d markup nodes (%d protected groups): %r' % (v, d, len(st), nprot, out)
    return None

PLAIN_SYM = {'nbsp': '(?: |\xa0)', 'ndash': '(?:--|-|–)', 'newblock': '(?: |\n)'}
def oracle_plain(tree, out):
    pat = ''.join(re.escape(a) if isinstance(a, str) else PLAIN_SYM[a[1]] for a, _ in leaves(tree))
    if not re.fullmatch(pat, out, flags=re.S):
        return 'plain-text output %r is not the text with symbols replaced by their plain equivalents' % (out,)
    return None

def oracle(fn, arg, out):
    if fn == 1:
        b, raw, tree = arg
        if not tree_in_oracle_domain(tree, b):
            return None
        if out[0] != 0:
            return 'rendering raised instead of returning markup'
        o = S(out[1])
        # empty tagged or linked fragments render as nothing
        if tree[0] in (3, 4) and not leaves(tree) and not any(n[0] == 5 for n in markup_nodes(tree)) and o != '':
            return 'an empty tagged/linked fragment renders as %r' % (o,)
        if b == 1:
            try:
                real = dump(build(tree, raw))
            except Exception:
                real = None
            return oracle_latex(tree, o, real)
        return [oracle_html, oracle_latex, oracle_md, oracle_plain][b](tree, o)
    if fn == 2:
        b, s = arg
        return oracle(1, [b, 0, [0, s]], out)
    if fn in (4, 5):
        v = S(arg[0])
        import codecs
        # the claim is about values on which latexcodec is the identity (enc = dec = id)
        # ... a backslash only as the control symbol \\\\ (so no brace is escaped: every brace of the decoded text is a group)
        if not brace_balanced(v) or not all(c in LATEX_INERT or c in '{}\\' for c in v) or _decode(arg[0]) != [arg[0]]:
            return None
        if any(len(m) % 2 for m in re.findall(r'\\+', v)):
            return None
        if out[0] != 0:
            return 'a brace-balanced field value was rejected'
        if fn == 5:
            if depth_profile(S(out[1])) != depth_profile(v):
                return 'brace depth of some character changed: %r -> %r' % (v, S(out[1]))
        else:
            def flat(t, d):
                if t[0] == 0:
                    return [(chr(c), d) for c in t[1]]
                if t[0] == 1:
                    return [(('sym', S(t[1])), d)]
                r = []
                for p in t[-1]:
                    r.extend(flat(p, d + (1 if t[0] == 5 else 0) + (100 if t[0] in (3, 4) else 0)))
                return r
            if flat(out[1], 0) != depth_profile(v):
                return 'parsed rich text does not carry the brace depths of %r' % (v,)
        return None
    if fn == 7:
        b, php, ei, ops = arg
        if not isinstance(out, list) or len(out) != len(ops):
            return 'the history did not produce one result per use'
        for i, (op, o) in enumerate(zip(ops, out)):
            if op[0] != 0 or o[0] != 0:
                continue
            # the i-th document of a reused back end is the document a fresh back end writes for it alone
            be = _history_backend(b, php, ei)
            import io
            def fresh():
                st = io.StringIO(); be.write_to_stream(_fbib(op[2], op[1]), st); return st.getvalue()
            f = call_impl(fresh)
            if f != o:
                return 'use %d: the document written by a back end that was used before differs from the document written alone: %r vs %r' % (i, S(o[1])[:200], S(f[1])[:200] if f[0] == 0 else f)
            if ENCODINGS[ei] in (None, 'UTF-8') and not php:
                m = oracle(3, [b, php, op[1], op[2]], o)
                if m:
                    return 'use %d: %s' % (i, m)
        return None
    if fn == 3:
        b, php, preamble, entries = arg
        if out[0] != 0:
            return None if not entries else 'writing the document raised'
        doc = S(out[1]); pos = 0
        be = _backend(b)
        for (k, l, t) in entries:
            if not tree_in_oracle_domain(t, b):
                return None
            r = call_impl(lambda: build(t, 0).render(be))
            if r[0] != 0:
                return None
            j = doc.find(S(r[1]), pos)
            if j < 0:
                return 'the rendered text of entry %r does not appear (in order) in the document' % (S(k),)
            pos = j + len(r[1])
        if b == 0:
            # the entries part of an HTML document is well-formed (labels here are plain)
            i = doc.find('<dl>\n'); j = doc.rfind('</dl></body></html>')
            if i < 0 or j < i:
                return 'the HTML document lacks its <dl> ... </dl></body></html> frame'
            if all(not any(c in S(l) for c in '<>&') for (_, l, _) in entries):
                p = _Ev(); p.feed(doc[i + 5:j]); p.close()
                stack = []
                for e in p.ev:
                    if e[0] == 'start':
                        stack.append(e[1])
                    elif e[0] == 'end':
                        if not stack or stack[-1] != e[1]:
                            return 'the entries part of the HTML document is not well-formed (unexpected </%s>)' % e[1]
                        stack.pop()
                if stack:
                    return 'the entries part of the HTML document is not well-formed (unclosed <%s>)' % stack[-1]
        if b == 1 and brace_balanced(S(preamble)) and all(brace_balanced(S(k)) and brace_balanced(S(l)) and all(brace_balanced(S(x)) for x in tree_strings(t, [])) for (k, l, t) in entries):
            if not brace_balanced(doc):
                return 'the LaTeX document has unbalanced braces although every key, label and string is balanced'
            if doc.count('\\bibitem[') < len(entries) or '\\begin{thebibliography}' not in doc or '\\end{thebibliography}' not in doc:
                return 'the LaTeX document lacks \\begin/\\end{thebibliography} or a \\bibitem per entry'
        return None
    return None

# ----------------------------------------------------------------------------------------
def describe(fn, a):
    def show(t):
        k = t[0]
        if k == 0: return repr(S(t[1]))
        if k == 1: return 'Symbol(%r)' % S(t[1])
        ps = ', '.join(show(p) for p in t[-1])
        if k == 2: return 'Text(%s)' % ps
        if k == 3: return 'Tag(%r%s)' % (S(t[1]), ', ' + ps if ps else '')
        if k == 4: return 'HRef(%r%s%s)' % (S(t[1]), ', ' + ps if ps else '', ', external=True' if t[2] else '')
        return 'Protected(%s)' % ps
    if fn == 1:
        return {'backend': BACKENDS[a[0]], 'constructed': 'parts set directly' if a[1] else 'through the constructors', 'text': show(a[2])}
    if fn == 2:
        return {'backend': BACKENDS[a[0]], 'string': S(a[1])}
    if fn == 3:
        return {'backend': BACKENDS[a[0]], 'php_extra': bool(a[1]), 'preamble': S(a[2]), 'entries': [(S(k), S(l), show(t)) for (k, l, t) in a[3]]}
    if fn in (4, 5):
        return {'latex': S(a[0])}
    if fn == 7:
        def sh(op):
            if op[0] == 0: return ('write_to_file' if op[3] else 'write_to_stream', S(op[1]), [(S(k), S(l), show(t)) for (k, l, t) in op[2]])
            if op[0] == 1: return ('render', show(op[1]))
            if op[0] == 2: return ('format_str', S(op[1]))
            return ('write_entry', S(op[1]), S(op[2]), S(op[3]))
        return {'backend': BACKENDS[a[0]], 'php_extra': bool(a[1]), 'encoding': ENCODINGS[a[2]], 'uses of ONE back-end object': [sh(op) for op in a[3]]}
    return {'backend': BACKENDS[a[0]], 'method': ['format_tag', 'format_href', 'format_protected'][min(a[1], 2)], 'name_or_url': S(a[2]), 'external': bool(a[3]), 'text': S(a[4])}

def nontrivial(fn, a, out):
    if fn == 1:
        return out[0] == 0 and len(markup_nodes(a[2])) > 0 and len(out[1]) > 0
    if fn == 2:
        return any(chr(c) in META for c in a[1])
    if fn in (4, 5):
        return out[0] == 0 and 123 in a[0]
    if fn == 7:
        return sum(1 for op in a[3] if op[0] == 0) >= 2
    return True

# ----------------------------------------------------------------------------------------
# generators
def T_(*ps): return [2, list(ps)]
def Tag_(n, *ps): return [3, n, list(ps)]
def HRef_(u, *ps, ext=0): return [4, u, ext, list(ps)]
def Prot_(*ps): return [5, list(ps)]
def Str_(s): return [0, s]
def Sym_(n): return [1, n]

LEAVES_Q = [Str_(''), Str_('a'), Str_('<&>*'), Str_('_{\\}~#'), Str_('u'), Sym_('nbsp'), Sym_('ndash'), Str_('&amp;\\*&#38;--')]
NODES_Q = [lambda ps: T_(*ps), lambda ps: Tag_('em', *ps), lambda ps: Tag_('strong', *ps), lambda ps: Tag_('zz', *ps),
           lambda ps: HRef_('u', *ps), lambda ps: HRef_('http://x.org/a_b', *ps, ext=1), lambda ps: Prot_(*ps)]

def compositions(n):
    if n == 0:
        yield ()
        return
    for k in range(1, n + 1):
        for rest in compositions(n - k):
            yield (k,) + rest

def trees(n, leaves_, nodes_, memo):
    """all trees with exactly n nodes"""
    key = n
    if key in memo:
        return memo[key]
    out = []
    if n == 1:
        out.extend(leaves_)
    for mk in nodes_:
        for comp in compositions(n - 1):
            for kids in itertools.product(*[trees(k, leaves_, nodes_, memo) for k in comp]):
                out.append(mk(list(kids)))
    memo[key] = out
    return out

WS = ' \t\n\xa0 '
UNI = '\xe9Ж€→\xb0\xdf'
def rand_str(rng, maxlen=8, alpha=None):
    alpha = alpha or (ALPHA + META)
    r = rng.random()
    if r < 0.1:
        return ''
    if r < 0.2:
        return ''.join(rng.choice(ALPHA + WS + UNI) for _ in range(rng.randint(1, maxlen)))
    if r < 0.45:
        return ''.join(rng.choice(TOKENS + TOKEN_NEUTRAL) for _ in range(rng.randint(1, max(1, maxlen // 2))))
    return ''.join(rng.choice(alpha) for _ in range(rng.randint(1, maxlen)))

TAGS = ['em', 'strong', 'i', 'b', 'tt', 'sup', 'sub', 'zz', 'span', 'emph']
URLS = ['u', 'http://example.org/', 'http://x.org/a_b?c=1', '/', 'ftp://h/p-q.r', 'http://x/some_page', 'http://x/a#b', 'http://x/%7Eu', 'http://x/a&b=c', 'http://x/~u/']
def rand_tree(rng, depth, strgen, weird=False):
    r = rng.random()
    if depth <= 0 or r < 0.3:
        if rng.random() < 0.12:
            return Sym_(rng.choice(['nbsp', 'ndash', 'newblock'] + (['zzz', ''] if weird else [])))
        return Str_(strgen(rng))
    kids = [rand_tree(rng, depth - 1, strgen, weird) for _ in range(rng.choice([0, 1, 1, 2, 2, 3, 4]))]
    k = rng.random()
    if k < 0.25:
        return T_(*kids)
    if k < 0.55:
        n = rng.choice(TAGS)
        if weird and rng.random() < 0.4:
            n = rng.choice(['', 'a b', 'x>y', '{', 'em>', 'script', '\\textbf'])
        return Tag_(n, *kids)
    if k < 0.8:
        u = rng.choice(URLS)
        if rng.random() < 0.15 and kids:
            # a link whose text is its own URL (the \url special case)
            kids = [Str_(u)]
        if weird and rng.random() < 0.5:
            u = rng.choice(['', 'a"b', 'x y', 'a<b>', 'a&b', '{', 'a}b', 'a_b', '~', 'a)b', 'http://x/%7E#f'])
            if rng.random() < 0.3:
                kids = [Str_(u)]
        return HRef_(u, *kids, ext=rng.choice([0, 1]))
    return Prot_(*kids)

def inert_str(rng):
    return ''.join(rng.choice('abXY 12.,-!?()[]<>"*+#%&_~') for _ in range(rng.randint(0, 6)))

def rand_latex(rng, depth, balanced=True):
    out = []
    for _ in range(rng.randint(0, 5)):
        r = rng.random()
        if r < 0.4 and depth > 0:
            out.append('{' + rand_latex(rng, depth - 1) + '}')
        elif r < 0.5:
            out.append(rng.choice(['{}', '{{}}', '}{', '{', '}', '\\{', '\\}', '\\\\{x}', '{x\\\\}', '\\\\', '\\\\\\{', '\\textbackslash{x}', '\\textbackslash{}', '\\_', '\\&', '~', '--', "\\'e", '\\"{o}', '{\\"o}', '\\emph{x}', '$x^2$', '%', '\\', '  ']))
        else:
            out.append(''.join(rng.choice('abcXY 12.,;:!?') for _ in range(rng.randint(1, 5))))
    return ''.join(out)

PINNED = [
    (1, [0, 0, Tag_('em', Str_('Hard &'), Str_(' heavy'))]),
    (1, [0, 0, HRef_('/', Str_('Hard & heavy'))]),
    (1, [0, 0, Tag_('em', T_(Str_('Л.:'), Sym_('nbsp'), Str_('<<Химия>>')))]),
    (1, [1, 0, HRef_('http://example.org/', Str_('http://example.org/'))]),
    (1, [1, 0, HRef_('http://x.org/a_b', Str_('http://x.org/a_b'))]),
    (1, [1, 0, HRef_('http://x.org/a_b', Str_('http://x.org/a_b'), ext=1)]),
    (1, [1, 0, Tag_('sup', Str_('hello'))]),
    (1, [1, 0, Tag_('strong', Str_('x'))]),
    (1, [1, 0, Prot_(Str_('CTAN'))]),
    (1, [1, 0, Prot_()]),
    (1, [0, 0, Prot_()]),
    (1, [1, 0, T_(Str_('a~'), Str_('b'), Str_('~ c'), Str_('~'), Sym_('nbsp'), Str_('~~.'))]),
    (1, [2, 0, Tag_('em', Str_('Non-'), Str_('empty'))]),
    (1, [2, 0, Tag_('sup', Str_('super'), Str_('man'))]),
    (1, [2, 0, HRef_('/', Str_('Non-'), Str_('empty'))]),
    (1, [2, 0, HRef_('/', Str_('x'), ext=1)]),
    (1, [2, 0, Str_('\\`*_{}[]()#+-.!<>&')]),
    (1, [3, 0, T_(Str_('a'), Sym_('ndash'), Sym_('nbsp'), Sym_('newblock'), Tag_('em', Str_('b')))]),
    (1, [0, 0, Sym_('zzz')]),
    (1, [1, 0, Prot_(HRef_('http://x/~u/', Str_('http://x/~u/')), HRef_('http://x/~u/', Str_('http://x/~u/')))]),
    (1, [1, 0, Prot_(Prot_(), HRef_('/', Str_('/')), HRef_('/', Str_('&*(?(')))]),
    (1, [1, 0, T_(HRef_('/', Str_('a')), T_(HRef_('/', Str_('b'))), HRef_('/', Str_('c'), ext=1))]),
    (4, ['a\\\\{b}']), (5, ['a\\\\{b}']), (5, ['Tables\\\\{and {Figures\\\\}}']), (5, ['\\textbackslash{x}']), (4, ['a\\{b\\}']), (5, ['{\\\\}{x}']),
    (2, [0, '&amp;']), (2, [0, '&lt;blink&gt;']), (2, [0, 'caf&#233;']), (2, [0, '&x;']), (2, [2, '\\*a\\\\']), (2, [2, '&amp;']),
    (2, [1, '\\&{\\%}']), (2, [3, 'a--b~c']), (1, [0, 0, Tag_('em', Str_('&lt;blink&gt;'), Str_(' caf&#233;'))]),
    (1, [0, 0, HRef_('u', Str_('x'), ext=1)]),          # F10 neighbourhood: external survives rendering
    (4, ['abc{def {xyz}} !']), (4, ['a{b}{c}{}{{}}d{e{f}}{{g}h}']), (4, ['}']), (4, ['{']), (4, ['a\\']), (4, ['']),
    (5, ['abc{def {xyz}} !']), (5, ['a{b}{c}{}{{}}d{e{f}}{{g}h}']), (5, ['{{{a}}}{{{b}}}']), (5, ['a_b {~}']),
    (3, [1, 0, '', []]), (3, [0, 0, '', []]), (3, [1, 0, '\\preamble', [['k', 'L1', Str_('x')]]]),
]

def gen(tier, rng):
    for fn, a in PINNED:
        yield ('pinned', fn, a)
    # (a) exhaustive small scope: trees
    maxn = 3 if tier == 'quick' else 4
    memo = {}
    leaves_ = LEAVES_Q
    nodes_ = NODES_Q
    for n in range(1, maxn + 1):
        for t in trees(n, leaves_ if n < 4 else [Str_(''), Str_('a<_{'), Sym_('nbsp')], nodes_ if n < 4 else NODES_Q[1:2] + NODES_Q[3:4] + NODES_Q[5:], memo):
            for b in range(4):
                for raw in (0, 1):
                    yield ('exhaustive_trees', 1, [b, raw, t])
    # (a) exhaustive small scope: strings over the full metacharacter alphabet
    L = 2 if tier == 'quick' else 3
    for n in range(0, L + 1):
        for cs in itertools.product(ALPHA, repeat=n):
            for b in range(4):
                yield ('exhaustive_strings', 2, [b, ''.join(cs)])
    if tier == 'quick':
        for cs in itertools.product('&<\\*~a #', repeat=3):
            for b in range(3):
                yield ('exhaustive_strings', 2, [b, ''.join(cs)])
    # (a) exhaustive small scope: sequences of already-escaped-looking tokens
    L = 2 if tier == 'quick' else 3
    toks = TOKENS + TOKEN_NEUTRAL
    for n in range(1, L + 1):
        for ts in itertools.product(toks if n < 3 else toks[::2], repeat=n):
            for b in range(4):
                yield ('exhaustive_tokens', 2, [b, ''.join(ts)])
    # format_tag / format_href / format_protected on arbitrary rendered text
    for b in range(4):
        for text in ['', 'x', '{', 'http://x.org/a\\_b', 'u']:
            for x in ['em', 'strong', 'zz', 'u', 'http://x.org/a_b', '']:
                for kind in (0, 1, 2):
                    for ext in ((0, 1) if kind == 1 else (0,)):
                        yield ('node_formatters', 6, [b, kind, x, ext, text])
    # (a) exhaustive small scope: field values over {a { } space}
    L = 6 if tier == 'quick' else 8
    for n in range(0, L + 1):
        for cs in itertools.product('a{} ', repeat=n):
            v = ''.join(cs)
            yield ('exhaustive_latex', 4, [v])
            if brace_balanced(v) or n <= 4:
                yield ('exhaustive_latex', 5, [v])
    # links whose text is / is not their own URL, URLs with the characters LaTeX escapes, both link modes
    for u in URLS:
        for ext in (0, 1):
            for kids in ([Str_(u)], [Str_('see '), Str_(u)], [Tag_('em', Str_(u))], [Str_('x_y')]):
                for b in range(4):
                    yield ('links', 1, [b, 0, HRef_(u, *kids, ext=ext)])
                    yield ('links', 1, [b, 0, T_(Str_('a '), HRef_(u, *kids, ext=ext), Str_('.'))])
    # field values with backslashes next to braces (tokens: a { } \\\\ \\)
    L = 5 if tier == 'quick' else 6
    for n in range(1, L + 1):
        for ts in itertools.product(['a', '{', '}', '\\\\', '\\'], repeat=n):
            v = ''.join(ts)
            if '\\' in v:
                yield ('exhaustive_latex_backslash', 4, [v])
                if brace_balanced(v):
                    yield ('exhaustive_latex_backslash', 5, [v])
    # (b) structured random
    nrand = 3000 if tier == 'quick' else 60000
    for i in range(nrand):
        d = rng.choice([1, 2, 3, 3, 4, 6])
        sg = rng.choice([rand_str, rand_str, inert_str])
        t = rand_tree(rng, d, sg)
        for b in range(4):
            yield ('random_trees', 1, [b, rng.choice([0, 0, 1]), t])
    for i in range(nrand // 10):
        es = [[rand_str(rng, 4, 'abK12'), rand_str(rng, 5, 'abWi12{}'), rand_tree(rng, 3, rand_str)] for _ in range(rng.randint(0, 4))]
        pre = rng.choice(['', '', '\\newcommand{\\x}{y}'])
        for b in range(4):
            yield ('random_documents', 3, [b, rng.choice([0, 1]), pre, es])
    for i in range(nrand):
        v = rand_latex(rng, rng.choice([1, 2, 3, 5]))
        yield ('random_latex', 4, [v])
        yield ('random_latex', 5, [v])
    for d in ([10, 60] if tier == 'quick' else [10, 60, 120, 200]):
        v = '{' * d + 'x' + '}' * d
        yield ('deep_latex', 5, [v]); yield ('deep_latex', 4, [v + v]); yield ('deep_latex', 4, ['a' + v[:-1]])
        t = Str_('x')
        for k in range(d):
            t = [Prot_, lambda *p: Tag_('em', *p), lambda *p: HRef_('u', *p)][k % 3](t)
        for b in range(4):
            yield ('deep_trees', 1, [b, 0, t])
    # history: ONE back-end object per case, 2-4 uses in a row
    ascii_str = lambda r, n=6: ''.join(r.choice('abXY12 .&<_*{}#~-') for _ in range(r.randint(0, n)))
    def rand_entries(r):
        return [[ascii_str(r, 3) or 'k', ascii_str(r, 4).replace('<', '').replace('&', '').replace('{', '').replace('}', '') or 'L', rand_tree(r, 2, ascii_str)] for _ in range(r.randint(0, 3))]
    for b in range(4):
        for php in ((0, 1) if b == 2 else (0,)):
            for ei in range(len(ENCODINGS)):
                e1 = [['k1', 'A', Tag_('em', Str_('one'))]]
                e2 = [['k2', 'Bb', Str_('two & <2>')], ['k3', 'C', Prot_(Str_('three'))]]
                yield ('history', 7, [b, php, ei, [[0, '', e1, 0], [0, '', e2, 0]]])
                yield ('history', 7, [b, php, ei, [[0, 'p', e1, 1], [1, Str_('mid~')], [0, '', e2, 1], [0, '', [], 0]]])
                yield ('history', 7, [b, php, ei, [[1, Str_('a~')], [2, ' b'], [0, '', e2, 0], [3, 'k', 'L', 'text'], [0, '', e1, 1], [2, '~'], [2, ' x']]])
    for i in range(120 if tier == 'quick' else 3000):
        b = rng.randrange(4)
        ops = []
        for _ in range(rng.randint(2, 4)):
            r = rng.random()
            if r < 0.6:
                ops.append([0, rng.choice(['', '', 'pre']), rand_entries(rng), rng.choice([0, 0, 1])])
            elif r < 0.75:
                ops.append([1, rand_tree(rng, 2, ascii_str)])
            elif r < 0.9:
                ops.append([2, ascii_str(rng)])
            elif ops:
                ops.append([3, ascii_str(rng, 3), ascii_str(rng, 3), ascii_str(rng)])
        yield ('history', 7, [b, rng.choice([0, 1]), rng.randrange(len(ENCODINGS)), ops])
    # (c) malformed: unknown symbols, odd tag names and URLs, unbalanced strings
    for i in range(nrand // 3):
        t = rand_tree(rng, rng.choice([1, 2, 3]), rand_str, weird=True)
        for b in range(4):
            yield ('malformed_trees', 1, [b, rng.choice([0, 1]), t])
    for i in range(nrand // 3):
        v = rand_latex(rng, 3)
        k = rng.randrange(len(v) + 1)
        v = v[:k] + rng.choice(['{', '}', '\\', '}{']) + v[k:]
        yield ('malformed_latex', 4, [v])
        yield ('malformed_latex', 5, [v])

RULE = ('exhaustive: every tree of <= 3 (thorough: 4) nodes over 7 leaves (strings of each back end\'s metacharacters, empty string, symbols) and 7 node kinds '
        '(Text, Tag em/strong/unknown, HRef +-external, Protected) x 4 back ends x {built through the constructors, parts set directly}; every string of length <= 2 (thorough: 3) over the '
        '29-character alphabet (incl. ;), every sequence of <= 2 (thorough: 3) tokens from the back ends\' own escape outputs and near-misses (&amp; &#38; &x; \\* {\\%} -- ~ ...)  of the property x 4 back ends; every field value of length <= 6 (thorough: 8) over {a { } space}; random: deeper trees with Unicode and whitespace, whole documents, '
        'LaTeX values with escapes, nesting to depth 200; history: ONE back-end object per case writing 2-4 documents in a row (write_to_stream / write_to_file), interleaved with render / format_str / write_entry on the same object, encodings default/latin-1/ascii/UTF-8, each use compared separately; malformed: unknown symbols, odd tag names and URLs, unbalanced values. '
        'distinct = distinct (function, argument); non-trivial = a markup node with non-empty output / a string containing a metacharacter / a value with a brace group.')
EXHAUSTIVE = {'quick': 'all trees of <= 3 nodes (7 leaves, 7 node kinds) x 4 back ends x 2 construction modes; all strings of length <= 2 over 28 characters x 4 back ends; all values of length <= 6 over {a,{,},space}',
              'thorough': 'all trees of <= 3 nodes plus a reduced 4-node family x 4 back ends x 2 construction modes; all strings of length <= 3 over 28 characters x 4 back ends; all values of length <= 8 over {a,{,},space}'}
TRUSTED_BASE = ['modelled (not verified) code: pybtex/backends/{__init__,html,latex,markdown,plaintext}.py, the render methods of pybtex/richtext.py, pybtex/markup/__init__.py LaTeXParser, Text.from_latex',
                'latexcodec (ulatex encoder/decoder): the encoder is modelled as a per-character table + two-state machine, the table measured per run; the decoder is applied by the harness',
                'pybtex.textutils.width (label widths are inputs of the document model)']
ASSUMPTIONS = ['enc_keeps_braces / table shape hypotheses: discharged per run for the measured tables (generated obligations)',
               'the rich-text tree given to the model is the real object tree dumped after construction (the smart constructor itself is C08)']

# ----------------------------------------------------------------------------------------
# per-run table obligations (DESIGN.md 2.3): the tables are regenerated from the code / measured
# from latexcodec and the shape hypotheses of the theorems are proved for them by vm_compute
def _cl(s):
    return '[' + '; '.join(str(ord(c)) for c in s) + ']'

def generated_obligations(ck):
    head = ('From Pybtex Require Import Base.Prelude Base.PyChar Base.PyStr Model.RtTypes Model.Backends '
            'Proofs.Backends Proofs.BackendsMd Proofs.BackendsHtml Proofs.BackendsLatex Proofs.BackendsHtmlWf Proofs.BackendsMdTree.\nLocal Open Scope N_scope.\n')
    obs = []
    def run(name, what, body):
        try:
            src = head + body()
        except Exception as e:
            return {'name': name, 'what': what, 'ok': False, 'log': 'could not translate the table: %r' % (e,)}
        path = os.path.join(ck.rundir, 'C09_%s.v' % name)
        open(path, 'w').write(src)
        rc, log = coqc_file(path, ck.rundir)
        return {'name': name, 'what': what, 'ok': rc == 0, 'log': log}
    def special():
        from pybtex.backends import markdown
        sc = list(markdown.SPECIAL_CHARS)
        if not all(isinstance(c, str) and len(c) == 1 for c in sc):
            raise ValueError('SPECIAL_CHARS is not a list of single characters: %r' % (sc,))
        return ('Definition SPECIAL_CHARS : list char := %s.\n'
                'Lemma special_chars_exact : md_table_shape SPECIAL_CHARS = true /\\ same_set SPECIAL_CHARS markdown_escapable = true.\n'
                'Proof. vm_compute. split; reflexivity. Qed.\n' % _cl(''.join(sc)))
    def tabs(b):
        sym, tags, _ = backend_tables(b)
        s = '[' + '; '.join('(%s, %s)' % (_cl(S(k)), _cl(S(v))) for k, v in sym) + ']'
        t = '[' + '; '.join('(%s, %s)' % (_cl(S(k)), ('Some ' + _cl(S(v[0]))) if v else 'None') for k, v in tags) + ']'
        return 'Definition TAB : tables := mkTables %s %s markdown_escapable.\n' % (s, t)
    def html():
        return tabs(0) + 'Lemma html_symbols_are_entities_or_text : html_symbols_ok TAB = true /\\ html_symbols_wf TAB = true.\nProof. vm_compute. split; reflexivity. Qed.\n'
    def latex():
        return tabs(1) + 'Lemma latex_tables_shape : latex_tables_ok TAB = true.\nProof. vm_compute. reflexivity. Qed.\n'
    def md():
        from pybtex.backends import markdown
        sc = ''.join(markdown.SPECIAL_CHARS)
        return tabs(2).replace('markdown_escapable.', _cl(sc) + '.') + 'Lemma markdown_tables_shape : md_tables_ok TAB = true.\nProof. vm_compute. reflexivity. Qed.\n'
    def enc():
        chars = [chr(c) for c in range(128)] + list(WS + UNI)
        ent = [enc_entry(c) for c in chars]
        e = '[' + '; '.join('(%d, (%s, %s))' % (c, _cl(S(x)), 'true' if cw else 'false') for c, x, cw in ent) + ']'
        return ('Definition ENC : enc_table := %s.\n'
                'Lemma latexcodec_keeps_braces : enc_table_ok ENC = true.\nProof. vm_compute. reflexivity. Qed.\n' % e)
    obs.append(run('special_chars_exact', 'markdown.SPECIAL_CHARS (regenerated) has the backslash first, no duplicates, and is exactly the Markdown syntax document\'s set', special))
    obs.append(run('html_symbols', 'html Backend.symbols (regenerated): every value is an entity or plain text', html))
    obs.append(run('latex_tables', 'latex Backend.symbols are brace-balanced and Backend.tags contain no brace (regenerated)', latex))
    obs.append(run('markdown_tables', 'markdown Backend.symbols are entities or text, Backend.tags are delimiter characters, SPECIAL_CHARS has the modelled shape (regenerated)', md))
    obs.append(run('latexcodec_keeps_braces', 'latexcodec\'s translation of every ASCII character (+ samples), measured, keeps the brace skeleton', enc))
    return obs

PARTIAL = ['latex_depth_roundtrip is proved for the identity codec (and under sampled codec hypotheses, next item); elsewhere the depth claim is oracled on values the codec leaves unchanged and compared model-vs-code',
           'HTML / Markdown / LaTeX theorems assume ordinary URLs and tag names (no angle bracket; no ")" in Markdown link URLs; balanced braces in LaTeX): the code inserts both unescaped',
           'whole documents: the HTML <head> block (DOCTYPE, void meta elements) is fixed text outside the well-formedness theorem; labels/keys are inserted unescaped (hypotheses plain_label / balanced)',
           'latex_depth_roundtrip_codec: its four codec hypotheses are sampled against latexcodec (codec_hypotheses_sweep), not proved of it, and hold only on an alphabet without space , - \' ` ~',
           'latexcodec itself is a measured table (encoder) / applied by the harness (decoder)']

# ----------------------------------------------------------------------------------------
# the codec hypotheses of latex_depth_roundtrip_codec, sampled against latexcodec on every run
CODEC_ALPHA = ''.join(chr(c) for c in range(33, 127) if chr(c) not in "{}\\~'`-,")

def extra_checks(ck, tier, rng):
    import codecs, latexcodec  # noqa
    be = backend_tables(1)[2]
    enc = be.format_str
    def dec(s):
        return codecs.decode(s, 'ulatex')
    fails = []; n = 0
    def bad(what, *vals):
        if len(fails) < 5:
            fails.append((what, repr(vals)[:300], False))
    if enc('') != '':
        bad('enc [] = []')
    # exhaustive over pairs of alphabet characters, then random longer strings
    strings = [''] + list(CODEC_ALPHA) + [a + b for a in CODEC_ALPHA for b in CODEC_ALPHA]
    for _ in range(3000 if tier == 'quick' else 60000):
        strings.append(''.join(rng.choice(CODEC_ALPHA) for _ in range(rng.randint(3, 12))))
    for s in strings:
        n += 1
        try:
            e = enc(s)
            if dec(e) != s:
                bad('dec (enc s) = s', s, e, dec(e))
            if '{' in e or '}' in e:
                bad('enc keeps the brace skeleton', s, e)
            k = rng.randrange(len(s) + 1)
            if enc(s[:k]) + enc(s[k:]) != e:
                bad('enc (a ++ b) = enc a ++ enc b', s[:k], s[k:])
        except Exception as ex:
            bad('codec raised', s, repr(ex))
    # the decoder leaves braces in place: dec (enc a ++ b :: r) = dec (enc a) ++ b :: dec r, r an encoded token stream
    for _ in range(2000 if tier == 'quick' else 40000):
        n += 1
        a = ''.join(rng.choice(CODEC_ALPHA) for _ in range(rng.randint(0, 6)))
        b = rng.choice('{}')
        r = ''.join(rng.choice(['{', '}', enc(''.join(rng.choice(CODEC_ALPHA) for _ in range(rng.randint(1, 4))))]) for _ in range(rng.randint(0, 6)))
        try:
            if dec(enc(a) + b + r) != dec(enc(a)) + b + dec(r):
                bad('dec (enc a ++ b :: r) = dec (enc a) ++ b :: dec r', a, b, r)
        except Exception as ex:
            bad('decoder raised', a, b, r, repr(ex))
    yield {'name': 'codec_hypotheses_sweep', 'evaluations': n, 'failures': fails,
           'info': 'hypotheses of latex_depth_roundtrip_codec against latexcodec on the alphabet %r (printable ASCII without braces, backslash, ~ \' ` - ,): all strings of length <= 2, random longer ones, random brace/token streams' % CODEC_ALPHA}
