# C15 -- .bst source parsing.  Model: coq/Model/BstParser.v, printer: coq/Spec/BstPrint.v,
# theorems: coq/Props/C15.v
import itertools, random, os, io, re, tempfile, shutil
from core import *

ID = 'C15'

# ------------------------------------------------------------------------------------------
# wire encoding of programs (same as coq/Extr/C15.v)
LIMB = 1 << 30
def enc_big(z):
    n = abs(z); limbs = []
    while n:
        limbs.append(n % LIMB); n //= LIMB
    return [1 if z < 0 else 0, limbs]
def dec_big(b):
    n = 0
    for x in reversed(b[1]):
        n = n * LIMB + x
    return -n if b[0] else n

def I(z): return [0, enc_big(z)]
def Str(s): return [1, norm(s)]
def Q(s): return [2, norm(s)]
def Id(s): return [3, norm(s)]
def Fn(body): return [4, list(body)]
def Cmd(name, *groups): return [norm(name), [list(g) for g in groups]]

def enc_obj(x):
    from pybtex.bibtex.interpreter import FunctionLiteral, Identifier, Integer, QuotedVar, String
    t = type(x)
    if t is Integer:
        v = x.value()
        if type(v) is not int:
            raise TypeError('Integer holds %r' % (v,))
        return [0, enc_big(v)]
    if t is String: return [1, norm(x.value())]
    if t is QuotedVar: return [2, norm(x.value())]
    if t is Identifier: return [3, norm(x.value())]
    if t is FunctionLiteral: return [4, [enc_obj(y) for y in x.body]]
    raise TypeError('unexpected literal %r' % (x,))

def enc_program(cmds):
    out = []
    for c in cmds:
        if not (isinstance(c, list) and c and isinstance(c[0], str)):
            raise TypeError('unexpected command %r' % (c,))
        out.append([norm(c[0]), [[enc_obj(t) for t in g] for g in c[1:]]])
    return out

def call_parse(f):
    """outcome of a parsing call in the model's res encoding, keeping the error class and line:
    [0, program] / [1, cls, lineno] / [2];  cls: 1 PrematureEOF, 2 TokenRequired, 3 another
    PybtexSyntaxError, 4 another PybtexError"""
    from pybtex.exceptions import PybtexError
    from pybtex.scanner import PybtexSyntaxError, PrematureEOF, TokenRequired
    try:
        return [0, enc_program(f())]
    except PybtexError as e:
        if isinstance(e, PrematureEOF): c = 1
        elif isinstance(e, TokenRequired): c = 2
        elif isinstance(e, PybtexSyntaxError): c = 3
        else: c = 4
        ln = getattr(e, 'lineno', None)
        return [1, c, ln if isinstance(ln, int) and not isinstance(ln, bool) else -1]
    except TypeError as e:
        if 'unexpected' in str(e) or 'Integer holds' in str(e):
            raise
        return [2]
    except Exception:
        return [2]

def _bst():
    from pybtex.bibtex import bst
    return bst

def impl_strip_comment(a):
    return call_impl(_bst().strip_comment, S(a[0]))
def impl_parse_string(a):
    src = S(a[0])
    return call_parse(lambda: list(_bst().parse_string(src)))
def impl_parse_stream(a):
    lines = [S(l) for l in a[0]]
    return call_parse(lambda: list(_bst().parse_stream(lines)))
_TMP = None
def impl_parse_file(a):
    global _TMP
    if _TMP is None or not os.path.isdir(_TMP[0]) or _TMP[1] != os.getpid():
        import atexit
        d = tempfile.mkdtemp(prefix='c15-')
        _TMP = (d, os.getpid())
        atexit.register(shutil.rmtree, d, True)
    p = os.path.join(_TMP[0], 'x.bst')
    with open(p, 'wb') as f:
        f.write(S(a[0]).encode('utf-8'))
    try:
        return call_parse(lambda: list(_bst().parse_file(p, encoding='utf-8')))
    finally:
        os.unlink(p)
def impl_roundtrip(a):
    src = py_print(a[1], a[0])
    return [norm(src), call_parse(lambda: list(_bst().parse_string(src)))]
def impl_scan(a):
    """required([NAME, STRING, INTEGER, LBRACE, RBRACE]) until it fails, through the real scanner"""
    from pybtex.bibtex.bst import BstParser
    from pybtex.scanner import PrematureEOF, TokenRequired
    p = BstParser(S(a[0]))
    pats = [p.NAME, p.STRING, p.INTEGER, p.LBRACE, p.RBRACE]
    out = []
    while True:
        try:
            t = p.required(pats, allow_eof=True)
        except EOFError:
            return [out, 0, p.lineno]
        except PrematureEOF as e:
            return [out, 1, e.lineno]
        except TokenRequired as e:
            return [out, 2, e.lineno]
        out.append([pats.index(t.pattern), norm(t.value), p.lineno])
def impl_splitlines(a):
    return OK(S(a[0]).splitlines())
def impl_text(a):
    """the text parse_string hands to BstParser"""
    got = []
    bst = _bst()
    class Spy(bst.BstParser):
        def __init__(self, text, *r, **k):
            got.append(text)
            super().__init__(text, *r, **k)
    orig = bst.BstParser
    bst.BstParser = Spy
    try:
        try:
            list(bst.parse_string(S(a[0])))
        except Exception:
            pass
    finally:
        bst.BstParser = orig
    return OK(got[0]) if got else [2]
def impl_parse_stringio(a):
    src = S(a[0])
    return call_parse(lambda: list(_bst().parse_stream(io.StringIO(src))))

PROG = ('L', ('T', 'S', ('L', ('L', 'X'))))
FUNCS = {
    1: ('pybtex.bibtex.bst.strip_comment', impl_strip_comment, ('T', 'S')),
    2: ('list(pybtex.bibtex.bst.parse_string(src))', impl_parse_string, ('T', 'S')),
    3: ('list(pybtex.bibtex.bst.parse_stream(lines))', impl_parse_stream, ('T', ('L', 'S'))),
    4: ('list(pybtex.bibtex.bst.parse_file(path))', impl_parse_file, ('T', 'S')),
    5: ('parse_string(print_bst(layout, program))', impl_roundtrip, ('T', PROG, ('L', 'S'))),
    6: ('BstParser.required (scanner trace)', impl_scan, ('T', 'S')),
    7: ('str.splitlines', impl_splitlines, ('T', 'S')),
    8: ('text given to BstParser by parse_string', impl_text, ('T', 'S')),
    9: ('list(pybtex.bibtex.bst.parse_stream(io.StringIO(src)))', impl_parse_stringio, ('T', 'S')),
}

def model_arg(fn, a):
    if fn == 9:
        return a
    return a

def canon(fn, r):
    """errors compare as (pybtex syntax error?, line); the exact subclass is not compared"""
    def c(x):
        if isinstance(x, list) and x and x[0] == 1 and len(x) >= 3:
            return [1, 'syntax' if x[1] in (1, 2, 3) else 'other', x[2]]
        return x
    if fn == 5 and isinstance(r, list) and len(r) == 2:
        return [r[0], c(r[1])]
    if fn == 6:
        return r
    return c(r)

# ------------------------------------------------------------------------------------------
# the printer of the property (mirror of coq/Spec/BstPrint.v; the two are compared on every fn-5 case)
def flat_tok(t):
    k, v = t
    if k == 0: return ['#' + str(dec_big(v))]
    if k == 1: return ['"' + S(v) + '"']
    if k == 2: return ["'" + S(v)]
    if k == 3: return [S(v)]
    out = ['{']
    for x in v:
        out.extend(flat_tok(x))
    out.append('}')
    return out
def flat_program(prog):
    out = []
    for name, groups in prog:
        out.append(S(name))
        for g in groups:
            out.append('{')
            for t in g:
                out.extend(flat_tok(t))
            out.append('}')
    return out
def weave(gaps, toks):
    gaps = [S(g) if not isinstance(g, str) else g for g in gaps]
    out = []
    for i, t in enumerate(toks):
        out.append(gaps[i] if i < len(gaps) else ' ')
        out.append(t)
    if len(toks) < len(gaps):
        out.append(gaps[len(toks)])
    return ''.join(out)
def py_print(gaps, prog):
    return weave(gaps, flat_program(prog))

# ------------------------------------------------------------------------------------------
# the reference reading of .bst source (independent of pybtex; BibTeX's conventions as the property
# text spells them): %-comments to the end of the line except inside a string literal; tokens
# { } "string" #integer name; a command is one of the ten names (any case) followed by exactly
# its number of brace groups; groups nest.
ARITY = {'ENTRY': 3, 'EXECUTE': 1, 'FUNCTION': 2, 'INTEGERS': 1, 'ITERATE': 1, 'MACRO': 2,
         'READ': 0, 'REVERSE': 1, 'SORT': 0, 'STRINGS': 1}
EXOTIC_BREAKS = set('\x0b\x0c\x1c\x1d\x1e\x85  ')
INT_RE = re.compile(r'#-?[0-9]+')
def ascii_upper(s):
    return ''.join(chr(ord(c) - 32) if 'a' <= c <= 'z' else c for c in s)
def in_domain_text(s):
    """ASCII, or a whitespace character, or a non-letter non-digit symbol (DESIGN.md 2.2)"""
    return all(ord(c) < 128 or c.isspace() or not (c.isalnum() or c.upper() != c or c.lower() != c) for c in s)

def ref_strip(line):
    q = 0
    for i, c in enumerate(line):
        if c == '"': q += 1
        elif c == '%' and q % 2 == 0:
            return line[:i]
    return line

def ref_strip_carry(lines):
    """comment stripping with the quote parity carried over line ends (a string literal that runs over a line
    end stays a string literal on the next line)"""
    q = 0; out = []
    for l in lines:
        cut = None
        for i, c in enumerate(l):
            if c == '"': q += 1
            elif c == '%' and q % 2 == 0:
                cut = i; break
        out.append(l if cut is None else l[:cut])
    return out

def ref_lex(src, multiline=False):
    """-> (tokens [(kind, value, line, line feeds inside earlier string tokens)], number of lines).
    kinds: name str int { } bad unspec.  Default reading (BibTeX's): a string literal ends on its line.
    multiline='line' / 'carry': the comment-stripped lines are joined and a string literal runs to the next double
    quote, wherever that is ('line': the quote parity that decides what a comment is starts afresh on every line,
    'carry': it is carried over line ends)."""
    lines = re.split('\r\n|\n|\r', src)
    toks = []
    if multiline:
        text = '\n'.join(ref_strip_carry(lines) if multiline == 'carry' else [ref_strip(l) for l in lines])
        chunks = [(text, 1)]
    else:
        chunks = [(l, k) for k, l in enumerate(lines, 1)]
    sw = 0
    for line, ln0 in chunks:
        i, n = 0, len(line)
        ln = ln0
        while i < n:
            c = line[i]
            if c == '\n':
                ln += 1; i += 1
            elif c.isspace():
                i += 1
            elif c == '%' and not multiline:
                break
            elif c in '{}':
                toks.append((c, c, ln, sw)); i += 1
            elif c == '"':
                j = line.find('"', i + 1)
                if j < 0:
                    later = (not multiline) and any('"' in l for l in lines[ln:])
                    toks.append(('unspec' if later else 'bad', 'open string', ln, sw))
                    return toks, len(lines)
                toks.append(('str', line[i + 1:j], ln, sw))
                k = line.count('\n', i, j); ln += k; sw += k
                i = j + 1
            elif c == '#':
                m = INT_RE.match(line, i)
                if not m:
                    toks.append(('bad', line[i:], ln, sw))
                    return toks, len(lines)
                if m.end() - i > 4000:
                    toks.append(('unspec', 'integer literal beyond the conversion limit of CPython', ln, sw))
                    return toks, len(lines)
                toks.append(('int', int(m.group()[1:]), ln, sw)); i = m.end()
            else:
                j = i
                while j < n and not line[j].isspace() and line[j] not in '#"{}' and (multiline or line[j] != '%'):
                    j += 1
                toks.append(('name', line[i:j], ln, sw)); i = j
    return toks, len(lines)

def ref_parse(src, multiline=False):
    """('ok', program) | ('bad', lo, hi, kind, swallowed) | ('unspec', why, line)"""
    if any(c in EXOTIC_BREAKS for c in src):
        return ('unspec', 'line-break characters other than LF / CR / CRLF', 0)
    if not in_domain_text(src):
        return ('unspec', 'non-ASCII letters or digits', 0)
    toks, nlines = ref_lex(src, multiline)
    pos = 0
    prog = []
    last = 1
    total_sw = toks[-1][3] if toks else 0
    def tokerr(t):
        if t[0] == 'unspec':
            return ('unspec', t[1], t[2])
        return ('bad', t[2], t[2], 'bad token' if t[0] == 'bad' else 'unexpected token', t[3])
    while pos < len(toks):
        t = toks[pos]
        if t[0] != 'name':
            return tokerr(t) if t[0] in ('unspec', 'bad') else ('bad', t[2], t[2], 'command expected', t[3])
        if ascii_upper(t[1]) not in ARITY:
            return ('bad', t[2], t[2], 'unknown command', t[3])
        last = t[2]; pos += 1
        groups = []
        for _ in range(ARITY[ascii_upper(t[1])]):
            if pos >= len(toks):
                return ('bad', last, nlines, 'eof', total_sw)
            u = toks[pos]
            if u[0] != '{':
                if u[0] == 'unspec':
                    return tokerr(u)
                return ('bad', u[2], u[2], 'group expected', u[3])
            last = u[2]; pos += 1
            stack = [[]]
            while True:
                if pos >= len(toks):
                    return ('bad', last, nlines, 'eof', total_sw)
                u = toks[pos]
                if u[0] in ('bad', 'unspec'):
                    return tokerr(u)
                last = u[2]; pos += 1
                if u[0] == '{':
                    stack.append([])
                    if len(stack) > 150:
                        return ('unspec', 'nesting deeper than 150', u[2])
                elif u[0] == '}':
                    done = stack.pop()
                    if not stack:
                        groups.append(done); break
                    stack[-1].append(Fn(done))
                elif u[0] == 'str': stack[-1].append(Str(u[1]))
                elif u[0] == 'int': stack[-1].append(I(u[1]))
                elif u[1].startswith("'"): stack[-1].append(Q(u[1][1:]))
                else: stack[-1].append(Id(u[1]))
        prog.append([norm(t[1]), groups])
    return ('ok', prog)

def upper_names(prog):
    return [[norm(ascii_upper(S(c[0]))), c[1]] for c in prog]

def rstrip_in_strings(prog):
    """the program with, in every string literal, the whitespace run directly before each line feed removed
    (what per-line rstrip() in parse_stream does to a literal that runs over a line end: finding F33)"""
    def t(tok):
        if tok[0] == 1:
            v = S(tok[1])
            if '\n' in v:
                segs = v.split('\n')
                v = '\n'.join([x.rstrip() for x in segs[:-1]] + [segs[-1]])
            return Str(v)
        if tok[0] == 4:
            return Fn([t(x) for x in tok[1]])
        return tok
    return [[c[0], [[t(x) for x in g] for g in c[1]]] for c in prog]

def judge(src, out, exact_names_of=None, stream=False):
    """the property on one parse outcome -> None or a message"""
    r = ref_parse(src)
    if out == [2] or (isinstance(out, list) and out[:1] == [2]):
        if r[0] == 'unspec' and ('conversion limit' in r[1] or 'deeper' in r[1]):
            return None
        return 'a foreign (non-pybtex) exception escaped the parser'
    ranges = None
    if r[0] == 'unspec':
        if r[1] != 'open string':
            return None
        # a string literal that runs over a line end ("... regardless of whitespace, line breaks"): it runs to the
        # next double quote.  What a percent sign on its later lines means depends on whether the quote parity is
        # carried over the line end; the property does not say, so a demand is made only where both readings agree.
        ra = ref_parse(src, multiline='line')
        rb = ref_parse(src, multiline='carry')
        if ra[0] == 'unspec' or rb[0] == 'unspec' or ra[0] != rb[0]:
            return None
        if ra[0] == 'ok':
            if upper_names(ra[1]) != upper_names(rb[1]):
                return None
        else:
            ranges = [(ra[1], ra[2]), (rb[1], rb[2])]
        r = ra
    if r[0] == 'ok':
        if out[0] != 0:
            return 'well-formed source rejected (line %s): expected %d commands' % (out[2] if len(out) > 2 else '?', len(r[1]))
        if upper_names(out[1]) != upper_names(r[1]):
            if stream and upper_names(out[1]) == upper_names(rstrip_in_strings(r[1])):
                return ('F33-shape: parse_stream / parse_file strip the whitespace that stands directly before a line end '
                        'INSIDE a string literal that runs over the line end (line.rstrip() before strip_comment)')
            return 'parsed program differs from the program the source spells'
        return None
    _, lo, hi, kind, sw = r
    if ranges is None:
        ranges = [(lo, hi)]
    if out[0] == 0:
        return 'malformed source (%s, line %d) accepted without an error' % (kind, lo)
    if out[1] not in (1, 2, 3):
        return 'malformed source rejected, but not with a syntax error'
    if any(a <= out[2] <= b for a, b in ranges):
        return None
    return 'the syntax error names line %d, the offending token is on line %s' % (out[2], lo if lo == hi else '%d..%d' % (lo, hi))

# ---- well-formedness of (program, layout) for the round trip (mirror of wf_program / gaps_ok)
NAME_BAD = set('#"{}%')
def wf_name(s):
    return len(s) > 0 and all(not c.isspace() and c not in NAME_BAD for c in s) and in_domain_text(s)
def wf_tok(t, depth=0):
    k, v = t
    if k == 0: return len(str(abs(dec_big(v)))) <= 4000
    if k == 1:
        s = S(v)
        return '"' not in s and not any(c in '\n\r' or c in EXOTIC_BREAKS for c in s) and in_domain_text(s)
    if k == 2: return wf_name("'" + S(v))
    if k == 3: return wf_name(S(v)) and not S(v).startswith("'")
    return depth < 100 and all(wf_tok(x, depth + 1) for x in v)
def wf_program(prog):
    for name, groups in prog:
        n = ascii_upper(S(name))
        if n not in ARITY or len(groups) != ARITY[n] or not in_domain_text(S(name)):
            return False
        if not all(wf_tok(t) for g in groups for t in g):
            return False
    return True
LINE_BREAKS = set('\n\r') | EXOTIC_BREAKS
def gap_kind(g):
    """'ws' whitespace only (or empty), 'comment' whitespace and comments each closed by a line end (any of the
    str.splitlines boundaries), 'tail-comment' the last comment is not closed, None something else"""
    i, n, kind = 0, len(g), 'ws'
    while i < n:
        c = g[i]
        if c.isspace():
            i += 1
        elif c == '%':
            kind = 'comment'
            while i < n and g[i] not in LINE_BREAKS:
                i += 1
            if i == n:
                return 'tail-comment'
        else:
            return None
    return kind
def wf_layout(gaps, toks):
    gaps = [S(g) for g in gaps]
    if len(gaps) > len(toks) + 1:
        return False
    prev = None
    for i, t in enumerate(toks):
        g = gaps[i] if i < len(gaps) else ' '
        k = gap_kind(g)
        if k not in ('ws', 'comment'):
            return False
        if g == '' and prev is not None and t[0] not in '{}"' and prev[0] not in '{}"':
            return False
        prev = t
    if len(gaps) == len(toks) + 1 and gap_kind(gaps[-1]) is None:
        return False
    return True

def oracle(fn, arg, out):
    if fn == 1:
        line = S(arg[0])
        if out[0] != 0:
            return 'strip_comment raised'
        exp = ref_strip(line)
        if S(out[1]) != exp:
            return 'strip_comment(%r) = %r, the comment starts %s' % (line, S(out[1]), 'at %d' % len(exp) if exp != line else 'nowhere')
        return None
    if fn == 2:
        return judge(S(arg[0]), out)
    if fn == 4:
        return judge(S(arg[0]), out, stream=True)
    if fn == 9:
        # io.StringIO does not translate line ends: a bare CR is not a line end for the stream
        if 13 in arg[0]:
            return None if out != [2] else 'a foreign (non-pybtex) exception escaped the parser'
        return judge(S(arg[0]), out, stream=True)
    if fn == 3:
        lines = [S(l) for l in arg[0]]
        ok = all(l.endswith('\n') and not any(c in '\n\r' for c in l[:-1]) for l in lines[:-1]) and \
             (not lines or not any(c in '\n\r' for c in lines[-1].rstrip('\n')) and lines[-1].count('\n') <= 1)
        if not ok:
            return None if out != [2] else 'a foreign (non-pybtex) exception escaped the parser'
        return judge(''.join(lines), out, stream=True)
    if fn == 5:
        prog, gaps = arg
        src = py_print(gaps, prog)
        if S(out[0]) != src:
            return None
        res = out[1]
        if wf_program(prog) and wf_layout(gaps, flat_program(prog)):
            if res[0] != 0:
                return 'printing a program and parsing it back fails (line %s)' % (res[2] if len(res) > 2 else '?')
            if res[1] != prog:
                return 'printing a program and parsing it back is not the identity'
        return judge(src, res)
    return None

def _f33(kind, fn, arg, detail):
    """F33: only the stream / file entry points (fn 3, 4, 9), only an accepted program, and the only difference from the
    program the source spells is the loss of whitespace runs directly before a line feed inside string literals"""
    if kind != 'oracle' or fn not in (3, 4, 9) or not isinstance(detail, str) or not detail.startswith('F33-shape'):
        return False
    out = FUNCS[fn][1](arg)
    m = oracle(fn, arg, out)
    return bool(m) and m.startswith('F33-shape')
KNOWN_SIGNATURES = {'F33': _f33}

def replay_known(finding):
    pin = finding.get('pinned')
    if not pin:
        return None
    out = FUNCS[pin['fn']][1](pin['arg'])
    m = oracle(pin['fn'], pin['arg'], out)
    if m and m.startswith(finding['id'] + '-shape'):
        return 'still reproduces: %s' % m
    return None

# ------------------------------------------------------------------------------------------
RULE = ('exhaustive: every string up to the length bound over {a % " space} for strip_comment, over line-break characters for '
        'splitlines / the text handed to the scanner, over {a # 1 - " { } space LF CR} for the scanner trace; every concatenation '
        'of up to k lexical units from a pool of command names, braces, literals, separators, comments and broken tokens through '
        'parse_string; every program of one command x group contents of up to two pool tokens x uniform layouts through the '
        'print/parse round trip.  random: programs of 1-7 commands, nesting to depth 6, names made of operator characters, '
        'negative and huge integers, strings containing % # { }, random layouts (all 29 whitespace code points, CR / CRLF / LF '
        'line ends, comments containing quotes and braces).  malformed: every single-token corruption (delete, duplicate, '
        'replace, truncate, swap) of printed programs, raw noise.  The same sources through parse_stream (lists of lines, '
        'io.StringIO) and parse_file (real files, universal newlines).  distinct = distinct (function, argument); non-trivial = '
        'the model parses at least one command with a non-empty group or reports a syntax error.')
EXHAUSTIVE = {
    'quick': 'strip_comment: all strings over {a,%,",space} of length <= 7; scanner trace: all strings over 10 characters of length <= 4; '
             'parse_string: all concatenations of <= 4 units from a pool of 13; round trip: 10 commands x 73 group contents x 9 uniform layouts',
    'thorough': 'strip_comment: length <= 9; scanner trace: length <= 5; parse_string: <= 5 units from a pool of 13; round trip: 10 commands x 73 group contents x 9 uniform layouts',
}
TRUSTED_BASE = ['modelled (not verified) code: pybtex/bibtex/bst.py (all of it), pybtex/scanner.py Scanner.update_lineno / eat_whitespace / '
                'get_token / optional / required and the error classes; the literal classes of pybtex/bibtex/interpreter.py are compared by class and value',
                'the regular expressions STRING, INTEGER, NAME, WHITESPACE, quote_or_comment and str.splitlines / str.rstrip / str.upper are hand-written '
                'matchers, compared with the live objects through the scanner trace, on exhaustive small strings and per code point',
                'the Python mirror (harness/props/c15.py py_print) of the Coq printer Spec/BstPrint.v, compared on every round-trip case']
ASSUMPTIONS = ['letters and digits are ASCII (DESIGN.md 2.2): str.upper of a non-ASCII letter can produce a command name (dotless i, long s), '
               'and the regex \\d and int() accept non-ASCII digits; such characters are outside the claimed domain',
               'integer literals have at most 4300 digits (CPython refuses longer ones with a ValueError; the model says Crash there, the theorems assume the bound)',
               'function bodies nest at most 150 deep (the recursion of parse_group is unguarded; CPython raises RecursionError between 500 and 1000 levels)']
PARTIAL = ['finding F33 (known): parse_stream / parse_file rstrip() each line before strip_comment, so whitespace directly before a line end inside a string literal that runs over the line end is lost (the theorems entry_points_agree / file_roundtrip are about programs whose string literals stay on one line)',
           'parse_stream / parse_file agree with parse_string: proved on printed sources (entry_points_agree); on arbitrary sources correspondence (fn 3, 4, 9) and the oracle only',
           'a string literal that runs over a line end: the oracle demands the spelt program / the real line only where the two comment readings (quote parity per line, or carried over line ends) agree',
           'non-ASCII letters/digits, integer literals beyond 4300 digits and nesting beyond 150 levels are outside the claimed domain']

UNITS = ['READ', 'sort', 'EXECUTE', 'MACRO', 'foo', '{', '}', '#1', '"s"', "'q", ' ', '\n', '%c"\n']
UNITS_X = ['"', '#', '#-', 'Function', '\r\n', '\t', "a%b", '#-07', '""', 'x#2']

def describe(fn, a):
    try:
        if fn == 5:
            return {'program': show_prog(a[0]), 'layout': [S(g) for g in a[1]], 'source': py_print(a[1], a[0])}
        if fn == 3:
            return {'lines': [S(l) for l in a[0]]}
        return {'source' if fn != 1 else 'line': S(a[0])}
    except Exception:
        return {'arg': a}
def show_tok(t):
    k, v = t
    if k == 0: return 'Integer(%d)' % dec_big(v)
    if k == 4: return 'FunctionLiteral([%s])' % ', '.join(show_tok(x) for x in v)
    return '%s(%r)' % ({1: 'String', 2: 'QuotedVar', 3: 'Identifier'}[k], S(v))
def show_prog(p):
    return [[S(c[0])] + [[show_tok(t) for t in g] for g in c[1]] for c in p]

def nontrivial(fn, a, out):
    if fn in (2, 3, 4, 9):
        return out[0] == 1 or (out[0] == 0 and any(g for c in out[1] for g in c[1]))
    if fn == 5:
        r = out[1]
        return r[0] == 1 or (r[0] == 0 and any(g for c in r[1] for g in c[1]))
    if fn == 1:
        return out[0] == 0 and out[1] != a[0]
    if fn == 6:
        return len(out[0]) > 0
    return out[0] == 0 and len(out[1]) > 1

# ---- generators
NAMES = ['x', 'y.z$', ':=', '+', '-', '*', '=', '<', '>', 'a.b', 'if$', 'skip$', "it's", 'a@b', '\\foo', '[1]', '2x', '-5', 'n~', '$', 'e.g.,', 'a(b)', '&|!', '^_`']
STRS = ['', 'a', 'a\nb', 'two\n  lines', '\n', 'a%b', '100% sure', '{', '}', '#1', ' x ', "it's", '% not a comment', 'a{b}c', '\\"o', ', ', 'x\ty', '€ → °']
CMDS = list(ARITY)
WS = [' ', '\t', '\n', '\x0b', '\x0c', '\r', '\x1c', '\x1d', '\x1e', '\x1f', '\x85', '\xa0', ' ', ' ', ' ', ' ', ' ', ' ', ' ', ' ', '　']
COMMENTS = ['%', '% c', '%"', '% "quoted" {', '%}', '%%', '% ENTRY {', '%\t#x']

def rand_case(rng, s):
    return ''.join(c.upper() if rng.random() < 0.5 else c.lower() for c in s)
def rand_tok(rng, depth):
    r = rng.random()
    if r < 0.12 and depth > 0:
        return Fn([rand_tok(rng, depth - 1) for _ in range(rng.choice([0, 1, 1, 2, 3]))])
    if r < 0.3:
        return I(rng.choice([0, 1, -1, 7, -5, 10, 42, -100, 2 ** 31, -2 ** 63, 10 ** 20 + 7, rng.randint(-1000, 1000)]))
    if r < 0.5:
        return Str(rng.choice(STRS))
    if r < 0.62:
        return Q(rng.choice(NAMES + ['']))
    return Id(rng.choice(NAMES))
def rand_program(rng, maxcmd=7, depth=6):
    prog = []
    for _ in range(rng.randint(1, maxcmd)):
        c = rng.choice(CMDS)
        name = rng.choice([c, c, c.lower(), c.capitalize(), rand_case(rng, c)])
        prog.append(Cmd(name, *[[rand_tok(rng, depth) for _ in range(rng.choice([0, 1, 1, 2, 3, 5]))] for _ in range(ARITY[c])]))
    return prog
def rand_gap(rng, need, exotic=0.05):
    r = rng.random()
    if r < 0.45:
        g = rng.choice([' ', ' ', '\n', '\t', '  ', '\r\n', '\n  ', ' \n', '\r'])
    elif r < 0.6:
        g = ''.join(rng.choice(WS if rng.random() < exotic * 4 else ' \t\n') for _ in range(rng.randint(1, 3)))
    elif r < 0.8:
        g = rng.choice(['', ' ', '\t']) + rng.choice(COMMENTS) + rng.choice(['\n', '\n', '\r\n', '\r'] + (['\x0c', '\x85', '\u2028', '\x0b', '\x1c'] if rng.random() < exotic * 4 else [])) + rng.choice(['', '', ' ', '\n'])
    else:
        g = ''
    if g == '' and need:
        g = ' '
    return g
def need_gap(prev, t):
    return prev is not None and t[0] not in '{}"' and prev[0] not in '{}"'
def rand_layout(rng, toks, valid=True):
    gaps = []
    prev = None
    for t in toks:
        gaps.append(rand_gap(rng, need_gap(prev, t) if valid else False))
        prev = t
    r = rng.random()
    if r < 0.5:
        gaps.append(rng.choice(['\n', '', ' ', '\n\n', '% end', '% end\n', '\r\n', ' \n \n']))
    if valid:
        gaps[0] = rng.choice([gaps[0], '', '\n\n', '% header\n'])
    return gaps

def corruptions(rng, toks, gaps, k):
    """k single-token corruptions of the token list; returns sources"""
    out = []
    n = len(toks)
    for _ in range(k):
        ts = list(toks); gs = list(gaps) + [''] * (n + 1 - len(gaps))
        i = rng.randrange(n)
        op = rng.choice(['del', 'dup', 'rep', 'rep', 'trunc', 'swap', 'cmd'])
        if op == 'del':
            del ts[i]; del gs[i]
        elif op == 'dup':
            ts.insert(i, ts[i]); gs.insert(i, gs[i] or ' ')
        elif op == 'rep':
            ts[i] = rng.choice(['{', '}', 'x', '#', '"', '#x', '"abc', 'READ', 'EXECUTE', 'foo', '#-', '#12', '"s"', "'", '%', 'a%b"'])
        elif op == 'cmd':
            js = [j for j, t in enumerate(ts) if ascii_upper(t) in ARITY]
            j = rng.choice(js) if js else i
            ts[j] = rng.choice(CMDS + ['Entry', 'macro', 'STRING', 'FUNCTIONS'])
        elif op == 'trunc':
            if len(ts[i]) > 1:
                ts[i] = ts[i][:-1] if rng.random() < 0.7 else ts[i][1:]
            else:
                del ts[i]; del gs[i]
        elif op == 'swap' and i + 1 < n:
            ts[i], ts[i + 1] = ts[i + 1], ts[i]
        out.append(weave(gs, ts))
    return out

POOL_ITEMS = [Id('x'), Id(':='), Q('x'), I(-5), I(0), Str('a%b'), Str('{'), Fn([])]
def pool_groups():
    yield []
    for a in POOL_ITEMS:
        yield [a]
    for a in POOL_ITEMS:
        for b in POOL_ITEMS:
            yield [a, b]
UNIFORM = [' ', '\n', '\t', '\r\n', '', ' % c"%{\n', '\r', '\n\n ', '\xa0']

PINNED_SRC = [
    'FUNCTION {a}\nREAD',                       # F21 (fixed by 135237f)
    'ENTRY {a}\nINTEGERS {b}\n',                # F21
    'EXECUTE {"a\nb" c}\n#',                     # F29 (fixed by 6970deb)
    'EXECUTE {"a\n\n\nb" "c\nd"}\n\nfoo',         # F29
    'EXECUTE {"a\nb"}\n{',                       # F29
    'Integers{" \n"}', 'EXECUTE {"a \t\r\n b" "c\n \nd"}',     # F33 through parse_file / StringIO
    'EXECUTE {"a\nb"}', 'FUNCTION {f} {"x\n\ny" #1}\nREAD', 'EXECUTE {"a\nb"} % c\nREAD', 'EXECUTE {"a\nb%c"}', 'EXECUTE {"a\nb" c}\n\n#',   # string literals over line ends
    'ENTRY {a}{b}', 'ENTRY {a}{b}\n\n\n', 'read sort', 'foo', '\n\n{', 'EXECUTE {"a\nb" c}\n#',
    "EXECUTE {#-0 #007 'a ' a%b\n}", 'EXECUTE{x}%c', 'EXECUTE{x}%c\n', 'READ%', 'READ %"\nSORT',
    'FUNCTION {f}{ "100% sure" % real comment " { \n }', 'FUNCTION{f}{a#1}', 'FUNCTION{f}{a#b}', 'FUNCTION{f}{#1#2 #-3"s"t}',
    'MACRO {jan} {"January"}\r\nREAD\rSORT\r\n', 'EXECUTE {a\x0cb}', 'EXECUTE {a\x0c#}', 'EXECUTE\x85{a} #', 'EXECUTE {a} %x\x0c READ',
    'EXECUTE {#' + '1' * 4300 + '}', 'EXECUTE {#' + '1' * 4301 + '}', 'EXECUTE {#-' + '0' * 4301 + '}',
    'EXECUTE ' + '{' * 150 + '}' * 150, 'EXECUTE ' + '{' * 120 + '}' * 119, 'EXECUTE {"abc }', 'EXECUTE {"abc }\n READ "', 'execute {x} }', 'execute {x}} read',
    '', ' ', '\n', '%', 'READ', ' READ ', 'READ\n\n', 'Read SoRt', '{', '}', '"', '#', "'", 'READ {', 'READ }', 'SORT "x"', 'SORT #1',
    'ITERATE {\'}', 'ITERATE {\' \'\'}', 'STRINGS {#-}', 'STRINGS {#- 1}', 'STRINGS {-1}', 'STRINGS {# 1}', 'INTEGERS{a}STRINGS{b}', 'REVERSE{a}b',
]

def gen(tier, rng):
    q = tier == 'quick'
    yield ('pinned', 3, [['Integers{" \n', '"}']])                                    # F33
    yield ('pinned', 3, [['% header\n', 'Read\n', 'Integers{"two \n', '  lines"#42}\n']])   # F33
    for s in PINNED_SRC:
        yield ('pinned', 2, [s]); yield ('pinned', 9, [s]); yield ('pinned', 4, [s])
        yield ('pinned', 6, [s]); yield ('pinned', 8, [s])
    for f in ('plain.bst', 'apacite.bst', 'jurabib.bst', 'alpha.bst', 'unsrt.bst', 'IEEEtran.bst'):
        p = os.path.join(REPO, 'tests', 'data', f)
        if not os.path.exists(p):
            p = os.path.join('/repo', 'tests', 'data', f)
        if os.path.exists(p) and (not q or f in ('plain.bst',)):
            try:
                s = open(p, encoding='utf-8').read()
            except Exception:
                continue
            yield ('corpus', 2, [s]); yield ('corpus', 4, [s])
    # strip_comment
    for n in range(0, (7 if q else 9) + 1):
        for t in itertools.product('a%" ', repeat=n):
            yield ('exhaustive_strip', 1, [''.join(t)])
    # splitlines / text
    for n in range(0, (4 if q else 5) + 1):
        for t in itertools.product('a\n\r\x0b\x85 %"', repeat=n):
            s = ''.join(t)
            yield ('exhaustive_lines', 7, [s]); yield ('exhaustive_lines', 8, [s])
    for c in '\x0c\x1c\x1d\x1e\x1f  \t\xa0':
        for s in ('a' + c + 'b', c, 'a' + c, c + 'a', 'a\r' + c + '\n' + c):
            yield ('exhaustive_lines', 7, [s]); yield ('exhaustive_lines', 8, [s])
    # scanner trace
    for n in range(0, (4 if q else 5) + 1):
        for t in itertools.product('a#1-"{} \n\r', repeat=n):
            yield ('exhaustive_scan', 6, [''.join(t)])
    # unit concatenations through parse_string
    for n in range(0, (4 if q else 5) + 1):
        for t in itertools.product(UNITS, repeat=n):
            yield ('exhaustive_units', 2, [''.join(t)])
    for i in range(3000 if q else 60000):
        n = rng.randint(2, 9)
        yield ('random_units', 2, [''.join(rng.choice(UNITS + UNITS_X) for _ in range(n))])
    # exhaustive small programs x uniform layouts
    groups = list(pool_groups())
    for c in CMDS:
        for g in groups:
            prog = [Cmd(c if len(g) % 2 else c.lower(), *[g] * ARITY[c])]
            nt = len(flat_program(prog))
            for u in UNIFORM:
                yield ('exhaustive_programs', 5, [prog, [u] * (nt + 1)])
    # two-command programs: every ordered pair of commands, so that every arity meets every successor
    for c1 in CMDS:
        for c2 in CMDS:
            for g in ([], [Id('x')], [Fn([Str('%')])]):
                prog = [Cmd(c1, *[g] * ARITY[c1]), Cmd(c2.lower(), *[g] * ARITY[c2])]
                yield ('exhaustive_programs', 5, [prog, ['', ' ', '\n']])
                yield ('exhaustive_programs', 5, [prog, []])
    # random programs and layouts
    nprog = 2500 if q else 40000
    for i in range(nprog):
        prog = rand_program(rng)
        toks = flat_program(prog)
        valid = rng.random() < 0.85
        gaps = rand_layout(rng, toks, valid)
        yield ('random_programs', 5, [prog, gaps])
        src = weave(gaps, toks)
        r = i % 8
        if r == 0:
            yield ('entry_points', 4, [src])
        elif r == 1:
            yield ('entry_points', 9, [src])
        elif r == 2:
            yield ('entry_points', 3, [src.splitlines(True) if rng.random() < 0.5 else [l + rng.choice(['\n', '', ' \n']) for l in src.split('\n')]])
        if i % 2 == 0:
            for s in corruptions(rng, toks, gaps, 3):
                yield ('malformed', 2, [s])
                if r == 3:
                    yield ('malformed', 4, [s])
    # deep nesting, long tokens
    for d in ([10, 60] if q else [10, 60, 100, 140]):
        body = Id('x')
        for _ in range(d):
            body = Fn([body, I(d)])
        yield ('deep', 5, [[Cmd('FUNCTION', [Id('f')], [body])], []])
        yield ('deep', 2, ['FUNCTION {f} ' + '{' * d + '}' * (d - 1)])
    # raw noise
    for i in range(1500 if q else 30000):
        n = rng.randint(1, 30)
        yield ('noise', 2, [''.join(rng.choice('abER#1-"{}% \n\t\'$:=') for _ in range(n))])
    for i in range(300 if q else 5000):
        n = rng.randint(1, 12)
        yield ('noise', 6, [''.join(rng.choice('ab#19-"{}% \n\r\t\x0c\x85\xa0 ') for _ in range(n))])

# ------------------------------------------------------------------------------------------
def extra_checks(ck, tier, rng):
    """per code point: the character classes the hand-written matchers assume, against the live patterns"""
    from pybtex.bibtex.bst import BstParser, quote_or_comment
    from pybtex.scanner import Scanner
    model_ws = set(list(range(9, 14)) + list(range(28, 33)) + [133, 160, 5760] + list(range(8192, 8203)) + [8232, 8233, 8239, 8287, 12288])
    model_lb = set([10, 11, 12, 13, 28, 29, 30, 133, 8232, 8233])
    fails = []
    n = 0
    nonascii_digits = 0
    for cp in range(0x110000):
        if 0xD800 <= cp <= 0xDFFF:
            continue
        c = chr(cp); n += 1
        name = BstParser.NAME.match(c) is not None
        ws = Scanner.WHITESPACE.match(c) is not None
        m_name = not (cp in model_ws or c in '#"{}')
        lb = len(('a' + c + 'b').splitlines()) == 2
        dig = BstParser.INTEGER.match('#' + c) is not None
        if dig and cp >= 128:
            nonascii_digits += 1
        bad = []
        if name != m_name: bad.append('NAME regex=%s model=%s' % (name, m_name))
        if ws != (cp in model_ws): bad.append('WHITESPACE regex=%s model=%s' % (ws, cp in model_ws))
        if c.isspace() != (cp in model_ws): bad.append('isspace')
        if lb != (cp in model_lb): bad.append('splitlines boundary python=%s model=%s' % (lb, cp in model_lb))
        if cp < 128 and dig != ('0' <= c <= '9'): bad.append('INTEGER digit regex=%s' % dig)
        if (quote_or_comment.match(c) is not None) != (c in '%"'): bad.append('quote_or_comment')
        m = BstParser.STRING.match('"' + c + '"')
        if (m is not None and m.end() == 3) != (c != '"'): bad.append('STRING body')
        if (BstParser.LBRACE.match(c) is not None) != (c == '{') or (BstParser.RBRACE.match(c) is not None) != (c == '}'): bad.append('brace literal')
        if bad:
            fails.append(('U+%04X' % cp, '; '.join(bad), False))
    yield {'name': 'character_class_sweep', 'evaluations': n, 'failures': fails[:5],
           'info': 'NAME / WHITESPACE / INTEGER / STRING / brace literals / quote_or_comment / str.isspace / str.splitlines agree with the model classes on every code point; %d non-ASCII code points are digits for the INTEGER regex (outside the claimed domain)' % nonascii_digits}
    # the command table
    tbl = dict(BstParser.COMMANDS)
    f2 = []
    if tbl != ARITY:
        f2.append(('BstParser.COMMANDS', 'table differs from the ten BST commands and their arities: %r' % (tbl,), False))
    yield {'name': 'commands_table', 'evaluations': len(tbl), 'failures': f2, 'info': 'BstParser.COMMANDS equals the table of the model (ten commands, documented arities)'}
