# helpers of the C06 check: BST AST <-> .bst text (same wire format as the C03 check), databases <-> .bib / .yaml
# text, the synthetic probe styles, the shipped styles with observation probes, an independent reading of
# what an .aux file / a database / a citation list says (the oracle's side).
import io, os, re, shutil, tempfile, contextlib
from core import norm, S, REPO

class HarnessBug(Exception):
    pass

# ---- BST AST constructors (canonical nested lists: strings are code-point lists)
def I(z): return [0, z]
def Sx(s): return [1, norm(s)]
def Id(n): return [2, norm(n)]
def Q(n): return [3, norm(n)]
def F(*body): return [4, list(body)]
def cmd(name, *groups): return [norm(name), [list(g) for g in groups]]

def instr_text(i):
    t, v = i
    if t == 0: return '#%d' % v
    if t == 1: return '"%s"' % S(v)
    if t == 2: return S(v)
    if t == 3: return "'" + S(v)
    return '{ ' + ' '.join(instr_text(x) for x in v) + ' }'

def to_bst(cmds):
    lines = []
    for name, groups in cmds:
        lines.append(S(name) + ' ' + ' '.join('{ ' + ' '.join(instr_text(x) for x in g) + ' }' for g in groups))
    return '\n'.join(lines) + '\n'

def enc_instr(e):
    from pybtex.bibtex.interpreter import Integer, String, Identifier, QuotedVar, FunctionLiteral
    if isinstance(e, FunctionLiteral): return [4, [enc_instr(x) for x in e.body]]
    if isinstance(e, Integer): return [0, e.value()]
    if isinstance(e, String): return [1, norm(e.value())]
    if isinstance(e, Identifier): return [2, norm(e.value())]
    if isinstance(e, QuotedVar): return [3, norm(e.value())]
    raise HarnessBug('unknown parsed element %r' % (e,))

def enc_command(c):
    return [norm(c[0]), [[enc_instr(x) for x in g] for g in c[1:]]]

_BST_OK = {}
def check_bst_roundtrip(cmds, text):
    """the generated AST, printed, must parse back (with pybtex's own BstParser) to the AST the model gets"""
    if text in _BST_OK:
        return
    from pybtex.bibtex import bst
    parsed = norm([enc_command(c) for c in bst.parse_stream(io.StringIO(text))])
    if parsed != norm(cmds):
        raise HarnessBug('generated AST and parsed .bst differ: %r vs %r' % (cmds, parsed))
    _BST_OK[text] = True

# ---- synthetic styles.  Fields every synthetic style declares:
FIELDS = ['title', 'year', 'note', 'booktitle']

def _show(push):
    """push a value, write it ('?' when missing$), end the line"""
    return [push, Id('duplicate$'), Id('missing$'), F(Id('pop$'), Sx('?')), F(), Id('if$'), Id('write$'), Id('newline$')]

def _dump_body():
    body = [Sx('['), Id('cite$'), Id('*'), Sx(']'), Id('*'), Id('write$'), Id('newline$'),
            Id('type$'), Id('write$'), Id('newline$')]
    for f in FIELDS:
        body += _show(Id(f))
    body += _show(Id('crossref'))
    return body

def _entry():
    return cmd('ENTRY', [Id(f) for f in FIELDS], [Id('cnt')], [Id('lab')])

def synthetic_styles():
    """name -> command AST"""
    f = cmd('FUNCTION', [Id('f')], _dump_body())
    g = cmd('FUNCTION', [Id('g')], [Id('cite$'), Id('write$'), Id('newline$')])
    pre_title = cmd('FUNCTION', [Id('presort')], [Id('title'), Id('purify$'), Sx('l'), Id('change.case$'), Q('sort.key$'), Id(':=')])
    pre_year = cmd('FUNCTION', [Id('presort')], [Id('year'), Q('sort.key$'), Id(':=')])
    st = {}
    st['dump'] = [_entry(), f, cmd('READ'), cmd('ITERATE', [Id('f')])]
    st['bytitle'] = [_entry(), f, pre_title, cmd('READ'), cmd('ITERATE', [Id('presort')]), cmd('SORT'), cmd('ITERATE', [Id('f')])]
    st['byyear'] = [_entry(), g, pre_year, cmd('READ'), cmd('ITERATE', [Id('presort')]), cmd('SORT'), cmd('ITERATE', [Id('g')]),
                    cmd('REVERSE', [Id('g')])]
    st['rev'] = [_entry(), f, cmd('READ'), cmd('REVERSE', [Id('f')]), cmd('ITERATE', [Id('f')])]
    st['types'] = [_entry(),
                   cmd('FUNCTION', [Id('article')], [Sx('A:'), Id('cite$'), Id('*'), Id('write$'), Id('newline$')]),
                   cmd('FUNCTION', [Id('book')], [Sx('B:'), Id('cite$'), Id('*'), Sx(' '), Id('*'), Id('title'), Id('*'), Id('write$'), Id('newline$')]),
                   cmd('FUNCTION', [Id('default.type')], [Sx('D:'), Id('cite$'), Id('*'), Id('write$'), Id('newline$')]),
                   cmd('READ'), cmd('ITERATE', [Id('call.type$')])]
    st['count'] = [_entry(), cmd('INTEGERS', [Id('n')]),
                   cmd('FUNCTION', [Id('inc')], [Id('n'), I(1), Id('+'), Q('n'), Id(':='), Id('n'), Q('cnt'), Id(':=')]),
                   cmd('FUNCTION', [Id('show')], [Id('cite$'), Sx(' '), Id('*'), Id('cnt'), Id('int.to.str$'), Id('*'), Id('write$'), Id('newline$')]),
                   cmd('READ'), cmd('ITERATE', [Id('inc')]), cmd('ITERATE', [Id('inc')]), cmd('REVERSE', [Id('show')])]
    st['noread'] = [_entry(), cmd('FUNCTION', [Id('h')], [Sx('no database needed'), Id('write$'), Id('newline$')]), cmd('EXECUTE', [Id('h')])]
    st['early'] = [_entry(), g, cmd('ITERATE', [Id('g')]), cmd('READ')]
    st['sortnokey'] = [_entry(), g, cmd('READ'), cmd('SORT'), cmd('ITERATE', [Id('g')])]
    st['twosorts'] = [_entry(), g, pre_year,
                      cmd('FUNCTION', [Id('second')], [Id('type$'), Q('sort.key$'), Id(':=')]),
                      cmd('READ'), cmd('ITERATE', [Id('presort')]), cmd('SORT'), cmd('ITERATE', [Id('second')]), cmd('SORT'), cmd('ITERATE', [Id('g')])]
    return {k: norm(v) for k, v in st.items()}

# ---- databases: entries are [key, type, [[name, value] ...]] (code-point lists)
def bib_text(entries):
    out = []
    for key, typ, fields in entries:
        out.append('@%s{%s,\n' % (S(typ), S(key)) + ''.join('  %s = {%s},\n' % (S(n), S(v)) for n, v in fields) + '}\n')
    return '\n'.join(out)

def _yq(s):
    return '"' + s.replace('\\', '\\\\').replace('"', '\\"') + '"'

def yaml_text(entries):
    out = ['entries:']
    if not entries:
        return 'entries: {}\n'
    for key, typ, fields in entries:
        out.append('  %s:' % _yq(S(key)))
        out.append('    type: %s' % _yq(S(typ)))
        for n, v in fields:
            out.append('    %s: %s' % (_yq(S(n)), _yq(S(v))))
    return '\n'.join(out) + '\n'

SUFFIX = {0: '.bib', 1: '.yaml', 2: '.bibtexml'}
def db_text(fmt, entries):
    return bib_text(entries) if fmt == 0 else yaml_text(entries)

def parser_of(fmt):
    if fmt == 0:
        from pybtex.database.input.bibtex import Parser
    elif fmt == 1:
        from pybtex.database.input.bibyaml import Parser
    else:
        from pybtex.database.input.bibtexml import Parser
    return Parser

_DB_OK = {}
def check_db_roundtrip(fmt, entries, text):
    """the printed database must parse back (unfiltered, pybtex's own parser) to the entries the model gets;
    repeated keys are refused by the container, so only first occurrences (up to case) come back"""
    k = (fmt, text)
    if k in _DB_OK:
        return
    from pybtex import errors
    kw = {'person_fields': []} if fmt == 0 else {}
    with errors.capture():
        data = parser_of(fmt)(**kw).parse_stream(io.StringIO(text)) if fmt == 0 else parser_of(fmt)(**kw).parse_stream(io.BytesIO(text.encode('utf-8')))
    got = [[norm(key), norm(e.original_type), [[norm(n), norm(v)] for n, v in e.fields.items()]] for key, e in data.entries.items()]
    seen, want = set(), []
    for key, typ, fields in norm(entries):
        if S(key).lower() in seen:
            continue
        seen.add(S(key).lower())
        want.append([key, typ, fields])
    if got != want:
        raise HarnessBug('database text does not parse back to the generated entries (format %d): %r vs %r' % (fmt, got, want))
    _DB_OK[k] = True

# ---- scratch directories: one base directory per check run (made with tempfile.mkdtemp by the process that
#      generates the cases, removed by it at exit), one sub-directory per worker process, emptied after every case
_BASE = None
def base_dir():
    """called by the generator, i.e. by the process that will also run at exit"""
    global _BASE
    if _BASE is None or not os.path.isdir(_BASE):
        import atexit
        _BASE = tempfile.mkdtemp(prefix='c06_')
        owner, base = os.getpid(), _BASE
        atexit.register(lambda: os.getpid() == owner and shutil.rmtree(base, ignore_errors=True))
    return _BASE

@contextlib.contextmanager
def scratch():
    cwd = os.getcwd()
    own = _BASE is None or not os.path.isdir(_BASE)
    if own:        # no run-wide base (replay, ad-hoc use): a directory of its own for this case
        d = tempfile.mkdtemp(prefix='c06_')
    else:
        d = os.path.join(_BASE, 'w%d' % os.getpid())
        os.makedirs(d, exist_ok=True)
    os.chdir(d)
    try:
        yield d
    finally:
        os.chdir(cwd)
        if own:
            shutil.rmtree(d, ignore_errors=True)
        else:
            for nm in os.listdir(d):
                p = os.path.join(d, nm)
                if os.path.isdir(p) and not os.path.islink(p):
                    shutil.rmtree(p, ignore_errors=True)
                else:
                    os.unlink(p)

@contextlib.contextmanager
def captured_stdout():
    import pybtex.io
    out = io.StringIO()
    old = pybtex.io.stdout
    pybtex.io.stdout = out
    try:
        yield out
    finally:
        pybtex.io.stdout = old

# ---- the shipped styles, with two observation probes (top$ prints to pybtex.io.stdout, not to the .bbl):
#      right after READ:  the citations in the order the engine holds them
#      at the very end:   the citations in final order with their sort.key$
DATA = os.path.join(REPO, 'tests', 'data')
if not os.path.isdir(DATA):
    DATA = '/repo/tests/data'
STYLES_QUICK = ['plain', 'unsrt', 'alpha', 'unsrt_mixed']
STYLES_THOROUGH = STYLES_QUICK + ['IEEEtran', 'apacite', 'jurabib']
PROBE_A = ('\nFUNCTION {verif.pa} { "@A:" cite$ * top$ }\nITERATE {verif.pa}\n'
           'FUNCTION {verif.ps} { "@S:" cite$ * top$ "@K:" sort.key$ * top$ }\nFUNCTION {verif.mark} { "@M" top$ }\n')
PROBE_S = 'EXECUTE {verif.mark}\nITERATE {verif.ps}\nSORT'       # before every SORT: the order and the keys it will sort by
PROBE_B = '\nFUNCTION {verif.pb} { "@B:" cite$ * top$ "@K:" sort.key$ * top$ }\nITERATE {verif.pb}\n'
_READ_RE = re.compile(r'^READ[ \t]*$', re.M | re.I)
_SORT_RE = re.compile(r'^SORT[ \t]*$', re.M | re.I)

_STYLE_TEXT = {}
def style_source(name):
    """(probed text, number of SORT commands) of a shipped style"""
    if name not in _STYLE_TEXT:
        text = open(os.path.join(DATA, name + '.bst'), encoding='utf-8').read()
        if len(_READ_RE.findall(text)) != 1:
            raise HarnessBug('style %s: expected exactly one READ line' % name)
        nsort = len(_SORT_RE.findall(text))
        probed = _SORT_RE.sub(lambda m: PROBE_S, text)
        probed = _READ_RE.sub(lambda m: 'READ' + PROBE_A, probed) + PROBE_B
        _STYLE_TEXT[name] = (probed, nsort)
    return _STYLE_TEXT[name]

def parse_probes(printed):
    """-> (citations after READ, [[(citation, sort key)] just before each SORT], [(citation, sort key)] at the end)"""
    a, stages, b = [], [], []
    lines = printed.split('\n')
    i = 0
    while i < len(lines):
        ln = lines[i]
        if ln.startswith('@A:'):
            a.append(ln[3:])
        elif ln == '@M':
            stages.append([])
        elif ln.startswith('@B:') or ln.startswith('@S:'):
            k = lines[i + 1] if i + 1 < len(lines) else ''
            if not k.startswith('@K:'):
                raise HarnessBug('probe output garbled: %r' % (lines[i:i + 2],))
            (b if ln.startswith('@B:') else stages[-1]).append((ln[3:], k[3:])); i += 1
        i += 1
    return a, stages, b

def bibitems(bbl):
    """the keys of the \\bibitem commands of a .bbl, in order (optional [label] with balanced braces skipped)"""
    out = []
    pos = 0
    while True:
        i = bbl.find('\\bibitem', pos)
        if i < 0:
            return out
        j = i + len('\\bibitem')
        if j < len(bbl) and bbl[j].isalpha():      # another command that starts alike
            pos = j; continue
        while j < len(bbl) and bbl[j] in ' \n\t%':
            j += 1
        if j < len(bbl) and bbl[j] == '[':
            depth = 0; j += 1
            while j < len(bbl):
                c = bbl[j]
                if c == '{': depth += 1
                elif c == '}': depth -= 1
                elif c == ']' and depth <= 0: break
                j += 1
            j += 1
        while j < len(bbl) and bbl[j] in ' \n\t%':
            j += 1
        if j < len(bbl) and bbl[j] == '{':
            k = bbl.find('}', j)
            out.append(re.sub(r'^(%\n|\s)+', '', bbl[j + 1:k]).strip())      # apacite writes \bibitem[...]{%<newline>key}
            pos = k
        else:
            pos = j

# ---- the oracle's own reading of the inputs (independent of pybtex)
def aux_says(files, name, depth=0):
    """(style, data names, citations) an .aux file states, read the way the LaTeX/BibTeX documentation describes
    the four commands; None if unreadable"""
    style, data, cites = None, None, []
    def rd(nm, depth):
        nonlocal style, data
        lines = files.get(nm)
        if lines is None or depth > 8:
            raise KeyError(nm)
        for ln in lines:
            for cmdname in ('citation', 'bibdata', 'bibstyle', '@input'):
                pre = '\\' + cmdname + '{'
                if ln.startswith(pre) and '}' in ln[len(pre):]:
                    val = ln[len(pre):ln.rindex('}')]
                    if cmdname == 'citation':
                        cites.extend(val.split(','))
                    elif cmdname == 'bibdata':
                        if data is None: data = val.split(',')
                    elif cmdname == 'bibstyle':
                        if style is None: style = val
                    else:
                        rd(val, depth + 1)
                    break
    try:
        rd(name, 0)
    except KeyError:
        return None
    if style is None or data is None:
        return None
    return style, data, cites

def filtered_spec(entries, cites, m):
    """like resolved_spec, but reading the database the way BibTeX documents it: one pass in file order, an entry
    is kept when it is cited ('*' cites all) or cross-referenced by an entry kept BEFORE it"""
    wanted = set(c.lower() for c in cites)
    kept, seen = [], set()
    for key, typ, fields in entries:
        if (key.lower() in wanted or '*' in wanted) and key.lower() not in seen:
            seen.add(key.lower()); kept.append((key, typ, fields))
            cr = crossref_of(fields)
            if cr is not None:
                wanted.add(cr.lower())
    return resolved_spec(kept, cites, m)

def crossref_of(fields):
    for n, v in fields:
        if n.lower() == 'crossref':
            return v
    return None

def resolved_spec(entries, cites, m):
    """the resolved citations of (database, citation list), reading the database whole: explicit citations in
    first-citation order ('*' = every entry in file order), de-duplicated up to case, then the cross-referenced
    entries that are not cited, when the number of citing entries referring to them reaches max(m, 1); keys
    without an entry dropped.  entries: [(key, type, [(name, value)])] of str"""
    db = {}
    order = []
    for key, typ, fields in entries:
        if key.lower() not in db:
            db[key.lower()] = (key, crossref_of(fields))
            order.append(key)
    explicit, seen = [], set()
    for c in cites:
        for k in (order if c == '*' else [c]):
            if k.lower() not in seen:
                seen.add(k.lower()); explicit.append(k)
    t = max(m, 1)
    count, extra = {}, []
    for c in explicit:
        e = db.get(c.lower())
        if e is None or e[1] is None:
            continue
        p = db.get(e[1].lower())
        if p is None:
            continue
        pk = p[0].lower()
        count[pk] = count.get(pk, 0) + 1
        if count[pk] >= t and pk not in seen:
            seen.add(pk); extra.append(p[0])
    return [k for k in explicit + extra if k.lower() in db]

# ---- the syntactic predicate of theorem items_per_citation (Proofs/EnginesItems.v: emits / good_call), on a .bst AST
def style_item_predicate(name, types, depth=4):
    """-> (holds, detail).  The last ITERATE / REVERSE command is ITERATE {f} (only EXECUTE commands follow it); for every entry type in `types` f emits an item:
    f is a FUNCTION whose body emits, or f is call.type$ and the type's FUNCTION (default.type if there is none)
    emits; a body emits if at its top level it has  "\\bibitem..." write$  and later  cite$ write$,  or its first
    element calls a FUNCTION that emits (chains up to `depth`).  write$ / cite$ / call.type$ are not redeclared."""
    from pybtex.bibtex import bst
    from pybtex.bibtex.interpreter import String, Identifier, FunctionLiteral, QuotedVar, Integer
    cmds = list(bst.parse_file(os.path.join(DATA, name + '.bst')))
    funcs, declared = {}, set()
    for c in cmds:
        n = c[0].lower()
        if n == 'function':
            funcs[c[1][0].value().lower()] = list(c[2])
        elif n == 'entry':
            for g in c[1:]:
                declared.update(x.value().lower() for x in g)
        elif n in ('integers', 'strings'):
            declared.update(x.value().lower() for x in c[1])
    for b in ('write$', 'cite$', 'call.type$'):
        if b in funcs or b in declared:
            return False, '%s is redeclared' % b
    its = [i for i, c in enumerate(cmds) if c[0].lower() in ('iterate', 'reverse')]
    if not its or cmds[its[-1]][0].lower() != 'iterate':
        return False, 'no final ITERATE'
    after = [c[0].upper() for c in cmds[its[-1] + 1:]]
    if any(a not in ('EXECUTE', 'FUNCTION') for a in after):
        return False, 'commands after the final ITERATE: %s' % after
    last = cmds[its[-1]]
    f = last[1][0].value().lower()
    def is_id(x, n): return type(x) is Identifier and x.value().lower() == n
    def emits(body, d):
        for i in range(len(body) - 1):
            if type(body[i]) is String and body[i].value().startswith('\\bibitem') and is_id(body[i + 1], 'write$'):
                for j in range(i + 2, len(body) - 1):
                    if is_id(body[j], 'cite$') and is_id(body[j + 1], 'write$'):
                        return True
        if d > 0 and body and type(body[0]) is Identifier and body[0].value().lower() in funcs:
            return emits(funcs[body[0].value().lower()], d - 1)
        return False
    if f in funcs:
        return (True, 'ITERATE {%s}: the function emits' % f) if emits(funcs[f], depth) else (False, 'ITERATE {%s}: no item marker at the top level' % f)
    if f != 'call.type$':
        return False, 'ITERATE {%s}: not a FUNCTION' % f
    bad = []
    for t in types:
        if t in funcs:
            if not emits(funcs[t], depth): bad.append(t)
        elif t in declared:
            bad.append(t + ' (a variable)')
        elif 'default.type' not in funcs or not emits(funcs['default.type'], depth):
            bad.append(t + ' (default.type)')
    return (not bad, 'ITERATE {call.type$}: ' + ('every type function emits' if not bad else 'no item marker for types %s' % bad))
