# C06 -- BibTeX-engine output depends only on the cited entries and the style.
# Model: coq/Model/Engines.v (+ Model/Bst.v, Model/Citations.v); theorems: coq/Props/C06.v
#
# Functions tied (model vs implementation):
#   1  auxfile.parse_file over a set of .aux files
#   2  an engine call (make_bibliography via .aux / format_from_files / format_from_strings / format_from_file)
#      with a synthetic style the model can execute itself: .bbl bytes, returned string, number of reports
#   3  a SHIPPED style (tests/data/*.bst) end to end: the citations the engine holds after READ (observed by a
#      probe) against the model's READ; the oracle checks items / order / sort keys / entry-point equality
#   4  Interpreter.command_sort on a prepared interpreter
#   5  metamorphic pair (database, variant): does the output change?  model: do the two databases look the
#      same to the interpreter (then the output is the same: theorem run_frame)
#   6  posixpath.splitext(p)[0] (names the .bbl)
import io, itertools, os, posixpath, random, re
from core import *
from props import c06_util as U
from props.c06_util import I, Sx, Id, Q, F, cmd

ID = 'C06'
# core's order-independence replay re-runs a sample in one process: the shipped-style functions (3, 5: ~50 ms per case, always
# the same style files) are left to the history stream (7) and to the replay of the engine function (2: the random 'sched' styles
# have one name and path but varying contents)
ORDER_REPLAY_SKIP_FUNCS = (3, 5, 7)     # (7 runs every history in a fresh child anyway)
SYN = U.synthetic_styles()
SYN_NAMES = sorted(SYN)

# ----------------------------------------------------------------------------------------
# implementation side
def _no_kpsewhich():
    """pybtex.io falls back to the kpsewhich program for files it does not find; when that program is not installed
    (it is not, here) the attempt to spawn it fails and the file stays not found -- skip the (slow) spawn attempt"""
    import shutil, pybtex.io
    if shutil.which('kpsewhich') is None and getattr(pybtex.io.kpsewhich, '__name__', '') == 'kpsewhich':
        pybtex.io.kpsewhich = lambda filename: None
_no_kpsewhich()
def _write_files(files):
    """files: [[name, kind, content]] -> written names"""
    names = set()
    for name, kind, content in files:
        nm = S(name)
        if kind == 0:
            text = ''.join(S(l) + '\n' for l in content)
        elif kind == 1:
            text = U.to_bst(content)
            U.check_bst_roundtrip(content, text)
        elif kind == 2:
            text = U.db_text(content[0], content[1])
            U.check_db_roundtrip(content[0], content[1], text)
        else:
            text = S(content)
        with open(nm, 'w', encoding='utf-8', newline='') as f:
            f.write(text)
        names.add(nm)
    return names

def _opt(v, f=lambda x: x):
    return f(v[0]) if v else None

def impl_aux(arg):
    from pybtex import auxfile, errors
    files, name = arg
    with U.scratch():
        _write_files(files)
        def run():
            with errors.capture() as cap:
                ad = auxfile.parse_file(S(name))
                return [[ad.style] if ad.style is not None else [], [ad.data] if ad.data is not None else [], ad.citations, len(cap)]
        return call_impl(run)

def _engine_call(call, names):
    """-> (returned value, number of reports)"""
    from pybtex import errors
    import pybtex.bibtex as B
    mode = call[0]
    if mode == 4:
        return _main_run(call)
    with errors.capture() as cap:
        if mode == 0:
            ret = B.make_bibliography(S(call[1]), style=_opt(call[2], S), bib_format=_opt(call[3], U.parser_of), min_crossrefs=call[4])
        elif mode == 1:
            kw = {}
            if call[3]: kw['citations'] = [S(c) for c in call[3][0]]
            ret = B.format_from_files([S(n) for n in call[1]], style=S(call[2]), bib_format=_opt(call[4], U.parser_of),
                                      min_crossrefs=call[5], output_filename=_opt(call[6], S), add_output_suffix=bool(call[7]), **kw)
        elif mode == 2:
            kw = {}
            if call[3]: kw['citations'] = [S(c) for c in call[3][0]]
            texts = []
            for fmt, es in call[1]:
                texts.append(U.db_text(fmt, es))
            if len(texts) == 1:
                ret = B.format_from_string(texts[0], style=S(call[2]), bib_format=_opt(call[4], U.parser_of), min_crossrefs=call[5], **kw)
            else:
                ret = B.format_from_strings(texts, style=S(call[2]), bib_format=_opt(call[4], U.parser_of), min_crossrefs=call[5], **kw)
        else:
            kw = {}
            if call[3]: kw['citations'] = [S(c) for c in call[3][0]]
            ret = B.format_from_file(S(call[1]), style=S(call[2]), bib_format=_opt(call[4], U.parser_of), min_crossrefs=call[5], **kw)
        return ret, len(cap)

FORMAT_NAMES = {0: 'bibtex', 1: 'yaml', 2: 'bibtexml'}
def _main_run(call):
    """the command line, in process: pybtex.__main__.main with sys.argv = pybtex [-s STYLE] [-f FORMAT] [--min-crossrefs N] FILE
    (option spellings vary with the case).  -> (None, number of reports)"""
    import sys
    from pybtex import errors
    from pybtex.__main__ import main
    name, so, fo, mo = S(call[1]), call[2], call[3], call[4]
    v = (len(name) + sum(len(x) for x in so)) % 3
    argv = ['pybtex']
    if so:
        argv += [['-s', S(so[0])], ['--style', S(so[0])], ['--style=' + S(so[0])]][v]
    if fo:
        argv += [['-f', FORMAT_NAMES[fo[0]]], ['--bibliography-format=' + FORMAT_NAMES[fo[0]]], ['-f' + FORMAT_NAMES[fo[0]]]][v]
    if mo:
        argv += [['--min-crossrefs', str(mo[0])], ['--min-crossrefs=%d' % mo[0]], ['-min-crossrefs=%d' % mo[0]]][v]
    if v == 1:
        argv += ['--terse']
    argv += [name]
    old_argv, old_strict, old_code = sys.argv, errors.strict, errors.error_code
    sys.argv = argv
    try:
        with errors.capture() as cap:
            try:
                main.main()
            except SystemExit:
                pass
            return None, len(cap)
    finally:
        sys.argv = old_argv; errors.strict = old_strict; errors.error_code = old_code

def _as_api_call(call):
    """a command-line call as the make_bibliography call the documentation says it is ('.aux' appended unless it is there)"""
    if call[0] != 4:
        return call
    name = S(call[1])
    return [0, norm(name if posixpath.splitext(name)[1] == '.aux' else name + '.aux'), call[2], call[3], call[4][0] if call[4] else 2]

def _explicit_equivalent(files, call):
    call = _as_api_call(call)
    """for a make_bibliography call: what the equivalent explicit call returns (the oracle's own reading of the
    .aux file decides which call that is).  -> ['n/a'] | [0, text] | [1] | [2]"""
    from pybtex import errors
    import pybtex.bibtex as B
    from pybtex.exceptions import PybtexError
    auxfiles = {S(n): [S(l) for l in c] for n, k, c in files if k == 0}
    says = U.aux_says(auxfiles, S(call[1]))
    if says is None:
        return [9]
    style, data, cites = says
    if call[2]:
        style = S(call[2][0])
    fmt = call[3][0] if call[3] else 0
    try:
        with errors.capture():
            kw = {'bib_format': U.parser_of(fmt)} if call[3] else {}
            ret = B.format_from_files([d + U.SUFFIX[fmt] for d in data], style=style, citations=list(cites), min_crossrefs=call[4], **kw)
        return [0, norm(ret)]
    except PybtexError:
        return [1]
    except Exception:
        return [2]

def impl_engine(arg):
    files, call = arg
    if call[0] == 2:
        for fmt, es in call[1]:
            U.check_db_roundtrip(fmt, es, U.db_text(fmt, es))
    with U.scratch() as d:
        before = _write_files(files)
        def run():
            ret, nrep = _engine_call(call, before)
            written = []
            for nm in sorted(os.listdir('.')):
                if nm not in before:
                    written.append([nm, open(nm, encoding='utf-8', newline='').read()])
            return [written, [ret] if ret is not None else [], nrep]
        out = call_impl(run)
        if call[0] in (0, 4):
            for nm in os.listdir('.'):
                if nm not in before:
                    os.unlink(nm)
            out = out + [_explicit_equivalent(files, call)]
        return out

# ---- shipped styles
_STYLE_FILE = {}
def _style_path(d, name):
    """write the probed style into the scratch directory; returns its name without .bst"""
    text, _ = U.style_source(name)
    with open(os.path.join(d, 'verif_' + name + '.bst'), 'w', encoding='utf-8') as f:
        f.write(text)
    return 'verif_' + name

def _real_run(d, style, entries, cites, m, entry_point):
    """one run of a shipped (probed) style.  -> dict(bbl, after_read, final, reports) ; raises what pybtex raises"""
    from pybtex import errors
    import pybtex.bibtex as B
    text = U.bib_text(entries)
    sty = _style_path(d, style)
    with U.captured_stdout() as out, errors.capture() as cap:
        if entry_point == 0:
            with open('db.bib', 'w', encoding='utf-8') as f:
                f.write(text)
            with open('doc.aux', 'w', encoding='utf-8') as f:
                f.write('\\relax\n' + ''.join('\\citation{%s}\n' % S(c) for c in cites) + '\\bibstyle{%s}\n\\bibdata{db}\n' % sty)
            B.make_bibliography('doc.aux', min_crossrefs=m)
            bbl = open('doc.bbl', encoding='utf-8', newline='').read()
            os.unlink('doc.bbl')
        elif entry_point == 1:
            bbl = B.format_from_string(text, style=sty, citations=[S(c) for c in cites], min_crossrefs=m)
        else:
            with open('db.bib', 'w', encoding='utf-8') as f:
                f.write(text)
            bbl = B.format_from_files(['db.bib'], style=sty, citations=[S(c) for c in cites], min_crossrefs=m)
    a, stages, b = U.parse_probes(out.getvalue())
    return {'bbl': bbl, 'after_read': a, 'stages': stages, 'final': b, 'reports': sorted(str(e) for e in cap)}

def impl_real(arg):
    entries, cites, m, style, entry_point = arg
    style = S(style)
    U.style_source(style)
    U.check_db_roundtrip(0, entries, U.bib_text(entries))
    with U.scratch() as d:
        def run():
            r = _real_run(d, style, entries, cites, m, entry_point)
            other = _real_run(d, style, entries, cites, m, 1 if entry_point != 1 else 2)
            return [r['after_read'], [[k, s] for k, s in r['final']], U.bibitems(r['bbl']), int(r['bbl'] == other['bbl']), len(r['reports']),
                    [[[k, s] for k, s in g] for g in r['stages']]]
        return call_impl(run)

def impl_sort(arg):
    from pybtex.bibtex.interpreter import Interpreter
    def run():
        it = Interpreter(None, None)
        it.citations = [S(c) for c, _ in arg]
        for c, k in arg:
            if k:
                it.entry_vars[S(c)]['sort.key$'] = S(k[0])
        it.command_sort()
        return it.citations
    return call_impl(run)

def _style_run(d, style, entries, cites, m):
    from pybtex import errors
    import pybtex.bibtex as B
    style = S(style)
    if style in SYN:
        with open('syn_' + style + '.bst', 'w') as f:
            f.write(U.to_bst(SYN[style]))
        sty = 'syn_' + style
    else:
        sty = _style_path(d, style)
    text = U.bib_text(entries)
    with U.captured_stdout(), errors.capture() as cap:
        bbl = B.format_from_string(text, style=sty, citations=[S(c) for c in cites], min_crossrefs=m)
    return bbl, sorted(str(e) for e in cap)

def impl_pair(arg):
    e1, e2, cites, m, style, kind = arg
    U.check_db_roundtrip(0, e1, U.bib_text(e1)); U.check_db_roundtrip(0, e2, U.bib_text(e2))
    if S(style) not in SYN:
        U.style_source(S(style))
    with U.scratch() as d:
        def run():
            b1, r1 = _style_run(d, style, e1, cites, m)
            b2, r2 = _style_run(d, style, e2, cites, m)
            diff = []
            if b1 != b2:
                l1, l2 = b1.split('\n'), b2.split('\n')
                for i in range(max(len(l1), len(l2))):
                    x = l1[i] if i < len(l1) else None; y = l2[i] if i < len(l2) else None
                    if x != y:
                        diff = [norm(repr(x)), norm(repr(y))]; break
            return [int(b1 == b2 and r1 == r2), int(b1 == b2), diff]
        return call_impl(run)

def impl_history(arg):
    """2-3 engine calls in ONE process.  Every run has its own set of files; place 0: a directory of its own
    (the same relative names mean different files), place 1: one shared directory, emptied and rewritten
    before the run (the same paths get new contents).  -> the list of the runs' results"""
    # in a freshly forked child, so that the history is all the process has done with these style names: a replay of
    # the recorded history reproduces what the check saw
    import json as _json
    for call in (r[1] for r in arg):
        if call[0] == 2:
            for fmt, es in call[1]:
                U.check_db_roundtrip(fmt, es, U.db_text(fmt, es))
    rfd, wfd = os.pipe()
    pid = os.fork()
    if pid == 0:
        try:
            os.close(rfd)
            try:
                res = _history_runs(arg)
            except BaseException as e:
                res = ['HARNESS', repr(e)]
            with os.fdopen(wfd, 'w') as w:
                w.write(_json.dumps(res))
        finally:
            os._exit(0)
    os.close(wfd)
    with os.fdopen(rfd) as r:
        data = r.read()
    os.waitpid(pid, 0)
    res = _json.loads(data) if data else ['HARNESS', 'the child running the history died']
    if res and res[0] == 'HARNESS':
        raise U.HarnessBug(res[1])
    return res

def _history_runs(arg):
    outs = []
    with U.scratch() as d:
        os.mkdir('shared')
        for i, (files, call, place) in enumerate(arg):
            sub = os.path.join(d, 'shared' if place else 'run%d' % i)
            if place:
                for nm in os.listdir(sub):
                    os.unlink(os.path.join(sub, nm))
            else:
                os.mkdir(sub)
            os.chdir(sub)
            before = _write_files(files)
            def run():
                ret, nrep = _engine_call(call, before)
                written = []
                for nm in sorted(os.listdir('.')):
                    if nm not in before:
                        written.append([nm, open(nm, encoding='utf-8', newline='').read()])
                return [written, [ret] if ret is not None else [], nrep]
            outs.append(call_impl(run))
            os.chdir(d)
    return outs

def impl_splitext(arg):
    return norm(posixpath.splitext(S(arg))[0])

E = ('T', 'S', 'S', ('L', ('T', 'S', 'S')))         # an entry
FUNCS = {
    1: ('auxfile.parse_file', impl_aux, ('T', ('L', ('T', 'S', 'X', 'X')), 'S')),
    2: ('BibTeXEngine.make_bibliography / format_from_files / format_from_string(s) / format_from_file (synthetic style)', impl_engine, ('T', 'X', 'X')),
    3: ('shipped style end to end (citations after READ, items, sort keys, entry points)', impl_real, ('T', ('L', E), ('L', 'S'), 'N', 'X', 'X')),
    4: ('Interpreter.command_sort', impl_sort, ('L', ('T', 'S', ('O', 'S')))),
    5: ('metamorphic pair: database vs variant, same citations and style', impl_pair, ('T', 'X', 'X', ('L', 'S'), 'N', 'X', 'X')),      # the two databases stay a pair under shrinking
    6: ('posixpath.splitext', impl_splitext, 'S'),
    7: ('history of engine calls in one process (same style name, different style files)', impl_history, ('L', ('T', 'X', 'X', 'X'))),
}

def model_arg(fn, arg):
    if fn == 7:
        return [[r[0], r[1]] for r in arg]
    if fn == 3:
        return arg[:3]
    if fn == 5:
        return arg[:4]
    return arg

def canon(fn, out):
    if fn == 7:
        return [canon_res(o) if not (isinstance(o, list) and o and o[0] == 2) else [2] for o in out]
    out = canon_res(out)
    if fn == 2 and isinstance(out, list) and out and out[0] == 0 and len(out) == 3:
        return out[:2]                     # the explicit-equivalent run is for the oracle
    if fn == 2 and isinstance(out, list) and out and out[0] in (1, 2):
        return out[:1]
    if fn == 3:
        if out and out[0] == 0:
            return [0, out[1][0]]            # the citations after READ
        if len(out) == 2 and isinstance(out[0], list):
            return [0, out[0]]               # model: (citations, reports)
    if fn == 5:
        if isinstance(out, list) and out and out[0] == 0:
            return [0, out[1][0]]
        if isinstance(out, int):
            return [0, out]                  # model: the flag
    return out

# ----------------------------------------------------------------------------------------
# the property itself, on the implementation's outputs
def _sorting(style):
    return U.style_source(style)[1]

def _f13_shape(entries, cites):
    """an entry that is cross-referenced but not explicitly cited stands, in file order, before an entry referring to it"""
    cited = set(S(c).lower() for c in cites)
    keys = [S(e[0]).lower() for e in entries]
    for j, e in enumerate(entries):
        cr = U.crossref_of([(S(n), S(v)) for n, v in e[2]])
        if cr is None:
            continue
        for i in range(j):
            if keys[i] == cr.lower() and keys[i] not in cited:
                return True
    return False

def _in_domain(entries):
    """the oracle speaks about databases of the generated kind: known entry types, non-empty alphanumeric keys"""
    for k, t, f in entries:
        if S(t) not in TYPES + RTYPES or not S(k) or not S(k).isalnum():
            return False
    return True

def _fn2_view(arg):
    """what an engine call of function 2 is about, read independently of pybtex: (style, entries, citations, min_crossrefs)
    with entries / citations as str; None if the call does not determine them (missing files ...)"""
    files, call = arg
    call = _as_api_call(call)
    byname = {S(n): (k, c) for n, k, c in files}
    mode = call[0]
    if mode == 0:
        says = U.aux_says({n: [S(l) for l in c] for n, (k, c) in byname.items() if k == 0}, S(call[1]))
        if says is None:
            return None
        style, data, cites = says
        if call[2]: style = S(call[2][0])
        fmt = call[3][0] if call[3] else 0
        srcs = [d + U.SUFFIX[fmt] for d in data]; m = call[4]
    else:
        style = S(call[2]); cites = [S(c) for c in call[3][0]] if call[3] else ['*']; m = call[5]
        fmt = call[4][0] if call[4] else 0
        srcs = [S(n) for n in call[1]] if mode == 1 else ([S(call[1])] if mode == 3 else None)
    entries = []
    if srcs is None:
        parts = call[1]
    else:
        parts = []
        for n in srcs:
            if n not in byname or byname[n][0] != 2:
                return None
            parts.append(byname[n][1])
    for f, es in parts:
        if f != fmt:
            return None
        entries += [(S(k), S(t), [(S(a), S(b)) for a, b in fl]) for k, t, fl in es]
    if style + '.bst' not in byname:
        return None
    return style, entries, cites, m

def _fn2_items(arg, out):
    """the '[key]' header lines of the dump-like synthetic styles"""
    call = _as_api_call(arg[1])
    if out[0] != 0:
        return None
    written, ret = out[1][0], out[1][1]
    text = S(ret[0]) if ret else (S(written[0][1]) if written else None)
    if text is None:
        return None
    return [l[1:-1] for l in text.split('\n') if l.startswith('[') and l.endswith(']')]

def oracle(fn, arg, out):
    if fn == 7:
        for i, (run, o) in enumerate(zip(arg, out)):
            msg = oracle(2, [run[0], run[1]], list(o) + [[9]])
            if msg:
                return 'run %d of %d in one process (%s): %s' % (i + 1, len(arg), ['own directory', 'same paths rewritten'][run[2]], msg)
        return None
    if fn == 2:
        v = _fn2_view(arg)
        prog = next((c for n, k, c in arg[0] if k == 1 and v is not None and S(n) == v[0] + '.bst'), None)
        kind_ = next((k for k in ('dump', 'rev', 'bytitle') if prog is not None and SYN[k] == prog), None)    # what the style FILE says, whatever its name
        if v is not None and kind_ is not None and out[0] == 0:
            style, entries, cites, m = v
            style = kind_
            items = _fn2_items(arg, out)
            low = lambda l: [x.lower() for x in l]
            want = low(U.resolved_spec(entries, cites, m))
            exp = {'dump': want, 'rev': want[::-1] + want, 'bytitle': None}[style]
            bad = (sorted(low(items)) != sorted(want)) if exp is None else (low(items) != exp)
            if bad:
                fw = low(U.filtered_spec(entries, cites, m))
                fexp = {'dump': fw, 'rev': fw[::-1] + fw, 'bytitle': None}[style]
                ok13 = (sorted(low(items)) == sorted(fw)) if fexp is None else (low(items) == fexp)
                return (PBC if ok13 else '') + 'style %s: items %r are not one per resolved citation, in order: %r' % (style, items, want if exp is None else exp)
    if fn in (3, 5) and not (_in_domain(arg[0]) and (fn == 3 or _in_domain(arg[1]))):
        return None
    if fn == 2:
        files, call = arg
        call = _as_api_call(call)
        if call[0] != 0 or len(out) < 2:
            return None
        eq = out[-1]
        if eq == [9]:
            return None                      # the .aux file does not state style / data: no equivalent explicit call
        if out[0] == 0:
            written, ret = out[1][0], out[1][1]
            want = posixpath.splitext(S(call[1]))[0] + '.bbl'
            got = [w for w in written if S(w[0]) == want]
            if not got:
                return 'make_bibliography did not write %s (wrote %r)' % (want, [S(w[0]) for w in written])
            if eq[0] != 0:
                return 'make_bibliography succeeded but the equivalent explicit call (style/format as requested, citations and database of the .aux file) failed'
            if got[0][1] != eq[1]:
                return 'the .bbl written through the .aux file differs from what the equivalent explicit call returns (explicit style %s, format %s): %r vs %r' % (
                    [S(x) for x in call[2]], call[3], S(got[0][1])[:200], S(eq[1])[:200])
        else:
            if eq[0] == 0:
                return 'make_bibliography failed although the equivalent explicit call succeeds'
        return None
    if fn == 3:
        if out[0] != 0:
            return 'the engine raised on a well-formed database / citation list'
        entries, cites, m, style, ep = arg
        style = S(style)
        after_read, final, items, same_bbl, nrep, stages = out[1]
        after_read = [S(x) for x in after_read]; items = [S(x) for x in items]
        final = [(S(k), S(s)) for k, s in final]
        stages = [[(S(k), S(s)) for k, s in g] for g in stages]
        pe = [(S(k), S(t), [(S(n), S(v)) for n, v in f]) for k, t, f in entries]
        # a citation is identified up to letter case (which spelling the item carries is C05's subject)
        low = lambda l: [x.lower() for x in l]
        want = low(U.resolved_spec(pe, [S(c) for c in cites], m))
        litems = low(items)
        if sorted(litems) != sorted(want) or len(set(litems)) != len(litems):
            tag = PBC if sorted(litems) == sorted(low(U.filtered_spec(pe, [S(c) for c in cites], m))) else ''
            return tag + 'bibliography items %r are not one per resolved citation %r' % (items, want)
        if [k for k, _ in final] != items:
            return 'items %r are not in the final citation order %r' % (items, [k for k, _ in final])
        # every SORT of the style: the order just before it, stably sorted by the keys it sees, is the order the next
        # probe observes (for a style with one SORT: sort-key order with ties in citation order)
        cur = want
        if len(stages) != _sorting(style):
            return 'the style has %d SORT commands, the probes saw %d' % (_sorting(style), len(stages))
        for n, g in enumerate(stages):
            if low([k for k, _ in g]) != cur:
                return 'before SORT %d the citations are %r, expected %r (only READ and SORT may change the order)' % (n + 1, [k for k, _ in g], cur)
            kd = dict((k.lower(), sk) for k, sk in g)
            cur = sorted(cur, key=lambda k: kd[k])
        if litems != cur:
            if _sorting(style):
                return 'sorting style: items %r, expected sort-key order with ties in the previous order %r (keys %r)' % (items, cur, stages[-1])
            return 'non-sorting style: items %r not in citation order %r' % (items, cur)
        if not same_bbl:
            return 'the two entry points (via .aux / explicit call) produced different bytes'
        return None
    if fn == 4:
        if any(not k for _, k in arg):
            return None
        if out[0] != 0:
            return 'SORT raised although every citation has a sort key'
        exp = sorted([S(c) for c, _ in arg], key=lambda c: dict((S(c2), S(k[0])) for c2, k in arg)[c])
        # duplicates of one citation share one key, so sorting the names by it is well defined and stable
        if [S(c) for c in out[1]] != exp:
            return 'SORT result %r is not the stable sort-key order %r' % ([S(c) for c in out[1]], exp)
        return None
    if fn == 5:
        if out[0] != 0:
            return None
        e1, e2, cites, m, style, kind = arg
        if not out[1][1]:
            what = {0: 'adding/removing uncited entries', 1: 're-ordering the database file'}.get(kind, 'a variant')
            return '%s changed the output (style %s): first differing line %s / %s' % (what, S(style), S(out[1][2][0]) if out[1][2] else '', S(out[1][2][1]) if out[1][2] else '')
        return None
    return None

PBC = '[parent-before-child] '
def _is_f13(kind, fn, arg, detail):
    """F13: an entry that is cross-referenced but not cited stands before an entry referring to it, and the failure
    is the one that explains: (3) the items are exactly those of BibTeX's one-pass reading, (5) only the file order differs"""
    if kind == 'mismatch':
        # the model says the two file orders do not look the same to READ (F13: one of them drops a cross-referenced
        # entry) while this style happens not to show the difference: the known finding without a visible effect.
        # (the other direction -- same READ, different output -- is never excused)
        try:
            mo, io = detail
            return (fn == 5 and arg[5] == 1 and mo == 0 and io[0] == 0 and io[1][0] == 1 and sorted(arg[0]) == sorted(arg[1])
                    and [42] not in arg[2] and (_f13_shape(arg[0], arg[2]) or _f13_shape(arg[1], arg[2])))
        except Exception:
            return False
    if kind != 'oracle':
        return False
    if fn == 7:       # a run of a history: the signature of that run
        mm = re.match(r'run (\d+) of \d+ in one process \([^)]*\): (.*)$', str(detail), re.S)
        if not mm or int(mm.group(1)) > len(arg):
            return False
        run = arg[int(mm.group(1)) - 1]
        return _is_f13('oracle', 2, [run[0], run[1]], mm.group(2))
    if fn == 2:
        v = _fn2_view(arg)
        return (v is not None and str(detail).startswith(PBC)
                and _f13_shape([[norm(k), norm(t), [[norm(a), norm(b)] for a, b in f]] for k, t, f in v[1]], [norm(c) for c in v[2]]))
    if fn == 3:
        return _f13_shape(arg[0], arg[1]) and str(detail).startswith(PBC)
    if fn == 5:
        return (arg[5] == 1 and sorted(arg[0]) == sorted(arg[1]) and [42] not in arg[2]
                and (_f13_shape(arg[0], arg[2]) or _f13_shape(arg[1], arg[2])))
    return False
KNOWN_SIGNATURES = {'F13': _is_f13}

def replay_known(finding):
    p = finding.get('pinned')
    if not p:
        return None
    out = FUNCS[p['fn']][1](norm(p['arg']))
    return oracle(p['fn'], norm(p['arg']), out)

# ----------------------------------------------------------------------------------------
# generators
KEYS = ['a', 'b', 'c', 'p', 'q', 'A', 'P', 'x1']
VALS = ['T', 'alpha beta', 'Zed', 'the 1st: one, two', '1999', '2001', 'x' * 30 + ' ' + 'y' * 40 + ' ' + 'z' * 30]
TYPES = ['article', 'book', 'misc', 'Article', 'inbook']

def rand_entry(rng, key, fieldnames=('title', 'year', 'note', 'booktitle'), xref_pool=KEYS, p_xref=0.35):
    fields = []
    for n in fieldnames:
        if rng.random() < 0.55:
            nm = n if rng.random() < 0.85 else n.upper()
            fields.append([nm, rng.choice(VALS)])
    if rng.random() < p_xref:
        target = rng.choice(xref_pool + (['zz', '*'] if rng.random() < 0.08 else []))
        fields.insert(rng.randint(0, len(fields)), [rng.choice(['crossref', 'crossref', 'Crossref']), target])
    return [key, rng.choice(TYPES), fields]

def rand_db(rng, nmax=6, dups=True, **kw):
    n = rng.randint(0, nmax)
    keys = []
    for _ in range(n):
        k = rng.choice(KEYS)
        if not dups and k.lower() in [x.lower() for x in keys]:
            continue
        keys.append(k)
    return [rand_entry(rng, k, **kw) for k in keys]

def rand_cites(rng, star=True):
    r = rng.random()
    if star and r < 0.12:
        return ['*']
    n = rng.randint(0, 6)
    pool = KEYS + ['zz'] + (['*'] if star else [])
    return [rng.choice(pool) for _ in range(n)]

def aux_lines(cites, style, data, rng=None):
    lines = ['\\relax']
    if rng is None:
        lines += ['\\citation{%s}' % c for c in cites]
    else:
        i = 0
        while i < len(cites):
            k = rng.randint(1, 3)
            lines.append('\\citation{%s}' % ','.join(cites[i:i + k])); i += k
        if rng.random() < 0.3:
            lines.insert(rng.randint(0, len(lines)), '% a comment \\citation{no}')
    lines.append('\\bibstyle{%s}' % style)
    lines.append('\\bibdata{%s}' % ','.join(data))
    return lines

def nest_aux(rng, lines, depth=2, tag='ch'):
    """move a run of \\citation lines from the middle of an .aux file into an \\@input'ed file (and, one level down, again);
    citation lines stay before and after the \\@input, so reading the inputs in place matters.  -> (lines, extra files)"""
    idx = [i for i, l in enumerate(lines) if l.startswith('\\citation{')]
    if len(idx) < 3 or depth == 0:
        return lines, []
    a = rng.randint(1, len(idx) - 2); b = rng.randint(a, len(idx) - 2)
    lo, hi = idx[a], idx[b]
    name = '%s%d.aux' % (tag, depth)
    inner, extra = nest_aux(rng, ['\\relax'] + lines[lo:hi + 1] + (['\\citation{%s}' % rng.choice(KEYS)] if rng.random() < 0.5 else []), depth - 1, tag)
    return lines[:lo] + ['\\@input{%s}' % name] + lines[hi + 1:], [[name, 0, inner]] + extra

def bst_file(name):
    return [name + '.bst', 1, SYN[name]]

AUX_TOKENS = ['\\citation{', '\\bibdata{', '\\bibstyle{', '\\@input{', 'a', 'B', ',', '}', '{', ' ', '\\']

def gen_aux(tier, rng):
    maxlen = 3 if tier == 'quick' else 4
    for n in range(0, maxlen + 1):
        for toks in itertools.product(AUX_TOKENS, repeat=n):
            line = ''.join(toks)
            yield ('aux_exhaustive', 1, [[['t.aux', 0, [line]], ['a', 0, ['\\citation{in}']]], 't.aux'])
            if n <= maxlen - 1 or tier != 'quick':
                yield ('aux_exhaustive', 1, [[['t.aux', 0, ['\\citation{a,B}', line, '\\bibstyle{s}', '\\bibdata{d}', line]], ['a', 0, ['\\bibdata{other}', '\\citation{b}']]], 't.aux'])
    frag = ['\\citation{a}', '\\citation{A}', '\\citation{a,b,,B}', '\\citation{}', '\\bibstyle{s1}', '\\bibstyle{s2}', '\\bibdata{d1}', '\\bibdata{d1,d2}',
            '\\@input{sub.aux}', '\\@input{nope.aux}', '\\@input{sub2.aux}', ' \\citation{x}', '\\citation{x}}', '\\citation {x}', '\\bibcite{a}{1}', '', '\\citation{a}{b}\\bibstyle{q}',
            '\\citation{c\u00e9}', '\\Citation{x}', '\\citation{x', '\\bibdata{}', '\\bibstyle{}']
    for i in range(1500 if tier == 'quick' else 10000):
        top = [rng.choice(frag) for _ in range(rng.randint(0, 7))]
        sub = [rng.choice(frag[:8] + ['\\@input{sub2.aux}']) for _ in range(rng.randint(0, 4))]
        sub2 = [rng.choice(frag[:8]) for _ in range(rng.randint(0, 3))]
        files = [['top.aux', 0, top], ['sub.aux', 0, sub], ['sub2.aux', 0, sub2]]
        yield ('aux_random', 1, [files, rng.choice(['top.aux', 'top.aux', 'top.aux', 'sub.aux', 'missing.aux'])])

def split_db(rng, db):
    if len(db) >= 3 and rng.random() < 0.2:
        i, j = sorted(rng.sample(range(1, len(db)), 2))
        return [db[:i], db[i:j], db[j:]]
    if len(db) >= 2 and rng.random() < 0.4:
        k = rng.randint(1, len(db) - 1)
        return [db[:k], db[k:]]
    return [db]

DBNAMES = ['zeta', 'mid', 'alpha', 'beta', 'db0', 'B2']
def db_names(rng, n):
    """n distinct database names, in an order that is (mostly) not the alphabetical one"""
    return rng.sample(DBNAMES, n)
def data_list(rng, names):
    """the \\bibdata list: the names in order, now and then one of them twice"""
    d = list(names)
    if rng.random() < 0.15:
        d.insert(rng.randint(0, len(d)), rng.choice(names))
    return d

def sched_style(rng):
    """a random schedule of ITERATE / REVERSE / SORT commands over a fixed set of functions"""
    g = cmd('FUNCTION', [Id('g')], [Id('cite$'), Id('write$'), Id('newline$')])
    inc = cmd('FUNCTION', [Id('inc')], [Id('n'), I(1), Id('+'), Q('n'), Id(':='), Id('n'), Q('cnt'), Id(':=')])
    show = cmd('FUNCTION', [Id('show')], [Id('cite$'), Sx(' '), Id('*'), Id('cnt'), Id('int.to.str$'), Id('*'), Sx(' '), Id('*'), Id('sort.key$'), Id('*'), Id('write$'), Id('newline$')])
    pres = [cmd('FUNCTION', [Id('pt')], [Id('title'), Id('purify$'), Sx('l'), Id('change.case$'), Q('sort.key$'), Id(':=')]),
            cmd('FUNCTION', [Id('py')], [Id('year'), Q('sort.key$'), Id(':=')]),
            cmd('FUNCTION', [Id('pk')], [Id('cite$'), Q('sort.key$'), Id(':=')]),
            cmd('FUNCTION', [Id('pn')], [Id('cnt'), Id('int.to.str$'), Q('sort.key$'), Id(':=')])]
    steps = []
    for _ in range(rng.randint(1, 7)):
        r = rng.random()
        if r < 0.3: steps.append(cmd('ITERATE', [Id(rng.choice(['pt', 'py', 'pk', 'pn']))]))
        elif r < 0.5: steps.append(cmd('SORT'))
        elif r < 0.65: steps.append(cmd('ITERATE', [Id('inc')]))
        elif r < 0.8: steps.append(cmd('REVERSE', [Id(rng.choice(['inc', 'show', 'g']))]))
        else: steps.append(cmd('ITERATE', [Id(rng.choice(['show', 'g']))]))
    steps.append(cmd('ITERATE', [Id('show')]))
    return norm([U._entry(), cmd('INTEGERS', [Id('n')]), g, inc, show] + pres + [cmd('READ')] + steps)

def gen_engine(tier, rng):
    n = 2000 if tier == 'quick' else 15000
    for i in range(n):
        style = rng.choice(SYN_NAMES + ['dump', 'dump', 'bytitle', 'bytitle', 'sched', 'sched', 'sched', 'sched'])
        other = rng.choice([s for s in SYN_NAMES if s != style])
        if style == 'sched':
            SYN['sched'] = sched_style(rng)
        fmt = rng.choice([0, 0, 0, 1])
        db = rand_db(rng, dups=(fmt == 0))
        if fmt == 1:     # YAML mappings: exact duplicates of a key collapse inside the YAML reader
            seen = set(); db = [e for e in db if not (e[0] in seen or seen.add(e[0]))]
        parts = split_db(rng, db)
        cites = rand_cites(rng)
        m = rng.choice([2, 2, 1, 0, 3])
        names = db_names(rng, len(parts))
        data = data_list(rng, names)
        files = [bst_file(style), bst_file(other)]
        files += [[nm + U.SUFFIX[fmt], 2, [fmt, p]] for nm, p in zip(names, parts)]
        if fmt == 1 or rng.random() < 0.3:   # a same-named database in the other format, with other content
            ofmt = 1 - fmt
            odb = rand_db(rng, dups=False)
            files += [[names[0] + U.SUFFIX[ofmt], 2, [ofmt, odb]]]
        mode = rng.choice([0, 0, 0, 1, 2, 3])
        fo = [fmt] if (fmt == 1 or rng.random() < 0.3) else []
        if mode == 0:
            auxname = rng.choice(['doc.aux', 'doc.aux', 'doc', 'my.doc.aux', '.aux', 'doc.tex.aux'])
            so = [other] if rng.random() < 0.4 else []
            lines = aux_lines(cites, style, data, rng)
            if rng.random() < 0.06: lines.insert(rng.randint(0, len(lines)), '\\bibstyle{%s}' % other)     # a second \bibstyle: reported, the first one stays
            if rng.random() < 0.04: lines.insert(rng.randint(0, len(lines)), '\\bibdata{nofile}')
            if rng.random() < 0.08: lines = [l for l in lines if not l.startswith('\\bibstyle')]
            if rng.random() < 0.05: lines = [l for l in lines if not l.startswith('\\bibdata')]
            if rng.random() < 0.06: names_bad = data + ['nofile']; lines = aux_lines(cites, style, names_bad, rng)
            if rng.random() < 0.05: lines = aux_lines(cites, 'nostyle', data, rng)
            if rng.random() < 0.35:
                lines, extra = nest_aux(rng, lines); files += extra
            files.append([auxname, 0, lines])
            yield ('engine_aux', 2, [files, [0, auxname, so, fo, m]])
        elif mode == 1:
            co = [cites] if rng.random() < 0.85 else []
            outn = rng.choice([[], [], ['out'], ['out.txt'], ['']])
            add = rng.choice([0, 0, 1]) if outn else 0
            srcs = [nm + U.SUFFIX[fmt] for nm in data] + (['nofile.bib'] if rng.random() < 0.05 else [])
            yield ('engine_files', 2, [files, [1, srcs, style if rng.random() < 0.95 else 'nostyle', co, fo, m, outn, add]])
        elif mode == 2:
            co = [cites] if rng.random() < 0.85 else []
            yield ('engine_strings', 2, [files[:2], [2, [[fmt, p] for p in parts], style, co, fo, m]])
        else:
            co = [cites] if rng.random() < 0.85 else []
            yield ('engine_file', 2, [files, [3, names[0] + U.SUFFIX[fmt], style, co, fo, m]])

STYLE_FILE_NAMES = ['house.sorted', 'house', 'my-style', 'House.Two', 'st.v1.2', 'UPPER', 'a.b', 'plainish']
AUX_FILE_NAMES = ['doc.aux', 'doc', 'my.doc', 'my.doc.aux', 'Paper-1', 'a.b.aux', 'Thesis.Final', 'x.auxx', '.aux']
DB_FILE_NAMES = ['refs', 'my.refs', 'Refs-2', 'a.b.c']
def gen_cli(tier, rng):
    """the command line entry point (pybtex.__main__.main, in process) with -s / -f / --min-crossrefs in their spellings;
    names of style, .aux and database files with periods, dashes and upper case; every style name has a differently
    behaving neighbour (its name up to the first / last period, lower-cased ...) on disk"""
    kinds = ['dump', 'bytitle', 'rev', 'byyear', 'count', 'types']
    for i in range(200 if tier == 'quick' else 2500):
        snames = rng.sample(STYLE_FILE_NAMES, 3)
        ks = rng.sample(kinds, 3)
        files = [[n + '.bst', 1, SYN[k]] for n, k in zip(snames, ks)]
        have = set(n for n in snames)
        for n in snames:       # neighbours a sloppy normalisation would pick instead
            for alt in (n.split('.')[0], n.rsplit('.', 1)[0], n.lower(), n.replace('-', '')):
                if alt and alt not in have and alt.lower() not in [h.lower() for h in have]:
                    have.add(alt); files.append([alt + '.bst', 1, SYN[rng.choice([k for k in kinds if k != ks[snames.index(n)]])]])
        dbn = rng.sample(DB_FILE_NAMES, rng.choice([1, 2]))
        fmt = rng.choice([0, 0, 1])
        db = rand_db(rng, dups=False)
        parts = [db] if len(dbn) == 1 else [db[:len(db) // 2], db[len(db) // 2:]]
        files += [[n + U.SUFFIX[fmt], 2, [fmt, p]] for n, p in zip(dbn, parts)]
        if fmt == 1 or rng.random() < 0.3:
            files.append([dbn[0] + U.SUFFIX[1 - fmt], 2, [1 - fmt, rand_db(rng, dups=False)]])
        cites = rng.choice([['*'], rand_cites(rng), [e[0] for e in db][::-1] + ['zz']])
        auxn = rng.choice(AUX_FILE_NAMES)
        onfile = auxn if posixpath.splitext(auxn)[1] == '.aux' else auxn + '.aux'
        files.append([onfile, 0, aux_lines(cites, snames[0], dbn, rng)])
        so = [snames[1]] if rng.random() < 0.7 else []
        fo = [fmt] if (fmt == 1 or rng.random() < 0.3) else []
        mo = [rng.choice([1, 2, 3])] if rng.random() < 0.5 else []
        yield ('command_line', 2, [files, [4, auxn, so, fo, mo]])

def gen_aux_nested(tier, rng):
    """.aux files that \\@input chapter files between their own \\citation lines (depth <= 2; \\bibstyle / \\bibdata in the
    parent, now and then in a chapter): the inputs are read IN PLACE, so the citation order -- and with a non-sorting style
    the item order -- is that of the flattened document"""
    for i in range(220 if tier == 'quick' else 2000):
        db = rand_db(rng, nmax=7, dups=False)
        keys = [e[0] for e in db]
        cites = [rng.choice(keys + ['zz']) for _ in range(rng.randint(4, 8))] if keys else ['zz', 'a', 'b', 'c']
        if rng.random() < 0.15: cites.insert(rng.randint(0, len(cites)), '*')
        style = rng.choice(['dump', 'dump', 'rev', 'bytitle', 'count'])
        lines = aux_lines(cites, style, ['refs'])
        if rng.random() < 0.2:       # the style named in a chapter, before the parent's own \\bibstyle line is reached
            other = rng.choice(['rev', 'dump', 'types'])
            lines.insert(rng.randint(2, len(lines) - 2), '\\bibstyle{%s}' % other)
        else:
            other = None
        lines, extra = nest_aux(rng, lines)
        files = [bst_file(style), ['refs.bib', 2, [0, db]]] + ([bst_file(other)] if other and other != style else []) + extra
        files.append(['doc.aux', 0, lines])
        yield ('engine_aux_nested', 2, [files, [0, 'doc.aux', [], [], rng.choice([2, 1])]])

def gen_history(tier, rng):
    """consecutive engine calls in one process: the same style NAME with different contents (other directory, or the
    same path rewritten), the same contents under different names; every call must come out as if it were alone"""
    kinds = ['dump', 'bytitle', 'rev', 'dump', 'bytitle', 'byyear', 'count', 'types']
    for i in range(200 if tier == 'quick' else 2000):
        nruns = rng.choice([2, 2, 3])
        place = rng.choice([0, 1])
        same_name = rng.random() < 0.75
        ks = [rng.choice(kinds) for _ in range(nruns)]
        if same_name and len(set(ks)) == 1:
            ks[-1] = rng.choice([k for k in kinds if k != ks[0]])
        if not same_name and rng.random() < 0.6:
            ks = [ks[0]] * nruns            # the same contents under different names
        runs = []
        for r in range(nruns):
            sname = 'house' if same_name else 'house%d' % r
            db = rand_db(rng, dups=False); cites = rng.choice([['*'], rand_cites(rng), [e[0] for e in db][::-1]])
            m = rng.choice([2, 1])
            files = [[sname + '.bst', 1, SYN[ks[r]]], ['refs.bib', 2, [0, db]]]
            mode = rng.choice([0, 1, 2, 3])
            if mode == 0:
                files.append(['doc.aux', 0, aux_lines(cites, sname, ['refs'], rng)])
                call = [0, 'doc.aux', [], [], m]
            elif mode == 1:
                call = [1, ['refs.bib'], sname, [cites], [], m, [], 0]
            elif mode == 2:
                call = [2, [[0, db]], sname, [cites], [], m]
            else:
                call = [3, 'refs.bib', sname, [cites], [], m]
            runs.append([files, call, place])
        yield ('history', 7, runs)

def gen_aux_order(tier, rng):
    """.aux files naming 2-3 databases in NON-alphabetical order (now and then one twice), the same key in several of
    them, citations with '*', order-revealing styles: the files must be read in the order the .aux file names them"""
    for i in range(260 if tier == 'quick' else 2500):
        n = rng.choice([2, 2, 3])
        while True:
            names = db_names(rng, n)
            if names != sorted(names):
                break
        shared = rng.choice(KEYS)
        parts = []
        for k in range(n):
            p = rand_db(rng, nmax=3, dups=False)
            if rng.random() < 0.6:      # the same key in several files, with different contents
                p = [e for e in p if e[0].lower() != shared.lower()]
                p.insert(rng.randint(0, len(p)), [shared, rng.choice(TYPES), [['title', 'from %s' % names[k]]]])
            parts.append(p)
        data = data_list(rng, names)
        style = rng.choice(['dump', 'dump', 'rev', 'bytitle', 'types', 'count'])
        cites = rng.choice([['*'], ['*'], [shared, '*'], ['*', shared.upper()], rand_cites(rng)])
        if i % 3 == 0:
            # every cited key sits in the first file; the entry they cross-reference (not cited itself) in the LAST one
            par = 'par%d' % (i % 7)
            kids = [['kid1', 'inbook', [['crossref', par], ['note', 'n1']]], ['kid2', 'inbook', [['title', 'own'], ['crossref', par]]]]
            parts = [[e for e in p if e[0].lower() not in ('kid1', 'kid2', par)] for p in parts]
            parts[0] = kids + parts[0]
            parts[-1] = parts[-1] + [[par, 'book', [['title', 'The Parent'], ['year', '1999'], ['booktitle', 'BT']]]]
            data = list(names)
            cites = rng.choice([['kid1', 'kid2'], ['kid2', 'kid1'], ['kid1']]) + [e[0] for e in parts[0][2:3]]
        files = [bst_file(style)] + [[nm + '.bib', 2, [0, p]] for nm, p in zip(names, parts)]
        files.append(['doc.aux', 0, aux_lines(cites, style, data, rng)])
        yield ('engine_aux_file_order', 2, [files, [0, 'doc.aux', [], [], rng.choice([2, 1])]])

# ---- realistic databases for the shipped styles
AUTHORS = ['Knuth, Donald E.', 'Leslie Lamport', 'A. U. Thor and B. Other', 'de la Vall{\\\'e}e Poussin, Charles', 'Zed, Z. and Young, Y. and Xu, X.', 'Aamport, L. A.', 'Knuth, Donald E. and others']
TITLES = ['The Art of Things', 'On the electrodynamics of moving bodies', 'A {GNU} Manual', 'zebra crossing', 'An Introduction', 'Lower bounds: a survey', 'The Art of Things']
RKEYS = ['knuth', 'lam94', 'thor', 'vp', 'zed', 'Aamport', 'proc1', 'proc2', 'book9']
RTYPES = ['article', 'book', 'inproceedings', 'incollection', 'misc', 'techreport', 'inbook', 'proceedings', 'phdthesis', 'unpublished', 'weird']

def real_entry(rng, key, parents):
    typ = rng.choice(RTYPES)
    f = []
    def add(n, v, p=0.8):
        if rng.random() < p: f.append([n, v])
    if typ != 'proceedings':     # a @proceedings entry has editors, not authors (with both, jurabib.bst pops an empty stack: see notes)
        add('author', rng.choice(AUTHORS), 0.85)
    add('title', rng.choice(TITLES), 0.9)
    add('year', rng.choice(['1984', '1994', '1994', '2001', '']), 0.85)
    add('journal', rng.choice(['J. Irrepr. Res.', 'Annals of Improbability']), 0.5)
    add('booktitle', 'Proceedings of Something', 0.4)
    add('publisher', 'Addison', 0.5)
    add('editor', rng.choice(AUTHORS), 0.2)
    add('volume', rng.choice(['1', '22']), 0.3)
    add('pages', '1--10', 0.3)
    add('note', 'A note', 0.2)
    add('key', 'Kk', 0.1)
    add('institution', 'MIT', 0.2); add('school', 'ETH', 0.2); add('chapter', '3', 0.2)
    f = [x for x in f if x[1] != '']
    if parents and rng.random() < 0.4 and typ != 'proceedings':      # (inherited author + editor: same jurabib.bst quirk)
        f.append(['crossref', rng.choice(parents)])
    return [key, typ, f]

def real_db(rng, nmax=7):
    keys = rng.sample(RKEYS, rng.randint(1, min(nmax, len(RKEYS))))
    return [real_entry(rng, k, [p for p in keys if p != k] + ['absent']) for k in keys]

def real_cites(rng, db, star=True):
    keys = [e[0] for e in db]
    r = rng.random()
    if star and r < 0.2:
        return ['*']
    c = [k for k in keys if rng.random() < 0.6]
    rng.shuffle(c)
    if rng.random() < 0.2 and c: c.append(rng.choice(c))                 # cited twice
    if rng.random() < 0.15 and c: c.append(rng.choice(c).upper())        # cited again in another case
    if rng.random() < 0.15: c.insert(rng.randint(0, len(c)), 'nosuchkey')
    if star and rng.random() < 0.08: c.insert(rng.randint(0, len(c)), '*')
    return c

def gen_real(tier, rng):
    styles = U.STYLES_QUICK if tier == 'quick' else U.STYLES_THOROUGH
    n = 90 if tier == 'quick' else 400
    for style in styles:
        for i in range(n):
            db = real_db(rng)
            yield ('shipped_' + style, 3, [db, real_cites(rng, db), rng.choice([2, 2, 1, 3]), style, rng.choice([0, 1])])

def gen_sort(tier, rng):
    names = ['a', 'b', 'c', 'A']
    keys = ['', 'a', 'b', 'ab']
    maxlen = 4 if tier == 'quick' else 5
    for n in range(0, maxlen + 1):
        for cs in itertools.permutations(names, min(n, 4)) if n <= 4 else []:
            for ks in itertools.product(keys, repeat=len(cs)):
                yield ('sort_exhaustive', 4, [[c, [k]] for c, k in zip(cs, ks)])
    for i in range(600 if tier == 'quick' else 6000):
        n = rng.randint(0, 9)
        cs = rng.sample(['k%d' % j for j in range(12)], n)
        pool = ['', 'a', 'B', 'b', 'ab', 'a b', '\u00e9', 'z' * 3, 'a    b', '10', '9', ' a']
        arg = [[c, [rng.choice(pool)]] for c in cs]
        if rng.random() < 0.1 and arg:
            arg[rng.randrange(len(arg))][1] = []
        if rng.random() < 0.1 and arg:
            arg.append(list(rng.choice(arg)))
        yield ('sort_random', 4, arg)

def variant(rng, db, cites, kind):
    """-> variant database for which the property demands the same output"""
    if kind == 0:
        cited = set(c.lower() for c in cites)
        xrefs = set((U.crossref_of(e[2]) or '').lower() for e in db)
        removable = [i for i, e in enumerate(db) if e[0].lower() not in cited and e[0].lower() not in xrefs]
        out = list(db)
        if removable and rng.random() < 0.5:
            for i in sorted(rng.sample(removable, rng.randint(1, len(removable))), reverse=True):
                del out[i]
        for _ in range(rng.randint(0 if len(out) != len(db) else 1, 3)):
            k = rng.choice(['u1', 'u2', 'U3', 'extra'])
            if k.lower() in cited or k.lower() in xrefs:
                continue
            e = rand_entry(rng, k) if rng.random() < 0.5 else real_entry(rng, k, [x[0] for x in db])
            out.insert(rng.randint(0, len(out)), e)
        return out
    out = list(db)
    rng.shuffle(out)
    return out

def gen_pairs(tier, rng):
    styles = ['dump', 'bytitle', 'plain', 'unsrt', 'alpha'] + ([] if tier == 'quick' else ['unsrt_mixed', 'IEEEtran', 'apacite', 'jurabib'])
    n = 80 if tier == 'quick' else 300
    for style in styles:
        for i in range(n):
            kind = i % 2
            if style in SYN:
                db = rand_db(rng, dups=False); cites = rand_cites(rng, star=False)
            else:
                db = real_db(rng); cites = real_cites(rng, db, star=False)
            if kind == 1 and rng.random() < 0.8:
                # keep children before the parents they refer to (BibTeX's documented ordering rule) in the base file
                db = sorted(db, key=lambda e: 0 if U.crossref_of(e[2]) else 1)
            v = variant(rng, db, cites, kind)
            if kind == 1 and rng.random() < 0.8:
                v = sorted(v, key=lambda e: 0 if U.crossref_of(e[2]) else 1)
            yield ('pair_%s_%s' % (['uncited', 'reorder'][kind], style), 5, [db, v, cites, rng.choice([2, 2, 1]), style, kind])

def gen_splitext(tier, rng):
    for n in range(0, 6 if tier == 'quick' else 8):
        for t in itertools.product('a./', repeat=n):
            yield ('splitext_exhaustive', 6, ''.join(t))

PINNED = [
    # F7 (fixed in /repo by 1fd367c): explicit style / format must win over the .aux file
    ('pinned', 2, [[bst_file('dump'), bst_file('rev'), ['db0.bib', 2, [0, [['a', 'book', [['title', 'T']]], ['b', 'misc', []]]]],
                    ['db0.yaml', 2, [1, [['a', 'misc', [['title', 'Y']]]]]], ['doc.aux', 0, aux_lines(['a', 'b'], 'dump', ['db0'])]],
                   [0, 'doc.aux', ['rev'], [1], 2]]),
    ('pinned', 2, [[bst_file('dump'), bst_file('rev'), ['db0.bib', 2, [0, [['a', 'book', [['title', 'T']]], ['b', 'misc', []]]]],
                    ['doc.aux', 0, aux_lines(['a', 'b'], 'dump', ['db0'])]], [0, 'doc.aux', ['rev'], [], 2]]),
    # C06i: \\@input'ed files are read in place (citations of a chapter come before the parent's later citations)
    ('pinned', 2, [[bst_file('dump'), ['refs.bib', 2, [0, [['a', 'book', []], ['b', 'misc', []], ['c', 'misc', []], ['d', 'misc', []]]]],
                    ['ch1.aux', 0, ['\\relax', '\\citation{b}', '\\@input{ch2.aux}', '\\citation{c}']], ['ch2.aux', 0, ['\\citation{d}']],
                    ['doc.aux', 0, ['\\relax', '\\citation{a}', '\\@input{ch1.aux}', '\\citation{a,b}', '\\bibstyle{dump}', '\\bibdata{refs}']]],
                   [0, 'doc.aux', [], [], 2]]),
    # C06e: the database files are read in the order of the \\bibdata list ('b,a' -- not sorted, not de-duplicated)
    ('pinned', 2, [[bst_file('dump'), ['b.bib', 2, [0, [['k1', 'book', [['title', 'in b']]], ['x', 'misc', []]]]],
                    ['a.bib', 2, [0, [['k2', 'misc', []], ['k1', 'article', [['title', 'in a']]]]]],
                    ['doc.aux', 0, aux_lines(['*'], 'dump', ['b', 'a'])]], [0, 'doc.aux', [], [], 2]]),
    ('pinned', 2, [[bst_file('dump'), ['b.bib', 2, [0, [['k1', 'book', [['title', 'in b']]]]]], ['a.bib', 2, [0, [['k2', 'misc', []]]]],
                    ['doc.aux', 0, aux_lines(['*'], 'dump', ['b', 'a', 'b'])]], [0, 'doc.aux', [], [], 2]]),
]

def gen(tier, rng):
    U.base_dir()          # made here, before the worker processes are forked, removed by this process at exit
    for c in PINNED:
        yield c
    for g in (gen_aux, gen_engine, gen_aux_order, gen_aux_nested, gen_cli, gen_history, gen_real, gen_sort, gen_pairs, gen_splitext):
        for c in g(tier, rng):
            yield c

# ----------------------------------------------------------------------------------------
RULE = ('aux: every line of <= 3 (thorough 4) tokens over {the four commands with "{", a, B, comma, braces, space, backslash} alone and inside a complete file, '
        'random multi-file .aux sets with nested / missing \\@input; engine: random databases (repeated / case-variant keys, cross-references incl. dangling, self and "*", '
        'several files, .bib and .yaml), citation lists (repeats, case variants, missing keys, "*"), 11 synthetic styles (dump of every field, sorted, reversed, two sorts, '
        'call.type$, no READ, ITERATE before READ, SORT without keys), four entry points, style / format overrides, output file names; shipped styles plain/unsrt/alpha/unsrt_mixed '
        '(thorough + IEEEtran/apacite/jurabib) end to end over realistic random databases through both entry points; SORT exhaustively on <= 4 citations x 4 keys; '
        'metamorphic pairs (uncited entries added/removed, file re-ordered) on synthetic and shipped styles.  distinct = distinct (function, argument); '
        'non-trivial = the model run succeeded with a non-empty result.')
EXHAUSTIVE = {'quick': 'aux lines: all token strings of length <= 3 over 11 tokens (alone / embedded); SORT: all arrangements of <= 4 citations x 4 sort keys; splitext: all strings over {a . /} of length <= 5',
              'thorough': 'aux lines: length <= 4; SORT: same; splitext: length <= 7'}
TRUSTED_BASE = ['modelled (not verified) code: pybtex/auxfile.py, pybtex/__init__.py Engine.*, pybtex/bibtex/__init__.py BibTeXEngine.format_from_files, Interpreter.run/command_read/_iterate/command_sort/command_reverse (through Model/Bst.v and Model/Citations.v of the C03 / C05 checks)',
                'parsing of .bib/.yaml/.bst text is NOT modelled here (C01/C10/C15): the harness prints generated entries / programs to text and checks on every run that pybtex parses them back to the same entries / AST',
                'shipped styles (tests/data/*.bst) are thousand-line BST programs: the model side of those runs is READ only (citations the engine holds), everything else about them is checked by the oracle on generated inputs']
ASSUMPTIONS = ['keys, field names and entry types are ASCII (case-insensitive containers use str.lower)',
               'databases contain no @string/@preamble/macros and no person fields in the synthetic-style runs (their parsing belongs to C01/C04)',
               'a file that \\@inputs itself (Python: RecursionError) and a second READ in one style are outside the modelled domain']
PARTIAL = ['"exactly one item per resolved citation" for the SHIPPED styles is checked by the oracle on generated inputs only; the theorems cover the engine (READ, ITERATE, SORT, REVERSE, entry points, overrides)',
           'file-order irrelevance is proved for databases whose cross-referenced entries follow the entries referring to them (F13 is the complement)']

def describe(fn, arg):
    try:
        if fn == 1:
            return {'files': {S(n): [S(l) for l in c] for n, k, c in arg[0]}, 'parse': S(arg[1])}
        if fn == 2:
            fs = {}
            for n, k, c in arg[0]:
                fs[S(n)] = [S(l) for l in c] if k == 0 else (U.to_bst(c) if k == 1 else U.db_text(c[0], c[1]))
            call = arg[1]
            if call[0] == 4:
                return {'files': fs, 'call': 'command line: pybtex [-s %s] [-f %s] [--min-crossrefs %s] %s' % ([S(x) for x in call[2]], call[3], call[4], S(call[1]))}
            return {'files': fs, 'call': ['make_bibliography', 'format_from_files', 'format_from_strings', 'format_from_file'][call[0]], 'args': repr(call[1:])[:400]}
        if fn == 3:
            return {'bib': U.bib_text(arg[0]), 'citations': [S(c) for c in arg[1]], 'min_crossrefs': arg[2], 'style': S(arg[3]), 'entry_point': ['make_bibliography', 'format_from_string'][arg[4]]}
        if fn == 4:
            return {'citations_with_sort_keys': [(S(c), S(k[0]) if k else None) for c, k in arg]}
        if fn == 5:
            return {'bib': U.bib_text(arg[0]), 'variant': U.bib_text(arg[1]), 'citations': [S(c) for c in arg[2]], 'min_crossrefs': arg[3], 'style': S(arg[4]), 'kind': ['uncited added/removed', 'reordered'][arg[5]]}
        if fn == 7:
            return {'runs_in_one_process': [dict(describe(2, [r[0], r[1]]), place=['own directory', 'same paths rewritten'][r[2]]) for r in arg]}
        return {'path': S(arg)}
    except Exception as e:
        return {'fn': fn, 'arg': repr(arg)[:500]}

def nontrivial(fn, arg, out):
    if fn == 7:
        return any(o[0] == 0 for o in out)
    if fn in (1, 2, 4):
        return out[0] == 0 and len(sx(out)) > 12
    if fn == 3:
        return len(out[0]) > 1
    if fn == 5:
        return True
    return len(out) > 0

# ----------------------------------------------------------------------------------------
# command-line plumbing (pybtex/__main__.py PybtexCommandLine.run): `pybtex [options] file` must do what the
# explicit call with the same style / format / min_crossrefs does.  Oracle only (no model): a few dozen runs.
def _cli_run(argv):
    from pybtex import errors
    from pybtex.__main__ import PybtexCommandLine
    cl = PybtexCommandLine()
    options, args = cl.opt_parser.parse_args(cl.recognize_legacy_optons(list(argv)))
    with errors.capture():
        cl.run(*args, **cl._extract_kwargs(options))

def extra_checks(ck, tier, rng):
    from pybtex import errors
    import pybtex.bibtex as B
    fails, n = [], 0
    for i in range(12 if tier == 'quick' else 60):
        style, other = rng.sample(['dump', 'bytitle', 'rev', 'byyear', 'count', 'types'], 2)
        db = rand_db(rng, dups=False); ydb = rand_db(rng, dups=False)
        cites = [c for c in rand_cites(rng) if c]
        if i % 3 == 0:      # databases on which min_crossrefs 1 / 2 / 3 give three different bibliographies
            db = [['c1', 'inbook', [['title', 'T'], ['crossref', 'p']]], ['c2', 'inbook', [['crossref', 'p']]], ['p', 'book', [['title', 'Zed']]],
                  ['c3', 'inbook', [['crossref', 'q']]], ['q', 'book', [['year', '1999']]]]
            ydb = [[k, t, f] for k, t, f in db]
            cites = ['c1', 'c3', 'c2'] if i % 2 else ['c3', 'c2', 'c1']
        variants = [(['doc.aux'], style, 0, 2), (['doc'], style, 0, 2), (['-s', other, 'doc.aux'], other, 0, 2),
                    (['--style=' + other, '-f', 'yaml', 'doc'], other, 1, 2), (['-f', 'yaml', 'doc.aux'], style, 1, 2),
                    (['--min-crossrefs=1', 'doc.aux'], style, 0, 1), (['-min-crossrefs=3', 'doc'], style, 0, 3),
                    (['-f', 'bibtex', '--min-crossrefs', '1', '-s', other, 'doc.aux'], other, 0, 1)]
        with U.scratch():
            _write_files(norm([bst_file(style), bst_file(other), ['db0.bib', 2, [0, db]], ['db0.yaml', 2, [1, ydb]],
                               ['doc.aux', 0, aux_lines(cites, style, ['db0'])]]))
            for argv, sty, fmt, m in variants:
                n += 1
                try:
                    with errors.capture():
                        want = B.format_from_files(['db0' + U.SUFFIX[fmt]], style=sty, citations=list(cites), bib_format=U.parser_of(fmt), min_crossrefs=m)
                    if os.path.exists('doc.bbl'):
                        os.unlink('doc.bbl')
                    _cli_run(argv)
                    got = open('doc.bbl', encoding='utf-8', newline='').read()
                except Exception as e:
                    fails.append(('pybtex ' + ' '.join(argv), 'raised %r' % (e,), True)); continue
                if got != want:
                    fails.append(('pybtex ' + ' '.join(argv), 'doc.bbl differs from the explicit call (style %s, format %s, min_crossrefs %d): %r vs %r; bib %r, citations %r'
                                  % (sty, U.SUFFIX[fmt], m, got[:200], want[:200], U.bib_text(norm(db))[:300], cites), True))
    # the syntactic predicate of theorem items_per_citation, evaluated on the shipped styles' ASTs
    pred, pf = {}, []
    for sname in U.STYLES_THOROUGH:
        ok, why = U.style_item_predicate(sname, [t for t in RTYPES])
        pred[sname] = [ok, why]
        if sname in ('plain', 'unsrt', 'alpha', 'unsrt_mixed', 'apacite') and not ok:
            pf.append((sname + '.bst', 'no longer has the shape theorem items_per_citation speaks about: ' + why, False))
    yield {'name': 'item_predicate_on_shipped_styles', 'evaluations': len(pred), 'failures': pf, 'info': pred}
    # several database files named by one .aux file, with @string macros: a macro defined in one file is known in the files
    # read AFTER it (one parser, one macro table) -- the files must be read in the order of the \\bibdata list.  Parsing of
    # @string is outside the model (C01/C10), so this is oracle only: byte-for-byte against the explicit call in .aux order,
    # the macro expanded, nothing reported, items in file order.
    mf, mn = [], 0
    for i in range(10 if tier == 'quick' else 60):
        names = rng.sample(['zeta', 'mid', 'alpha', 'beta'], rng.choice([2, 3]))
        if names == sorted(names):
            names.reverse()
        data = list(names) + ([names[0]] if i % 4 == 3 else [])
        style = rng.choice(['dump', 'unsrt'])
        with U.scratch():
            keys = []
            for k, nm in enumerate(names):
                text = ''
                if k == 0:
                    text += '@string{jn = "Journal of Macros"}\n'
                text += '@article{k%d%s, author = {A. Author}, title = {T%d}, journal = jn, note = jn, year = 200%d}\n' % (k, nm, k, k)
                text += '@misc{shared, title = {from %s}, note = jn}\n' % nm
                keys += ['k%d%s' % (k, nm)] + (['shared'] if k == 0 else [])
                open(nm + '.bib', 'w').write(text)
            if style == 'dump':
                open('dump.bst', 'w').write(U.to_bst(SYN['dump'])); sty = 'dump'
            else:
                sty = os.path.join(U.DATA, 'unsrt')
            open('doc.aux', 'w').write('\\relax\n\\citation{*}\n\\bibstyle{%s}\n\\bibdata{%s}\n' % (sty, ','.join(data)))
            mn += 1
            try:
                with errors.capture() as cap1:
                    want = B.format_from_files([d + '.bib' for d in data], style=sty, citations=['*'])
                with errors.capture() as cap2:
                    B.make_bibliography('doc.aux')
                got = open('doc.bbl', encoding='utf-8', newline='').read()
            except Exception as e:
                mf.append(('\\bibdata{%s}' % ','.join(data), 'raised %r' % (e,), True)); continue
            items = [l[1:-1] for l in got.split('\n') if l.startswith('[') and l.endswith(']')] if style == 'dump' else U.bibitems(got)
            undefined = [str(e) for e in cap2 if 'undefined' in str(e).lower()]
            what = None
            if got != want:
                what = 'doc.bbl differs from the explicit call over %r: %r vs %r' % ([d + '.bib' for d in data], got[:300], want[:300])
            elif undefined:
                what = 'macro of the first file unknown in a later one: %r' % undefined[:2]
            elif items != keys:
                what = 'items %r, expected the entries in the order the files are named: %r' % (items, keys)
            elif got.count('Journal of Macros') < len(names):
                what = 'the macro was not expanded in every file'
            if what:
                mf.append(('\\bibdata{%s} (style %s)' % (','.join(data), style), what, True))
    yield {'name': 'aux_database_order_with_macros', 'evaluations': mn, 'failures': mf[:5],
           'info': 'the databases of \\bibdata{...} are read in the order named (non-alphabetical, one name twice): macros of earlier files known later, first occurrence of a repeated key wins, items of \\citation{*} in file order'}
    # several database files (names / file objects / \\bibdata list) are ONE database: the output is that of the concatenated
    # text -- @preamble of every file (styles that write preamble$), an uncited cross-reference parent in the LAST file whose
    # children are cited from the first.  @preamble parsing is outside the model: oracle only.
    cf, cn = [], 0
    pre_style = norm(SYN['dump'][:2] + [cmd('FUNCTION', [Id('pre')], [Id('preamble$'), Id('write$'), Id('newline$')]), cmd('READ'),
                                        cmd('EXECUTE', [Id('pre')]), cmd('ITERATE', [Id('f')])])
    for i in range(12 if tier == 'quick' else 80):
        nfiles = rng.choice([2, 3])
        names = rng.sample(['zeta', 'mid', 'alpha', 'beta'], nfiles)
        texts = []
        for k in range(nfiles):
            t = '@preamble{"\\\\newcommand{\\\\from%s}{%d} "}\n' % (names[k], k)
            if k == 0:
                t += '@inbook{kid1, title = {Kid One}, crossref = {par}}\n@inbook{kid2, note = {n2}, crossref = {par}}\n@misc{solo, title = {Solo}}\n'
            if k == nfiles - 1:
                t += '@book{par, title = {The Parent}, year = {1999}, booktitle = {BT}}\n'
            t += '@misc{u%d, title = {uncited %d}}\n' % (k, k)
            texts.append(t)
        cites = rng.choice([['kid1', 'kid2', 'solo'], ['kid2', 'solo'], ['solo', 'kid1']])
        m = rng.choice([1, 2])
        use_plain = i % 3 == 2
        with U.scratch():
            for nm, t in zip(names, texts):
                open(nm + '.bib', 'w').write(t)
            if use_plain:
                sty = os.path.join(U.DATA, 'plain')
            else:
                open('prestyle.bst', 'w').write(U.to_bst(pre_style)); sty = 'prestyle'
            open('doc.aux', 'w').write('\\relax\n' + ''.join('\\citation{%s}\n' % c for c in cites) + '\\bibstyle{%s}\n\\bibdata{%s}\n' % (sty, ','.join(names)))
            cn += 1
            try:
                with errors.capture():
                    want = B.format_from_string(''.join(texts), style=sty, citations=list(cites), min_crossrefs=m)
                    by_files = B.format_from_files([nm + '.bib' for nm in names], style=sty, citations=list(cites), min_crossrefs=m)
                    by_strings = B.format_from_strings(list(texts), style=sty, citations=list(cites), min_crossrefs=m)
                    B.make_bibliography('doc.aux', min_crossrefs=m)
                by_aux = open('doc.bbl', encoding='utf-8', newline='').read()
            except Exception as e:
                cf.append(('files %r citations %r' % (names, cites), 'raised %r' % (e,), True)); continue
            what = None
            for label, got in (('format_from_files', by_files), ('format_from_strings', by_strings), ('make_bibliography', by_aux)):
                if got != want:
                    what = '%s over %d files differs from the run over the concatenated text: %r vs %r' % (label, nfiles, got[:400], want[:400]); break
            if not what:
                flat = want.replace('\n', ' ')
                if any(('from%s' % nm) not in want for nm in names):
                    what = 'a file\'s @preamble is missing from the output: %r' % want[:300]
                elif not use_plain and 'kid1' in cites and 'Kid One\n1999' not in want:
                    what = 'kid1 did not inherit the year of its cross-referenced parent (last file): %r' % want[:400]
                elif not use_plain and ('[par]' in want) != (len([c for c in cites if c.startswith('kid')]) >= m):
                    what = 'the cross-referenced parent is %s although %d cited entries refer to it (min_crossrefs %d)' % ('present' if '[par]' in want else 'missing', len([c for c in cites if c.startswith('kid')]), m)
            if what:
                cf.append(('\\bibdata{%s}, citations %r, min_crossrefs %d, style %s' % (','.join(names), cites, m, 'plain' if use_plain else 'dump + preamble$'), what, True))
    yield {'name': 'several_files_are_one_database', 'evaluations': cn, 'failures': cf[:5],
           'info': 'format_from_files / format_from_strings / make_bibliography over 2-3 files == format_from_string of the concatenation; every @preamble written; the uncited parent in the last file found (inheritance, min_crossrefs)'}
    yield {'name': 'command_line_plumbing', 'evaluations': n, 'failures': fails[:5],
           'info': 'pybtex [-s style] [-f format] [--min-crossrefs n] file[.aux] writes what format_from_files(style, format, min_crossrefs) returns'}
