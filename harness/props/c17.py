# C17 -- string/bytes/stream/file entry points agree; run-time plug-ins; open() failures.
# Models: coq/Model/Plugins.v (registry), coq/Model/IO.v (pybtex.io._open ...),
#         coq/Model/EntryPoints.v (BaseParser / BaseWriter / module-level compositions)
# Theorems: coq/Props/C17.v
import itertools, os, io, sys, atexit, shutil, tempfile, posixpath, stat
from core import *

ID = 'C17'

G_IN, G_OUT, G_BACK = 'pybtex.database.input', 'pybtex.database.output', 'pybtex.backends'
ENCODINGS = ['utf-8', 'latin-1', 'ascii', 'utf-16']   # codec ids of Model/EntryPoints.v codec_of

# ----------------------------------------------------------------------------------------
# sandbox directory (created once in the main process, inherited by the forked workers)
_SB = None
_SB_PID = None

def _cleanup():
    if _SB and _SB_PID == os.getpid():
        shutil.rmtree(_SB, ignore_errors=True)

def sandbox():
    global _SB, _SB_PID
    if _SB is None:
        _SB = tempfile.mkdtemp(prefix='c17-')
        _SB_PID = os.getpid()
        atexit.register(_cleanup)
    return _SB

_PROC = None
def proc_dir():
    """a private directory per worker process (no two processes touch the same files)"""
    global _PROC
    if _PROC is None or _PROC[0] != os.getpid():
        d = os.path.join(sandbox(), 'p%d' % os.getpid())
        for sub in ('empty', 'adir', 'tex', 'tex/nodir', 'tex2', 'found', 'w', 'okw', 'rd', 'kbin'):
            os.makedirs(os.path.join(d, sub), exist_ok=True)
        with open(os.path.join(d, 'found', 'located.bib'), 'w') as f:
            f.write('@misc{located}\n')
        _PROC = (os.getpid(), d)
    return _PROC[1]

def enter_sandbox():
    """every implementation call runs with the process's private directory as working directory,
    relative names only"""
    d = proc_dir()
    if os.getcwd() != d:
        os.chdir(d)
    return d

def empty_path():
    return os.path.join(proc_dir(), 'empty')

def my_tmp(name):
    return os.path.join('w', name)

class Env:
    """temporarily set environment variables (None = unset)"""
    def __init__(self, **kw):
        self.kw = kw
    def __enter__(self):
        self.old = {k: os.environ.get(k) for k in self.kw}
        for k, v in self.kw.items():
            if v is None:
                os.environ.pop(k, None)
            else:
                os.environ[k] = v
    def __exit__(self, *a):
        for k, v in self.old.items():
            if v is None:
                os.environ.pop(k, None)
            else:
                os.environ[k] = v

def set_kpsewhich(kp):
    """kp = [0, strerr_opt]: no kpsewhich program on PATH;  [1, rc, out]: a kpsewhich that prints out and exits rc.
    returns the PATH to use"""
    if kp[0] == 0:
        return empty_path()
    d = os.path.join(proc_dir(), 'kbin')
    p = os.path.join(d, 'kpsewhich')
    out = S(kp[2])
    with open(p, 'w') as f:
        f.write("#!/bin/sh\nprintf '%%s' '%s'\nexit %d\n" % (out.replace("'", "'\\''"), kp[1]))
    os.chmod(p, 0o755)
    return d

# ----------------------------------------------------------------------------------------
# fn 1: registry histories
_PLUG = None
def plug():
    """classes used as plug-ins: ids 1..9 run-time classes, 10..19 'installed' classes of the fake
    entry-point table; real installed classes get ids from 100"""
    global _PLUG
    if _PLUG is None:
        from pybtex.plugin import Plugin
        ks = {i: type('K%d' % i, (Plugin,), {}) for i in range(1, 30)}
        _PLUG = {'by_id': ks, 'by_class': {v: k for k, v in ks.items()}}
    return _PLUG

# fake installed table (group, name, class id): small, so that exhaustive histories are cheap
FAKE_INST = [
    (G_IN, 'i', 10), (G_IN, 'bibtex', 11), (G_IN + '.aliases', 'ia', 12), (G_IN + '.aliases', 'i', 13),
    (G_IN + '.suffixes', '.i', 14), (G_BACK, 'i', 15), (G_BACK, 'latex', 16), (G_BACK + '.suffixes', '.i', 17),
    (G_BACK + '.aliases', 'ia', 18), (G_IN, 'i', 19),     # a duplicate: the first one wins
    # entries that differ from others only in the case of a letter: look-ups are case-sensitive
    (G_IN, 'I', 20), (G_IN + '.suffixes', '.I', 21), (G_IN + '.aliases', 'IA', 22), (G_BACK + '.suffixes', '.I', 23),
]

class FakeEP:
    def __init__(self, group, name, loader):
        self.group, self.name, self._loader = group, name, loader
    def load(self):
        return self._loader()

def fake_entry_points(table, resolve):
    def entry_points(**params):
        out = []
        for (g, n, k) in table:
            if 'group' in params and params['group'] != g:
                continue
            if 'name' in params and params['name'] != n:
                continue
            out.append(FakeEP(g, n, (lambda k=k, g=g: resolve(g, k))))
        return out
    return entry_points

_REAL = None
def real_installed():
    """the real entry points of the pybtex.* groups named in _DEFAULT_PLUGINS, in entry_points() order"""
    global _REAL
    if _REAL is None:
        import pybtex.plugin as pp
        from importlib.metadata import entry_points
        table, classes = [], {}
        for base in pp._DEFAULT_PLUGINS:
            for g in (base, base + '.aliases', base + '.suffixes'):
                for ep in entry_points(group=g):
                    cls = ep.load()
                    if cls not in classes:
                        classes[cls] = 100 + len(classes)
                    table.append((g, ep.name, classes[cls]))
        _REAL = (table, classes)
    return _REAL

_DFT = None
def defaults_table():
    global _DFT
    if _DFT is None:
        import pybtex.plugin as pp
        _DFT = [[g, d] for g, d in pp._DEFAULT_PLUGINS.items()]
    return _DFT

class Registry:
    """run code against pybtex.plugin with an empty _RUNTIME_PLUGINS (restored afterwards) and,
    when [table] is given, with that table in place of the installed entry points"""
    def __init__(self, table=None, resolve=None):
        self.table, self.resolve = table, resolve
    def __enter__(self):
        import pybtex.plugin as pp
        self.pp = pp
        self.saved_rt = {g: dict(d) for g, d in pp._RUNTIME_PLUGINS.items()}
        pp._RUNTIME_PLUGINS.clear()
        self.saved_ep = pp.entry_points
        if self.table is not None:
            pp.entry_points = fake_entry_points(self.table, self.resolve)
        return pp
    def __exit__(self, *a):
        self.pp.entry_points = self.saved_ep
        self.pp._RUNTIME_PLUGINS.clear()
        self.pp._RUNTIME_PLUGINS.update(self.saved_rt)

def dec_pname(x, to_class):
    if not x:
        return None
    return S(x[1]) if x[0] == 0 else to_class(x[1])

def run_calls(pp, calls, to_class, of_class):
    from pybtex.exceptions import PybtexError
    outs = []
    for c in calls:
        try:
            if c[0] == 0:
                r = pp.register_plugin(S(c[1]), S(c[2]), to_class(c[3], S(c[1])), force=bool(c[4]))
                outs.append([0, [0, 1 if r is True else 0 if r is False else 7]])
            elif c[0] == 1:
                fl = S(c[3][0]) if c[3] else None
                r = pp.find_plugin(S(c[1]), dec_pname(c[2], lambda k: to_class(k, S(c[1]))), filename=fl)
                outs.append([0, [1, of_class(r)]])
            else:
                outs.append([0, [2, [norm(n) for n in pp.enumerate_plugin_names(S(c[1]))]]])
        except PybtexError:
            outs.append([1])
        except Exception:
            outs.append([2])
    return outs

def impl_registry(arg):
    mode, calls = arg
    P = plug()
    to_class = lambda k, g=None: None if k == 0 else P['by_id'].get(k)
    if mode == 0:
        of_class = lambda c: P['by_class'].get(c, 999)
        with Registry(FAKE_INST, lambda g, k: P['by_id'][k]) as pp:
            return run_calls(pp, calls, to_class, of_class)
    table, classes = real_installed()
    of_class = lambda c: P['by_class'].get(c, classes.get(c, 999))
    with Registry() as pp:
        return run_calls(pp, calls, to_class, of_class)

# ----------------------------------------------------------------------------------------
# fn 2: os.path.splitext
def impl_splitext(arg):
    a, b = os.path.splitext(S(arg))
    return [norm(a), norm(b)]

# ----------------------------------------------------------------------------------------
# fn 3: pybtex.io._open / open_raw / open_unicode with a scripted opener
class Handle:
    def __init__(self, h):
        self.h = h
class FileLike:
    def __init__(self, h):
        self.h = h
    def read(self):
        return ''
    def close(self):
        pass

ERR_CLASSES = {'No such file or directory': FileNotFoundError, 'Permission denied': PermissionError,
               'Is a directory': IsADirectoryError}

def make_opener(script, log):
    script = list(script)
    def opener(path, mode='r', **kw):
        if isinstance(path, bytes):
            path = path.decode('latin-1')
        extra = sorted(k for k in kw if k != 'encoding')
        log.append([norm(path), norm(mode), [norm(kw['encoding'])] if kw.get('encoding') is not None else []] + ([norm(repr(extra))] if extra else []))
        if not script:
            raise RuntimeError('script exhausted')
        o = script.pop(0)
        if o[0] == 0:
            return Handle(o[1])
        if o[0] == 1:
            if not o[1]:
                raise OSError()
            msg = S(o[1][0])
            raise ERR_CLASSES.get(msg, OSError)(5, msg)
        raise ValueError('scripted foreign exception')
    return opener

def impl_open(arg):
    import pybtex.io as pio
    from pybtex.exceptions import PybtexError
    script, target, mode, enc, tex, isfile, kp, which = arg
    enter_sandbox()
    log = []
    opener = make_opener(script, log)
    if target[0] == 0:
        obj = FileLike(target[1]); name = None
    else:
        name = S(target[1]); obj = name
        # arrange posixpath.isfile(name)
        if isfile:
            if not os.path.isfile(name):
                if os.path.dirname(name):
                    os.makedirs(os.path.dirname(name), exist_ok=True)
                open(name, 'w').close()
        else:
            if os.path.isfile(name):
                os.remove(name)
    path = set_kpsewhich(kp)
    kwargs = {'encoding': S(enc[0])} if enc else {}
    with Env(TEXMFOUTPUT=S(tex[0]) if tex else None, PATH=path):
        try:
            if which == 0:
                r = pio._open(opener, obj, S(mode), **kwargs)
            else:
                class Shim:
                    def __getattr__(self, a):
                        return getattr(io, a)
                shim = Shim()
                shim.open = opener
                saved = pio.io
                pio.io = shim
                try:
                    f = pio.open_raw if which == 1 else pio.open_unicode
                    r = f(obj, S(mode), **kwargs)
                finally:
                    pio.io = saved
            if isinstance(r, (Handle, FileLike)):
                out = [0, r.h]
            else:
                out = [0, 998]
        except PybtexError as e:
            out = [1, 1 if (name is not None and name in str(e)) else 0]
        except Exception as e:
            out = [2]
    return [out, log]

# ----------------------------------------------------------------------------------------
# probe plug-ins: record what reaches parse_stream / write what they are told
_PROBES = None
def probes():
    global _PROBES
    if _PROBES is None:
        from pybtex.database.input import BaseParser
        from pybtex.database.output import BaseWriter
        from pybtex.exceptions import PybtexError
        def head_check(x):
            h = x[:1]
            if h in ('!', b'!'):
                raise PybtexError('probe error')
            if h in ('?', b'?'):
                raise ValueError('probe crash')
        class ProbeParserT(BaseParser):
            unicode_io = True
            default_suffix = '.pt'
            def parse_stream(self, stream):
                x = stream.read()
                head_check(x)
                self.data.__dict__.setdefault('seen', []).append(x)
                return self.data
        class ProbeParserB(ProbeParserT):
            unicode_io = False
            default_suffix = '.pb'
        def chunks(payload):
            # "~": return without writing; otherwise one write per "|"-separated chunk
            return [] if payload == '~' else payload.split('|')
        class ProbeWriterT(BaseWriter):
            unicode_io = True
            def write_stream(self, bib_data, stream):
                head_check(bib_data)
                for c in chunks(bib_data):
                    stream.write(c)
        class ProbeWriterB(BaseWriter):
            unicode_io = False
            def write_stream(self, bib_data, stream):
                head_check(bib_data)
                for c in chunks(bib_data):
                    stream.write(c.encode(self.encoding))
        _PROBES = {'PT': ProbeParserT, 'PB': ProbeParserB, 'WT': ProbeWriterT, 'WB': ProbeWriterB}
    return _PROBES

def enc_stream_val(x):
    return [0, norm(x)] if isinstance(x, str) else [1, list(x)]

def seen_of(data):
    return [enc_stream_val(x) for x in getattr(data, 'seen', [])]

def mk_fsrc(f, fname=None, idx=0):
    """[0, stream] -> a StringIO/BytesIO; [1, content] -> a real file; [2] -> a missing file"""
    if f[0] == 0:
        st = f[1]
        if st[0] == 0:
            cls = type('NamedStringIO', (io.StringIO,), {})
            o = cls(S(st[1]))
        else:
            cls = type('NamedBytesIO', (io.BytesIO,), {})
            o = cls(bytes(st[1]))
        if fname is not None:
            o.name = fname
        return o
    if f[0] == 1:
        p = my_tmp(fname if fname is not None else 'in%d.dat' % idx)
        os.makedirs(os.path.dirname(p), exist_ok=True)
        with open(p, 'wb') as fh:
            fh.write(bytes(f[1]))
        return p
    return my_tmp('missing/' + (fname if fname is not None else 'nothing.dat'))

def impl_reader(arg):
    u, codec, entry, x = arg
    enter_sandbox()
    P = probes()
    def run():
        parser = (P['PT'] if u else P['PB'])(encoding=ENCODINGS[codec])
        if entry == 0:
            return seen_of(parser.parse_string(S(x)))
        if entry == 1:
            return seen_of(parser.parse_bytes(bytes(x)))
        if entry == 2:
            return seen_of(parser.parse_file(mk_fsrc(x)))
        return seen_of(parser.parse_files([mk_fsrc(f, idx=i) for i, f in enumerate(x)]))
    with Env(PATH=empty_path(), TEXMFOUTPUT=None):
        return call_impl(run)

def mk_wdst(dst, fname=None):
    if dst[0] == 0:
        return io.StringIO() if dst[1] else io.BytesIO()
    if dst[0] == 1:
        p = my_tmp(fname if fname is not None else 'out.dat')
        os.makedirs(os.path.dirname(p), exist_ok=True)
        if os.path.exists(p):
            os.remove(p)
        return p
    return my_tmp('missing/' + (fname if fname is not None else 'out.dat'))

def write_result(ret, dst_obj):
    r = [] if ret is None else [enc_stream_val(ret)]
    if isinstance(dst_obj, str):
        if os.path.exists(dst_obj):
            with open(dst_obj, 'rb') as fh:
                return [r, [[1, list(fh.read())]]]
        return [r, []]
    return [r, r]

def impl_writer(arg):
    u, codec, entry, d, dst = arg
    enter_sandbox()
    P = probes()
    def run():
        w = (P['WT'] if u else P['WB'])(encoding=ENCODINGS[codec])
        if entry == 0:
            return w.to_string(S(d))
        if entry == 1:
            return list(w.to_bytes(S(d)))
        o = mk_wdst(dst)
        return write_result(w.write_file(S(d), o), o)
    with Env(PATH=empty_path(), TEXMFOUTPUT=None):
        return call_impl(run)

# ----------------------------------------------------------------------------------------
# fn 6: module-level functions, probes registered / installed
FAKE6 = [
    (G_IN, 'bibtex', 1), (G_IN, 'pb', 2), (G_IN + '.aliases', 'pta', 1), (G_IN + '.suffixes', '.pt', 1), (G_IN + '.suffixes', '.pb', 2),
    (G_OUT, 'bibtex', 1), (G_OUT, 'pb', 2), (G_OUT + '.aliases', 'pta', 1), (G_OUT + '.suffixes', '.pt', 1), (G_OUT + '.suffixes', '.pb', 2),
    # the same suffix / name in another case belongs to the OTHER probe
    (G_IN + '.suffixes', '.PT', 2), (G_OUT + '.suffixes', '.PT', 2), (G_IN, 'PB', 1), (G_OUT, 'PB', 1),
]

def probe_class(group, k):
    P = probes()
    if group.startswith(G_OUT):
        return {1: P['WT'], 2: P['WB']}.get(k)
    return {1: P['PT'], 2: P['PB']}.get(k)

def impl_module(arg):
    setup, codec, entry, fmt, x, fname, dst = arg
    enter_sandbox()
    import pybtex.database as pdb
    fname = S(fname[0]) if fname else None
    encname = ENCODINGS[codec]
    def run():
        to_class = lambda k, g=None: None if k == 0 else probe_class(g or '', k)
        with Registry(FAKE6, probe_class) as pp:
            run_calls(pp, setup, to_class, lambda c: 0)
            group = G_OUT if entry >= 3 else G_IN
            f = dec_pname(fmt, lambda k: probe_class(group, k))
            if entry == 0:
                return seen_of(pdb.parse_string(S(x), f, encoding=encname))
            if entry == 1:
                return seen_of(pdb.parse_bytes(bytes(x), f, encoding=encname))
            if entry == 2:
                return seen_of(pdb.parse_file(mk_fsrc(x, fname), f, encoding=encname))
            data = pdb.BibliographyData()
            # the probes' write_stream takes the payload itself: hand it over through a subclass instance
            class Payload(str):
                pass
            payload = S(x)
            if entry == 3:
                return pdb.BibliographyData.to_string(payload, f, encoding=encname)
            if entry == 4:
                return list(pdb.BibliographyData.to_bytes(payload, f, encoding=encname))
            o = mk_wdst(dst, fname)
            if not isinstance(o, str) and fname is not None:
                try:
                    o.name = fname
                except Exception:
                    pass
            return write_result(pdb.BibliographyData.to_file(payload, o, f, encoding=encname), o)
    with Env(PATH=empty_path(), TEXMFOUTPUT=None):
        return call_impl(run)

# ----------------------------------------------------------------------------------------
# fn 7: the real plug-ins -- every reader / writer entry point on a generated database (oracle only)
REAL_FORMATS = [
    # name, aliases, suffixes
    ('bibtex', [], ['.bib']),
    ('yaml', ['bibyaml'], ['.yaml', '.bibyaml']),
    ('bibtexml', [], ['.xml', '.bibtexml']),
]
REAL_ENCODINGS = ['utf-8', 'latin-1', 'ascii', 'utf-16', 'cp1251']

def build_db(spec):
    from pybtex.database import BibliographyData, Entry, Person
    preamble, entries = spec
    db = BibliographyData()
    for p in preamble:
        db.add_to_preamble(S(p))
    for (key, typ, fields, persons) in entries:
        e = Entry(S(typ))
        for (fn_, fv) in fields:
            e.fields[S(fn_)] = S(fv)
        for (role, names) in persons:
            for n in names:
                e.add_person(Person(S(n)), S(role))
        db.add_entry(S(key), e)
    return db

def digest(db):
    """everything observable of a BibliographyData, as text"""
    from pybtex.database import BibliographyData
    if not isinstance(db, BibliographyData):
        return 'NOT-A-DATABASE:' + type(db).__name__
    ents = []
    for k, e in db.entries.items():
        ents.append((k, e.type, e.original_type, list(e.fields.items()),
                     [(r, [(p.first_names, p.middle_names, p.prelast_names, p.last_names, p.lineage_names) for p in ps]) for r, ps in e.persons.items()]))
    return repr((db.preamble, ents))

def outcome(f):
    """('ok', value) or ('exc', class name, is_pybtex_error)"""
    from pybtex.exceptions import PybtexError
    try:
        return ['ok', f()]
    except PybtexError as e:
        return ['exc', type(e).__name__, 'pybtex']
    except Exception as e:
        return ['exc', type(e).__name__, 'foreign']

def plugin_stream_is_text(fmt, group):
    from pybtex.plugin import find_plugin
    return bool(find_plugin(group, fmt).unicode_io)

def impl_real(arg):
    """returns [0, [[label, kind, payload] ...]]: every entry point's outcome; the oracle compares them"""
    spec, fmt_i, enc_i, crlf = arg
    enter_sandbox()
    import pybtex.database as pdb
    from pybtex.plugin import find_plugin
    fmt, aliases, suffixes = REAL_FORMATS[fmt_i]
    enc = REAL_ENCODINGS[enc_i]
    obs = []
    def add(label, o):
        if o[0] == 'ok':
            v = o[1]
            obs.append([norm(label), 0, list(v) if isinstance(v, (bytes, bytearray)) else norm(v if isinstance(v, str) else repr(v))])
        else:
            obs.append([norm(label), 1, norm('%s/%s' % (o[1], o[2]))])
    other = REAL_FORMATS[(fmt_i + 1) % 3][0]
    with Env(PATH=empty_path(), TEXMFOUTPUT=None), Registry() as pp:
        # run-time suffixes and names that differ only in case from each other / from installed ones:
        # '.REF' -> this format, '.ref' -> another one; FMT (upper case) -> another one
        for grp in (G_IN, G_OUT):
            pp.register_plugin(grp + '.suffixes', '.REF', find_plugin(grp, fmt))
            pp.register_plugin(grp + '.suffixes', '.ref', find_plugin(grp, other))
            pp.register_plugin(grp, fmt.upper(), find_plugin(grp, other))
            pp.register_plugin(grp + '.suffixes', suffixes[0].upper(), find_plugin(grp, other))
            # cross-kind: an ALIAS (and a suffix) spelled like this installed format NAME, pointing elsewhere
            pp.register_plugin(grp + '.aliases', fmt, find_plugin(grp, other))
            pp.register_plugin(grp + '.aliases', fmt, find_plugin(grp, other), force=True)
            pp.register_plugin(grp + '.suffixes', '.' + fmt + 'x', find_plugin(grp, other))
        suffixes = suffixes + ['.REF']
        try:
            db = build_db(spec)
            doc = db.to_string(fmt)        # reference document, default encoding
        except Exception as e:
            return [0, [[norm('setup'), 1, norm(type(e).__name__)]]]
        if crlf:
            doc = doc.replace('\n', '\r\n')
        try:
            raw = doc.encode(enc)
        except UnicodeEncodeError:
            return [0, [[norm('skip'), 0, norm('encoding cannot represent the text')]]]
        add('doc', ['ok', doc])
        # ---- readers
        names = [fmt] + aliases
        rd = lambda f: outcome(lambda: digest(f()))
        for n in names:
            add('R:parse_string:%s' % n, rd(lambda: pdb.parse_string(doc, n, encoding=enc)))
            add('R:parse_bytes:%s' % n, rd(lambda: pdb.parse_bytes(raw, n, encoding=enc)))
            add('R:from_string:%s' % n, rd(lambda: pdb.BibliographyData.from_string(doc, n, encoding=enc)))
        Parser = find_plugin(G_IN, fmt)
        text_stream = bool(Parser.unicode_io)
        add('R:Parser.parse_string', rd(lambda: Parser(encoding=enc).parse_string(doc)))
        add('R:Parser.parse_bytes', rd(lambda: Parser(encoding=enc).parse_bytes(raw)))
        for sfx in suffixes:
            p = my_tmp('real' + sfx)
            with open(p, 'wb') as fh:
                fh.write(raw)
            add('R:parse_file:name:%s' % sfx, rd(lambda: pdb.parse_file(p, fmt, encoding=enc)))
            add('R:parse_file:suffix:%s' % sfx, rd(lambda: pdb.parse_file(p, encoding=enc)))
            def from_stream(named):
                st = io.open(p, 'r', encoding=enc, newline='') if text_stream else io.open(p, 'rb')
                if named:
                    return pdb.parse_file(st, encoding=enc)       # format from the stream's .name
                return pdb.parse_file(st, fmt, encoding=enc)
            add('R:parse_file:stream:%s' % sfx, rd(lambda: from_stream(False)))
            add('R:parse_file:stream-suffix:%s' % sfx, rd(lambda: from_stream(True)))
            # file-like objects that merely carry a .name: an in-memory stream named after a path that does not
            # exist, and a file opened by a relative name from ANOTHER directory (its .name does not exist from here)
            def named_memory(named_only):
                cls = type('Named', (io.StringIO if text_stream else io.BytesIO,), {})
                st = cls(doc if text_stream else raw)
                st.name = 'no-such-dir/member' + sfx
                return pdb.parse_file(st, encoding=enc) if named_only else pdb.parse_file(st, fmt, encoding=enc)
            add('R:parse_file:named-memory-stream:%s' % sfx, rd(lambda: named_memory(False)))
            add('R:parse_file:named-memory-stream-suffix:%s' % sfx, rd(lambda: named_memory(True)))
            def opened_elsewhere():
                os.makedirs('elsewhere', exist_ok=True)
                with open(os.path.join('elsewhere', 'rel' + sfx), 'wb') as fh:
                    fh.write(raw)
                here = os.getcwd()
                os.chdir('elsewhere')
                try:
                    st = io.open('rel' + sfx, 'r', encoding=enc, newline='') if text_stream else io.open('rel' + sfx, 'rb')
                finally:
                    os.chdir(here)
                return pdb.parse_file(st, encoding=enc)
            add('R:parse_file:stream-opened-elsewhere-suffix:%s' % sfx, rd(opened_elsewhere))
        p0 = my_tmp('real' + suffixes[0])
        add('R:Parser.parse_file', rd(lambda: Parser(encoding=enc).parse_file(p0)))
        add('R:Parser.parse_files', rd(lambda: Parser(encoding=enc).parse_files([p0[:-len(suffixes[0])]], suffixes[0])))
        def via_parse_stream():
            st = io.StringIO(doc) if text_stream else io.BytesIO(raw)
            return Parser(encoding=enc).parse_stream(st)
        add('R:Parser.parse_stream', rd(via_parse_stream))
        # ---- names without an extension (also: only leading periods): no format can be chosen -> a pybtex error
        for nm in ('noext', '.bib', '...', 'dir.x/noext'):
            pth = my_tmp('e/' + nm)
            os.makedirs(os.path.dirname(pth), exist_ok=True)
            with open(pth, 'wb') as fh:
                fh.write(raw)
            add('E:parse_file:%s' % nm, rd(lambda: pdb.parse_file(pth, encoding=enc)))
            add('E:to_file:%s' % nm, outcome(lambda: db.to_file(pth, encoding=enc)))
            def named_only():
                st = type('Named', (io.BytesIO,), {})(raw)
                st.name = nm
                return pdb.parse_file(st, encoding=enc)
            add('E:parse_file:stream-named:%s' % nm, rd(named_only))
        # ---- writers
        Writer = find_plugin(G_OUT, fmt)
        wtext = bool(Writer.unicode_io)
        for n in names:
            add('W:to_string:%s' % n, outcome(lambda: db.to_string(n, encoding=enc)))
            add('W:to_bytes:%s' % n, outcome(lambda: db.to_bytes(n, encoding=enc)))
        add('W:Writer.to_string', outcome(lambda: Writer(encoding=enc).to_string(db)))
        add('W:Writer.to_bytes', outcome(lambda: Writer(encoding=enc).to_bytes(db)))
        def file_bytes(f):
            def g():
                q = f()
                with open(q, 'rb') as fh:
                    return fh.read()
            return outcome(g)
        for sfx in suffixes:
            q = my_tmp('realout' + sfx)
            def wr(named_format):
                if os.path.exists(q):
                    os.remove(q)
                if named_format:
                    db.to_file(q, fmt, encoding=enc)
                else:
                    db.to_file(q, encoding=enc)
                return q
            add('W:to_file:name:%s' % sfx, file_bytes(lambda: wr(True)))
            add('W:to_file:suffix:%s' % sfx, file_bytes(lambda: wr(False)))
            def wr_named_stream():
                # a file object opened by the caller: the format comes from its .name
                if os.path.exists(q):
                    os.remove(q)
                st = io.open(q, 'w', encoding=enc, newline='') if wtext else io.open(q, 'wb')
                try:
                    db.to_file(st, encoding=enc)
                finally:
                    st.close()
                return q
            add('W:to_file:stream-suffix:%s' % sfx, file_bytes(wr_named_stream))
            def wr_named_memory():
                cls = type('Named', (io.StringIO if wtext else io.BytesIO,), {})
                st = cls()
                st.name = 'no-such-dir/member' + sfx
                r = db.to_file(st, encoding=enc)
                return r.encode(enc) if isinstance(r, str) else r
            add('W:to_file:named-memory-stream-suffix:%s' % sfx, outcome(wr_named_memory))
        q0 = my_tmp('realout2' + suffixes[0])
        def wr2():
            Writer(encoding=enc).write_file(db, q0)
            return q0
        add('W:Writer.write_file', file_bytes(wr2))
        def wr_stream():
            st = io.StringIO() if wtext else io.BytesIO()
            r = Writer(encoding=enc).write_file(db, st)
            return r.encode(enc) if isinstance(r, str) else r
        add('W:Writer.write_file:stream', outcome(wr_stream))
        def wr_stream2():
            st = io.StringIO() if wtext else io.BytesIO()
            Writer(encoding=enc).write_stream(db, st)
            r = st.getvalue()
            return r.encode(enc) if isinstance(r, str) else r
        add('W:Writer.write_stream', outcome(wr_stream2))
    return [0, obs]

# ----------------------------------------------------------------------------------------
# fn 8: open failures on the real file system through the real entry points
# arg = [api, first_ok, texmf_set, fallback_ok]          (writing: api 0..3)
#       [api, isfile, kp_kind]                           (reading: api 4..6)
# kp_kind: 0 no kpsewhich program, 1 exits 1, 2 prints the located file, 3 prints a missing path, 4 prints nothing
ORIG_W, FALL_OK, FALL_BAD = 'out.dat', 'tex', 'tex2'

def fs_write_paths(first_ok, texmf_set, fallback_ok, sfx):
    name = ('okw' if first_ok else 'nodir') + '/out' + sfx
    tex = (FALL_OK if fallback_ok else FALL_BAD) if texmf_set else None
    return name, tex

def impl_fs(arg):
    enter_sandbox()
    import pybtex.io as pio
    import pybtex.database as pdb
    from pybtex.exceptions import PybtexError
    api = arg[0]
    db = build_db([[], [[norm('k'), norm('misc'), [[norm('title'), norm('T')]], []]]])
    if api <= 3:
        _, first_ok, texmf_set, fallback_ok = arg
        sfx = '.bib'
        name, tex = fs_write_paths(first_ok, texmf_set, fallback_ok, sfx)
        cands = [name] + ([posixpath.join(tex, name)] if tex else [])
        for c in cands:
            if os.path.exists(c):
                os.remove(c)
        with Env(TEXMFOUTPUT=tex, PATH=empty_path()):
            try:
                if api == 0:
                    with pio.open_raw(name, 'wb') as f:
                        f.write(b'x')
                elif api == 1:
                    with pio.open_unicode(name, 'w') as f:
                        f.write('x')
                elif api == 2:
                    db.to_file(name, 'bibtex')
                else:
                    find = __import__('pybtex.plugin', fromlist=['find_plugin']).find_plugin
                    find(G_OUT, 'yaml')().write_file(db, name)
                where = [i + 1 for i, c in enumerate(cands) if os.path.exists(c) and os.path.getsize(c) > 0]
                out = [0, where[0] if len(where) == 1 else 900 + len(where)]
            except PybtexError as e:
                out = [1, 1 if name in str(e) else 0]
            except Exception:
                out = [2]
        for c in cands:
            if os.path.exists(c):
                os.remove(c)
        return out
    _, isfile, kp_kind = arg
    name = 'rd/in.bib'
    if isfile:
        with open(name, 'w') as f:
            f.write('@misc{original}\n')
    elif os.path.exists(name):
        os.remove(name)
    kp = fs_kp(kp_kind)
    path = set_kpsewhich(kp)
    with Env(TEXMFOUTPUT=None, PATH=path):
        try:
            if api == 4:
                with pio.open_raw(name, 'rb') as f:
                    txt = f.read().decode()
            elif api == 5:
                with pio.open_unicode(name, 'r') as f:
                    txt = f.read()
            else:
                d = pdb.parse_file(name, 'bibtex') if api == 6 else pdb.parse_file(name)
                txt = ' '.join(d.entries.keys())
            out = [0, 1 if 'original' in txt else 2 if 'located' in txt else 997]
        except PybtexError as e:
            out = [1, 1 if name in str(e) else 0]
        except Exception:
            out = [2]
    if os.path.exists(name):
        os.remove(name)
    return out

def fs_kp(kind):
    if kind == 0:
        return [0, [norm('No such file or directory')]]
    if kind == 1:
        return [1, 1, norm('found/located.bib\n')]
    if kind == 2:
        return [1, 0, norm('found/located.bib\n')]
    if kind == 3:
        return [1, 0, norm('found/absent.bib\n')]
    return [1, 0, norm('\n')]

def model_arg_fs(arg):
    """the scenario as an argument of the model's open_ (fn 3 encoding)"""
    api = arg[0]
    ENOENT = [1, [norm('No such file or directory')]]
    if api <= 3:
        _, first_ok, texmf_set, fallback_ok = arg
        name, tex = fs_write_paths(first_ok, texmf_set, fallback_ok, '.bib')
        script = [[0, 1] if first_ok else ENOENT, [0, 2] if fallback_ok else ENOENT]
        mode = 'w' if api in (1, 2) else 'wb'
        return [script, [1, name], mode, [], [tex] if tex else [], 0, [0, []], 0]
    _, isfile, kp_kind = arg
    kp = fs_kp(kp_kind)
    if isfile:
        script = [[0, 1]]
    elif kp_kind == 2:
        script = [[0, 2]]
    else:
        script = [ENOENT]
    return [script, [1, 'rd/in.bib'], 'r' if api >= 5 else 'rb', [], [], isfile, kp, 0]

# ----------------------------------------------------------------------------------------
# fn 9: the dispatch of the three shipped plug-ins, their bodies replaced by recorders
# arg = [plugin (0 bibtex, 1 yaml, 2 bibtexml), writer?, codec, entry, payload, dst]
_STUBS = None
def stubs():
    global _STUBS
    if _STUBS is None:
        from pybtex.exceptions import PybtexError
        import pybtex.database.input.bibtex as ib, pybtex.database.input.bibyaml as iy, pybtex.database.input.bibtexml as ix
        import pybtex.database.output.bibtex as ob, pybtex.database.output.bibyaml as oy, pybtex.database.output.bibtexml as ox
        def head_check(x):
            h = x[:1]
            if h in ('!', b'!'):
                raise PybtexError('probe error')
            if h in ('?', b'?'):
                raise ValueError('probe crash')
        def record(self, x):
            head_check(x)
            self.data.__dict__.setdefault('seen', []).append(x)
            return self.data
        class RecBib(ib.Parser):
            def parse_string(self, text):          # the body: the BibTeX grammar
                return record(self, text)
        class RecYaml(iy.Parser):
            def parse_stream(self, stream):        # the body: yaml.load and the walk
                return record(self, stream.read())
        class RecXml(ix.Parser):
            def parse_tree(self, tree):            # the body: the tree walk (ET is shimmed below)
                return record(self, tree)
        class ETShim:
            @staticmethod
            def fromstring(value):
                return value
            @staticmethod
            def parse(stream):
                return stream.read()
        def chunks(payload):
            return [] if payload == '~' else payload.split('|')
        class WBib(ob.Writer):
            def write_stream(self, bib_data, stream):   # the body
                head_check(bib_data)
                for c in chunks(bib_data):
                    stream.write(c)
        class WYaml(oy.Writer):
            def _to_dict(self, bib_data):
                return bib_data
        class YamlShim:
            @staticmethod
            def dump(data, stream=None, encoding=None, **kw):
                head_check(data)
                out = data if encoding is None else data.encode(encoding)
                if stream is None:
                    return out
                stream.write(out)
        class WXml(ox.Writer):
            def _write(self, bib_data, writer):     # the body: the entry walk
                head_check(bib_data)
                writer.write(bib_data)
                writer.close()
        _STUBS = {'R': [RecBib, RecYaml, RecXml], 'W': [WBib, WYaml, WXml], 'ET': (ix, ETShim), 'yaml': (oy, YamlShim)}
    return _STUBS

class Patched:
    def __init__(self, mod, name, value):
        self.mod, self.name, self.value = mod, name, value
    def __enter__(self):
        self.saved = getattr(self.mod, self.name)
        setattr(self.mod, self.name, self.value)
    def __exit__(self, *a):
        setattr(self.mod, self.name, self.saved)

def impl_dispatch(arg):
    pl, rw, codec, entry, x, dst = arg
    enter_sandbox()
    ST = stubs()
    enc = ENCODINGS[codec]
    def run():
        if rw:
            w = ST['W'][pl](encoding=enc)
            if entry == 0:
                return w.to_string(S(x))
            if entry == 1:
                return list(w.to_bytes(S(x)))
            o = mk_wdst(dst)
            return write_result(w.write_file(S(x), o), o)
        parser = ST['R'][pl](encoding=enc)
        if entry == 0:
            return seen_of(parser.parse_string(S(x)))
        if entry == 1:
            return seen_of(parser.parse_bytes(bytes(x)))
        return seen_of(parser.parse_file(mk_fsrc(x)))
    with Env(PATH=empty_path(), TEXMFOUTPUT=None), Patched(ST['ET'][0], 'ET', ST['ET'][1]), Patched(ST['yaml'][0], 'yaml', ST['yaml'][1]):
        return call_impl(run)

def oracle_dispatch(arg, out):
    pl, rw, codec, entry, x, dst = arg
    enc = ENCODINGS[codec]
    if not rw:
        return oracle_reader([1 if pl == 0 else 0, codec, entry, x], out)
    if pl == 0:
        return oracle_writer([1, codec, entry, x, dst], out)
    if out[0] != 0:
        return None
    text = S(x)
    try:
        raw = text.encode(enc)
    except UnicodeEncodeError:
        return None
    if pl == 1:
        if entry == 0 and out[1] != norm(text):
            return 'yaml to_string is not the dumped document'
        if entry == 1 and out[1] != list(raw):
            return 'to_bytes [yaml, %s] is not the to_string document encoded' % enc
        if entry == 2 and dst[0] == 1 and out[1][1] != [[1, list(raw)]]:
            return 'to_bytes [yaml, %s] is not the to_string document encoded (write_file)' % enc
        return None
    # bibtexml: to_string is the document (stripped), to_bytes / the file the declaration plus the document
    if entry == 0:
        return None if out[1] == norm(text.strip()) else 'bibtexml to_string is not the (stripped) document'
    got = None
    if entry == 1:
        got = bytes(out[1])
    elif entry == 2 and dst[0] == 1 and out[1][1]:
        got = bytes(out[1][1][0][1])
    if got is not None:
        try:
            body = strip_xml_decl(got, enc)
        except UnicodeDecodeError:
            body = None
        if body is None or body.strip() != text.strip():
            return 'bibtexml bytes [%s] are not the XML declaration plus the encoded document: %r' % (enc, got[:60])
    return None

def gen_dispatch(tier, rng):
    texts = list(TEXTS) + ['  pad  ', 'a\nb\n', '€uro', 'Ж']
    raws = RAWS if tier == 'thorough' else RAWS[:12] + RAWS[-6:]
    for pl in (0, 1, 2):
        for codec in (0, 1, 2, 3):
            for t in texts:
                yield ('plugin_dispatch', 9, [pl, 0, codec, 0, t, []])
                yield ('plugin_dispatch', 9, [pl, 0, codec, 2, [0, [0, t]], []])
                yield ('plugin_dispatch', 9, [pl, 1, codec, 0, t, []])
                yield ('plugin_dispatch', 9, [pl, 1, codec, 1, t, []])
                for dst in ([0, 1], [0, 0], [1], [2]):
                    yield ('plugin_dispatch', 9, [pl, 1, codec, 2, t, dst])
            for b in raws:
                b = list(b)
                yield ('plugin_dispatch', 9, [pl, 0, codec, 1, b, []])
                yield ('plugin_dispatch', 9, [pl, 0, codec, 2, [1, b], []])
                yield ('plugin_dispatch', 9, [pl, 0, codec, 2, [0, [1, b]], []])
            yield ('plugin_dispatch', 9, [pl, 0, codec, 2, [2], []])

# ----------------------------------------------------------------------------------------
# fn 10: object histories -- ONE reader / writer object of a shipped plug-in (recording bodies) driven
# through several entry points in a row.  arg = [plugin, writer?, codec, [[entry, payload, dst] ...]]
# writer entries: 0 to_string, 1 to_bytes, 2 write_file(dst), 4 write_stream into a stream of the writer's kind
# reader entries: 0 parse_string, 1 parse_bytes, 2 parse_file(fsrc), 4 parse_stream(stream)
# The model answers every writer call on its own (a writer has no state); a reader accumulates its data.
def own_kind_text(pl, rw):
    return 1 if pl == 0 else 0

def impl_history(arg):
    pl, rw, codec, calls = arg
    enter_sandbox()
    ST = stubs()
    enc = ENCODINGS[codec]
    outs = []
    with Env(PATH=empty_path(), TEXMFOUTPUT=None), Patched(ST['ET'][0], 'ET', ST['ET'][1]), Patched(ST['yaml'][0], 'yaml', ST['yaml'][1]):
        obj = (ST['W'] if rw else ST['R'])[pl](encoding=enc)
        for k, (entry, x, dst) in enumerate(calls):
            def run():
                if rw:
                    if entry == 0:
                        return obj.to_string(S(x))
                    if entry == 1:
                        return list(obj.to_bytes(S(x)))
                    if entry == 2:
                        o = mk_wdst(dst, 'hist%d.dat' % k)
                        return write_result(obj.write_file(S(x), o), o)
                    st = io.StringIO() if own_kind_text(pl, rw) else io.BytesIO()
                    obj.write_stream(S(x), st)
                    v = [enc_stream_val(st.getvalue())]
                    return [v, v]
                if entry == 0:
                    return seen_of(obj.parse_string(S(x)))
                if entry == 1:
                    return seen_of(obj.parse_bytes(bytes(x)))
                if entry == 2:
                    return seen_of(obj.parse_file(mk_fsrc(x, idx=k)))
                return seen_of(obj.parse_stream(io.StringIO(S(x[1])) if x[0] == 0 else io.BytesIO(bytes(x[1]))))
            r = call_impl(run)
            outs.append(r)
            if not rw and r[0] != 0:
                break               # a reader that raised may hold partial data: the history ends here
    return outs

def model_arg_history(arg):
    pl, rw, codec, calls = arg
    out = []
    for (entry, x, dst) in calls:
        if entry == 4:          # write_stream / parse_stream directly = the stream case of write_file / parse_file
            out.append([2, x, [0, own_kind_text(pl, rw)]] if rw else [2, [0, x], []])
        else:
            out.append([entry, x, dst])
    return [pl, rw, codec, out]

def oracle_history(arg, out):
    pl, rw, codec, calls = arg
    if rw:
        for k, ((entry, x, dst), o) in enumerate(zip(calls, out)):
            e, d = (2, [0, own_kind_text(pl, rw)]) if entry == 4 else (entry, dst)
            m = oracle_dispatch([pl, 1, codec, e, x, d], o)
            if m:
                return 'call %d of the history on one writer object: %s' % (k + 1, m)
        return None
    # a reader: after each successful call the data are what the calls so far contributed, in order
    exp = []
    for k, ((entry, x, dst), o) in enumerate(zip(calls, out)):
        if o[0] != 0:
            return None
        e, xx = (2, [0, x]) if entry == 4 else (entry, x)
        single = impl_dispatch([pl, 0, codec, e, xx, []])     # the same call on a fresh reader
        if single[0] != 0:
            return 'call %d succeeded in the history but fails on a fresh reader' % (k + 1)
        exp = exp + single[1]
        if o[1] != exp:
            return 'after call %d the reader holds %s, expected %s' % (k + 1, o[1], exp)
    return None

def gen_history(tier, rng):
    wtexts = ['café', 'a|b', 'Ж€ x', '~', 'naïve x']
    rtexts = ['café', 'x\r\ny', 'Ж', 'abc']
    for pl in (0, 1, 2):
        for codec in (0, 1, 3) if tier == 'quick' else (0, 1, 2, 3):
            # writers: every ordered selection of 2 and 3 of the four entry points, and some with repetition
            wentries = [0, 1, 2, 4]
            seqs = [p for n in (2, 3) for p in itertools.permutations(wentries, n)] + [(0, 0, 1), (1, 0, 1), (0, 2, 0, 1), (4, 0, 4, 1), (2, 1, 0, 4)]
            seqs += [(1, 1), (0, 0), (2, 2), (4, 4), (1, 0, 1, 1)]
            for seq in seqs:
                off = rng.randrange(len(wtexts))       # a different document for every call of the history
                yield ('object_history', 10, [pl, 1, codec, [[e, wtexts[(off + i) % len(wtexts)], [1] if e == 2 else []] for i, e in enumerate(seq)]])
            # readers
            rentries = [0, 1, 2, 4]
            seqs = [p for n in (2, 3) for p in itertools.permutations(rentries, n)] + [(0, 0), (1, 1, 0), (2, 2), (4, 0, 4, 2)]
            for seq in seqs:
                calls = []
                for e in seq:
                    t = rng.choice(rtexts)
                    try:
                        raw = list(t.encode(ENCODINGS[codec]))
                    except UnicodeEncodeError:
                        raw = list(t.encode('utf-8'))
                    if e == 0:
                        calls.append([0, t, []])
                    elif e == 1:
                        calls.append([1, raw, []])
                    elif e == 2:
                        calls.append([2, [1, raw], []])
                    else:
                        calls.append([4, [0, t] if pl == 0 else [1, raw], []])
                yield ('object_history', 10, [pl, 0, codec, calls])

# ----------------------------------------------------------------------------------------
# fn 11: histories on the REAL plug-in objects, built as the API documents:
# find_plugin(group, name)(encoding=...) -- oracle only: every call must answer as a fresh object does
# arg = [spec, fmt_i, enc, [entries]]   writer entries 0 to_string 1 to_bytes 2 write_file(name) 4 write_stream
HIST_ENCODINGS = ['utf-8', 'latin-1', 'utf-16', 'iso-8859-1', 'cp1251']

def real_writer_call(w, db, entry, enc, k):
    if entry == 0:
        return w.to_string(db).encode('utf-8', 'surrogatepass')
    if entry == 1:
        return w.to_bytes(db)
    if entry == 2:
        q = my_tmp('rh%d.out' % k)
        if os.path.exists(q):
            os.remove(q)
        w.write_file(db, q)
        with open(q, 'rb') as fh:
            return fh.read()
    st = io.StringIO() if w.unicode_io else io.BytesIO()
    w.write_stream(db, st)
    v = st.getvalue()
    return v.encode(enc) if isinstance(v, str) else v

def impl_real_history(arg):
    spec, fmt_i, enc_i, entries = arg
    enter_sandbox()
    from pybtex.plugin import find_plugin
    fmt = REAL_FORMATS[fmt_i][0]
    enc = HIST_ENCODINGS[enc_i]
    obs = []
    with Env(PATH=empty_path(), TEXMFOUTPUT=None):
        try:
            db = build_db(spec)
            db.to_string(fmt).encode(enc)
        except Exception:
            return [0, []]
        w = find_plugin(G_OUT, fmt)(encoding=enc)
        db2 = build_db([spec[0], spec[1] + [[norm('zz'), norm('misc'), [[norm('note'), norm('other')]], []]]])
        for k, e in enumerate(entries):
            cur = db if k % 2 == 0 else db2          # a different database for consecutive calls
            a = outcome(lambda: real_writer_call(w, cur, e, enc, k))
            b = outcome(lambda: real_writer_call(find_plugin(G_OUT, fmt)(encoding=enc), cur, e, enc, 100 + k))
            enc_o = lambda o: [0, list(o[1])] if o[0] == 'ok' else [1, norm(o[1])]
            obs.append([e, enc_o(a), enc_o(b)])
    return [0, obs]

def oracle_real_history(arg, out):
    spec, fmt_i, enc_i, entries = arg
    names = {0: 'to_string', 1: 'to_bytes', 2: 'write_file', 4: 'write_stream'}
    for k, (e, a, b) in enumerate(out[1]):
        if a != b:
            return ('call %d (%s) on a %s writer object [%s] that already served %s answers %r..., a fresh writer answers %r...'
                    % (k + 1, names[e], REAL_FORMATS[fmt_i][0], HIST_ENCODINGS[enc_i], [names[x] for x in entries[:k]],
                       bytes(a[1][:50]) if a[0] == 0 else S(a[1]), bytes(b[1][:50]) if b[0] == 0 else S(b[1])))
    return None

def gen_real_history(tier, rng):
    specs = [[[], [['k', 'misc', [['title', 'café Müller']], [['author', ['Knuth, Donald']]]]]],
             [['pré'], [['k1', 'book', [['note', 'Жук']], []], ['k2', 'misc', [], []]]]]
    ents = [0, 1, 2, 4]
    seqs = [p for n in (2, 3) for p in itertools.permutations(ents, n)] + [(0, 0, 1), (1, 1), (0, 0), (2, 2), (4, 4), (0, 2, 0, 2)]
    for si, spec in enumerate(specs):
        for fmt_i in range(3):
            for enc_i in ((1, 2, 3) if tier == 'quick' else range(len(HIST_ENCODINGS))):
                for seq in (seqs if (tier == 'thorough' or si == 0) else seqs[:12]):
                    yield ('object_history_real', 11, [spec, fmt_i, enc_i, list(seq)])

# ----------------------------------------------------------------------------------------
FUNCS = {
    1: ('pybtex.plugin register_plugin/find_plugin/enumerate_plugin_names (history)', impl_registry,
        ('T', 'N', ('L', 'X'))),
    2: ('os.path.splitext (as used by find_plugin)', impl_splitext, 'S'),
    3: ('pybtex.io._open/open_raw/open_unicode (scripted opener)', impl_open,
        ('T', 'X', 'X', 'X', 'X', 'X', 'X', 'X', 'X')),      # not shrunk: a shorter script or another isfile is another scenario
    4: ('BaseParser.parse_string/parse_bytes/parse_file/parse_files (probe plug-in)', impl_reader, ('T', 'B', 'X', 'X', 'X')),
    5: ('BaseWriter.to_string/to_bytes/write_file (probe plug-in)', impl_writer, ('T', 'B', 'X', 'X', 'S', 'X')),
    6: ('pybtex.database parse_string/parse_bytes/parse_file/to_string/to_bytes/to_file (probe plug-ins in the registry)', impl_module,
        ('T', ('L', 'X'), 'X', 'X', 'X', 'X', 'X', 'X')),
    7: ('all reader/writer entry points of the real plug-ins (oracle only)', impl_real,
        ('T', ('T', ('L', 'S'), ('L', ('T', 'S', 'S', ('L', ('T', 'S', 'S')), ('L', ('T', 'S', ('L', 'S')))))), 'X', 'X', 'B')),
    8: ('open failures on the real file system (open_raw/open_unicode/to_file/write_file/parse_file)', impl_fs, 'X'),
    9: ('entry points of the shipped bibtex/yaml/bibtexml readers and writers, bodies replaced by recorders', impl_dispatch, ('T', 'X', 'X', 'X', 'X', 'X', 'X')),
    10: ('histories of entry-point calls on ONE reader / writer object of a shipped plug-in (recording bodies)', impl_history, ('T', 'X', 'X', 'X', ('L', 'X'))),
    11: ('histories of calls on ONE real writer object built by find_plugin(...)(encoding=...) (oracle only)', impl_real_history, ('T', 'X', 'X', 'X', ('L', 'X'))),
}

class _Intern:
    """group strings -> indices into a per-case table (Extr/C17.v d_gstr)"""
    def __init__(self):
        self.idx, self.tab = {}, []
    def __call__(self, g):
        key = g if isinstance(g, str) else tuple(g)
        i = self.idx.get(key)
        if i is None:
            i = self.idx[key] = len(self.tab)
            self.tab.append(g)
        return i
    def call(self, c):
        if c[0] == 0:
            return [0, self(c[1]), self(c[2]), c[3], c[4]]
        if c[0] == 1:
            nm = c[2]
            if nm and nm[0] == 0:
                nm = [0, self(nm[1])]
            return [1, self(c[1]), nm, [self(c[3][0])] if c[3] else []]
        return [c[0], self(c[1])]
    def calls(self, calls):
        return [self.call(c) for c in calls]

# core's order-independence replay (one fresh process, shuffled): the real-plug-in sweep (60 ms per case) is
# left out -- cross-call state of the real parsers/writers is C18's subject, and fn 9-11 run the same classes
ORDER_REPLAY_SKIP_FUNCS = (7, 2)

def model_arg(fn, arg):
    if fn == 1:
        mode, calls = arg
        inst = FAKE_INST if mode == 0 else real_installed()[0]
        it = _Intern()
        return [[[it(g), it(n), k] for (g, n, k) in inst], [[it(g), it(d)] for g, d in defaults_table()], it.calls(calls), it.tab]
    if fn == 6:
        it = _Intern()
        return [[[it(g), it(n), k] for (g, n, k) in FAKE6], [[it(g), it(d)] for g, d in defaults_table()], it.calls(arg[0])] + list(arg[1:]) + [it.tab]
    if fn == 8:
        return model_arg_fs(arg)
    if fn == 10:
        return model_arg_history(arg)
    return arg

def canon(fn, out):
    if fn == 1:
        return [canon_res(o) for o in out] if isinstance(out, list) else out
    if fn in (7, 11):
        return 'oracle-only'
    if fn == 10:
        return [canon_res(o) for o in out] if isinstance(out, list) else out
    if fn == 3:
        return out
    return canon_res(out)

# ----------------------------------------------------------------------------------------
# oracle: the property itself on the implementation's outputs
def spec_splitext(p):
    """independent: the extension is the part from the last period of the last path component,
    unless that component consists of leading periods only up to there"""
    base = p.rsplit('/', 1)[-1]
    stem = base.lstrip('.')
    if '.' not in stem:
        return ''
    return base[base.rindex('.'):]

def oracle_registry(arg, out):
    """a reference registry written from the property text: run-time plug-ins behave like installed
    ones, a (group, name) pair is replaced only when forced"""
    mode, calls = arg
    inst = FAKE_INST if mode == 0 else real_installed()[0]
    groups = set(g for g, _ in defaults_table_s())
    dflt = dict(defaults_table_s())
    table = {}        # (group, name) -> class, run-time registrations
    def installed(g, n):
        for (g2, n2, k) in inst:
            if g2 == g and n2 == n:
                return k
        return None
    def lookup(g, n):
        k = table.get((g, n))
        if k:
            return k
        return installed(g, n)
    for c, o in zip(calls, out):
        if c[0] == 0:
            g, n, k, force = S(c[1]), S(c[2]), c[3], c[4]
            base = g
            for sfx in ('.suffixes', '.aliases'):
                if g.endswith(sfx):
                    base = g[:-len(sfx)]
                    break
            if g.endswith('.suffixes') and not n.startswith('.'):
                continue          # not a suffix: outside the property
            if base not in groups:
                if o[0] == 0:
                    return 'register_plugin accepted the unknown group %r' % g
                continue
            present = (g, n) in table or installed(g, n) is not None
            if o[0] != 0:
                return 'register_plugin(%r, %r) raised' % (g, n)
            if present and not force:
                if o[1] != [0, 0]:
                    return 'un-forced registration of the existing plug-in %r in %r did not return False' % (n, g)
            else:
                if o[1] != [0, 1]:
                    return 'registration of %r in %r (force=%s) did not return True' % (n, g, bool(force))
                table[(g, n)] = k
        elif c[0] == 1:
            g, nm, fl = S(c[1]), c[2], (S(c[3][0]) if c[3] else None)
            if nm and nm[0] == 1:
                continue
            if g not in groups:
                if o[0] == 0:
                    return 'find_plugin found something in the unknown group %r' % g
                continue
            name = S(nm[1]) if nm else None
            if name:
                want = lookup(g, name) or lookup(g + '.aliases', name)
                what = 'name %r' % name
            elif fl:
                sfx = spec_splitext(fl)
                want = lookup(g + '.suffixes', sfx)
                what = 'file name %r (suffix %r)' % (fl, sfx)
            else:
                want = lookup(g, dflt[g])
                what = 'default'
            if want:
                if o != [0, [1, want]]:
                    return 'find_plugin(%r, %s): expected class %s, got %s' % (g, what, want, o)
            else:
                if o[0] == 0:
                    return 'find_plugin(%r, %s) found class %s although nothing is registered or installed' % (g, what, o[1])
                if o[0] == 2:
                    return 'find_plugin(%r, %s): nothing to find is a pybtex error (PluginNotFound), got a foreign exception' % (g, what)
        else:
            g = S(c[1])
            if o[0] != 0:
                return 'enumerate_plugin_names(%r) raised' % g
            names = sorted(S(n) for n in o[1][1])
            want = sorted(set([n for (g2, n) in table if g2 == g] + [n2 for (g2, n2, _) in inst if g2 == g]))
            if sorted(set(names)) != want:
                return 'enumerate_plugin_names(%r) = %s, expected %s' % (g, names, want)
    return None

def defaults_table_s():
    return [(g, d) for g, d in defaults_table()]

def oracle_open(arg, out, with_log=True):
    script, target, mode, enc, tex, isfile, kp, which = arg
    res = out[0] if with_log else out
    log = out[1] if with_log else None
    if target[0] == 0:
        if res != [0, target[1]]:
            return 'a file object was not passed through'
        return None
    name = S(target[1])
    if log is not None and len(log) > len(script):
        return None                     # more open() calls than scripted outcomes: not a scenario of the matrix
    used = script[:len(log)] if log is not None else script
    if any(o[0] == 2 for o in used):
        return None                     # a foreign exception of open() itself is not an open *failure* in the sense of the property
    if res[0] == 2:
        return 'failure to open %r surfaced as a foreign exception' % name
    if res[0] == 1 and res[1] != 1:
        return 'the error for %r does not name the file' % name
    write = 'w' in S(mode)
    if write:
        first = script[0]
        if first[0] == 0:
            if res != [0, first[1]]:
                return 'first attempt succeeded but its file was not returned'
        else:
            second = script[1] if len(script) > 1 else None
            if tex and second and second[0] == 0:
                if res != [0, second[1]]:
                    return 'output location unwritable, TEXMFOUTPUT set and usable, but no fallback: %s' % res
                if log is not None and (len(log) < 2 or S(log[1][0]) != posixpath.join(S(tex[0]), name)):
                    return 'fallback did not open TEXMFOUTPUT/<file>'
                if log is not None and log[1][1:] != log[0][1:]:
                    return ('the TEXMFOUTPUT fallback is not the same open() at another place: first attempt (mode, encoding) = %s, fallback = %s '
                            '(the file would not receive the bytes of the configured encoding)' % (log[0][1:], log[1][1:]))
            else:
                if res[0] != 1:
                    return 'nothing could be opened but no pybtex error: %s' % res
    else:
        o = script[0]
        if isfile and kp is not None:
            # the named file exists: it is the file to open; failing to open it is a pybtex error naming it,
            # whatever kpsewhich might find elsewhere
            if o[0] == 0 and res != [0, o[1]]:
                return 'the existing file %r was opened but another file (or none) was returned: %s' % (name, res)
            if o[0] == 1 and res[0] != 1:
                return 'the existing file %r could not be opened (%s) but no pybtex error was raised: got %s%s' % (
                    name, S(o[1][0]) if o[1] else 'OSError', res,
                    ' -- opened instead: %r' % S(log[-1][0]) if log and len(log) > 1 else '')
        elif log is not None and len(log) == 1:
            if o[0] == 0 and res != [0, o[1]]:
                return 'the opened file was not returned'
            if o[0] == 1 and res[0] != 1:
                return 'open failed but no pybtex error'
    return None

def strip_xml_decl(b, enc):
    t = b.decode(enc)
    if not t.startswith('<?xml'):
        return None
    i = t.find('?>')
    if i < 0:
        return None
    return t[i + 2:]

def oracle_real(arg, out):
    spec, fmt_i, enc_i, crlf = arg
    fmt = REAL_FORMATS[fmt_i][0]
    enc = REAL_ENCODINGS[enc_i]
    obs = [(S(l), k, v) for (l, k, v) in out[1]]
    if obs and obs[0][0] in ('skip', 'setup'):
        return None
    d = {l: (k, v) for (l, k, v) in obs}
    # readers: every entry point gives the same outcome as parse_string
    ref_label = 'R:parse_string:%s' % fmt
    ref = d[ref_label]
    for l, (k, v) in d.items():
        if l.startswith('R:') and (k, v) != ref:
            if k == 1 and ref[0] == 1:
                # both raise: the same kind (pybtex / foreign) is all the property can ask for
                if S(v).split('/')[-1] == S(ref[1]).split('/')[-1]:
                    continue
            return '%s [%s, %s] differs from %s: %s  vs  %s' % (l, fmt, enc, ref_label, show(k, v), show(*ref))
    # writers
    ts = d['W:to_string:%s' % fmt]
    tb = d['W:to_bytes:%s' % fmt]
    for l, (k, v) in d.items():
        if l.startswith('W:to_string') or l == 'W:Writer.to_string':
            if (k, v) != ts:
                return '%s differs from to_string' % l
        elif l.startswith('W:'):
            if (k, v) != tb:
                if k == 1 and tb[0] == 1:
                    continue
                return '%s [%s, %s] differs from to_bytes: %s  vs  %s' % (l, fmt, enc, show(k, v), show(*tb))
    if ts[0] == 0 and tb[0] == 0:
        text, raw = S(ts[1]), bytes(tb[1])
        try:
            want = text.encode(enc)
        except UnicodeEncodeError:
            return None
        if fmt == 'bibtexml':
            try:
                body = strip_xml_decl(raw, enc)
            except UnicodeDecodeError:
                body = None
            if body is None or body.strip() != text.strip():
                return 'to_bytes [bibtexml, %s] is not the XML declaration plus the encoded to_string document' % enc
        elif raw != want:
            return 'to_bytes [%s, %s] is not the to_string document encoded: %r... vs %r...' % (fmt, enc, raw[:40], want[:40])
    elif ts[0] != tb[0]:
        return 'to_string and to_bytes disagree on failing [%s, %s]: %s vs %s' % (fmt, enc, show(*ts), show(*tb))
    for l, (k, v) in d.items():
        if l.startswith('E:'):
            if k != 1 or not S(v).endswith('/pybtex'):
                return '%s: a file name without extension cannot select a format: a pybtex error is expected, got %s' % (l, show(k, v))
    return None

def show(k, v):
    s = S(v) if all(isinstance(c, int) and c < 0x110000 for c in v) else repr(v)
    return ('raised ' if k else '') + s[:160]

def oracle(fn, arg, out):
    if fn == 1:
        return oracle_registry(arg, out)
    if fn == 2:
        a, b = S(out[0]), S(out[1])
        p = S(arg)
        if a + b != p:
            return 'splitext does not split'
        if b != spec_splitext(p):
            return 'splitext(%r) extension %r, expected %r' % (p, b, spec_splitext(p))
        return None
    if fn == 3:
        return oracle_open(arg, out)
    if fn == 8:
        m = oracle_open(model_arg_fs(arg), out, with_log=False)
        if m or arg[0] <= 3:
            return m
        _, isfile, kp_kind = arg
        want = [0, 1] if isfile else [0, 2] if kp_kind == 2 else [1, 1]
        if out != want:
            return 'reading %s file (kpsewhich scenario %d): got %s, expected %s' % ('an existing' if isfile else 'a missing', kp_kind, out, want)
        return None
    if fn == 7:
        return oracle_real(arg, out)
    if fn == 4:
        return oracle_reader(arg, out)
    if fn == 5:
        return oracle_writer(arg, out)
    if fn == 9:
        return oracle_dispatch(arg, out)
    if fn == 10:
        return oracle_history(arg, out)
    if fn == 11:
        return oracle_real_history(arg, out)
    return None

def oracle_reader(arg, out):
    """the probe sees the same text whichever entry point is used (up to the codec)"""
    u, codec, entry, x = arg
    enc = ENCODINGS[codec]
    if out[0] != 0 or entry == 3:
        return None
    seen = out[1]
    def expect(text=None, raw=None):
        if u:
            if text is None:
                try:
                    text = bytes(raw).decode(enc)
                except UnicodeDecodeError:
                    return None
            return [[0, norm(text)]]
        if raw is None:
            try:
                raw = S(x).encode(enc) if text is None else text.encode(enc)
            except UnicodeEncodeError:
                return None
        return [[1, list(raw)]]
    if entry == 0:
        want = expect(text=S(x))
    elif entry == 1:
        want = expect(raw=x)
    elif entry == 2 and x[0] == 1:
        want = expect(raw=x[1])
        if u and want is not None:
            want = [[0, norm(S(want[0][1]).replace('\r\n', '\n').replace('\r', '\n'))]]
    else:
        return None
    if want is not None and seen != want:
        return 'the plug-in was handed %s, expected %s' % (seen, want)
    return None

def oracle_writer(arg, out):
    u, codec, entry, d, dst = arg
    enc = ENCODINGS[codec]
    if out[0] != 0:
        return None
    payload = S(d)
    if not u and (payload == '~' or '|' in payload):
        return None         # the binary probe encodes chunk by chunk: what it writes is its own business
    text = '' if payload == '~' else payload.replace('|', '')
    try:
        raw = list(text.encode(enc))
    except UnicodeEncodeError:
        return None
    if entry == 0 and out[1] != norm(text):
        return 'to_string is not what the plug-in wrote'
    if entry == 1 and out[1] != raw:
        return 'to_bytes is not the encoded document'
    if entry == 2 and dst[0] == 1:
        if out[1][1] != [[1, raw]]:
            return 'write_file did not write exactly the to_bytes bytes: %s' % (out[1][1],)
    return None

# ----------------------------------------------------------------------------------------
# known findings (known_findings.d/C17.json)
def _sig_a(kind, fn, arg, detail):
    # the YAML writer ignores its encoding: to_bytes / write_file are always UTF-8
    if kind == 'oracle' and fn == 9:
        return arg[0] == 1 and arg[1] == 1 and arg[2] != 0 and str(detail).startswith('to_bytes [yaml, ')
    if kind == 'oracle' and fn == 10:
        return arg[0] == 1 and arg[1] == 1 and arg[2] != 0 and 'to_bytes [yaml, ' in str(detail)
    return (kind == 'oracle' and fn == 7 and REAL_FORMATS[arg[1]][0] == 'yaml' and REAL_ENCODINGS[arg[2]] != 'utf-8'
            and isinstance(detail, str) and detail.startswith('to_bytes [yaml, ') and 'is not the to_string document encoded' in detail)
def _sig_b(kind, fn, arg, detail):
    # an empty document and an encoding that writes a byte-order mark: the file stays empty, to_bytes is the BOM
    if kind == 'oracle' and fn == 9:
        return arg[0] == 0 and arg[1] == 1 and arg[2] == 3 and arg[3] == 2 and arg[4] == [126] and arg[5] == [1] and 'write_file did not write exactly' in str(detail)
    if kind == 'oracle' and fn == 10:
        return (arg[0] == 0 and arg[1] == 1 and arg[2] == 3 and any(c[0] == 2 and c[1] == [126] for c in arg[3])
                and 'write_file did not write exactly' in str(detail))
    if kind == 'oracle' and fn == 5:
        # the same with the probe writer: nothing written ("~"), utf-16, a named file
        return arg[0] == 1 and arg[1] == 3 and arg[2] == 2 and arg[3] == [126] and arg[4] == [1] and 'write_file did not write exactly' in str(detail)
    return (kind == 'oracle' and fn == 7 and REAL_FORMATS[arg[1]][0] == 'bibtex' and REAL_ENCODINGS[arg[2]] == 'utf-16'
            and arg[0] == [[], []] and isinstance(detail, str) and 'differs from to_bytes' in detail and detail.startswith('W:'))
KNOWN_SIGNATURES = {'FC17a': _sig_a, 'FC17b': _sig_b}

def replay_known(finding):
    pin = finding.get('pinned')
    if not pin:
        return None
    arg = norm(pin['arg'])
    out = FUNCS[pin['fn']][1](arg)
    m = oracle(pin['fn'], arg, out)
    # "still fails" means: fails in the way the finding describes (another failure of the pinned input is a violation, reported by the streams)
    sig = KNOWN_SIGNATURES.get(finding['id'])
    return m if (m and sig and sig('oracle', pin['fn'], arg, m)) else None

# ----------------------------------------------------------------------------------------
# per-run table lemma: the installed entry points and _DEFAULT_PLUGINS of this environment are
# written out as Coq terms and Proofs/Plugins.v installed_table_ok is evaluated on them
def coq_str(x):
    return '[' + '; '.join(str(ord(c)) for c in x) + ']%N'

def generated_obligations(ck):
    table, classes = real_installed()
    lines = ['From Pybtex Require Import Base.Prelude Base.PyStr Model.Plugins Proofs.Plugins.',
             'Definition inst : eps := [',
             ';\n'.join('  ((%s, %s), %d%%N)' % (coq_str(g), coq_str(n), k) for (g, n, k) in table),
             '].',
             'Definition df : dflts := [',
             ';\n'.join('  (%s, %s)' % (coq_str(g), coq_str(d)) for g, d in defaults_table()),
             '].',
             '(* every installed suffix / alias resolves to a class that a format name resolves to as well,',
             '   and every default plug-in exists *)',
             'Lemma installed_table_ok_now : installed_table_ok inst df = true',
             '  /\\ forallb (fun gd => match find_plugin [] inst df (fst gd) NNone None with Ok _ => true | _ => false end) df = true.',
             'Proof. vm_compute. split; reflexivity. Qed.',
             'Print Assumptions installed_table_ok_now.']
    path = os.path.join(ck.rundir, 'C17Tables.v')
    with open(path, 'w') as f:
        f.write('\n'.join(lines) + '\n')
    rc, log = coqc_file(path, ck.rundir)
    ok = (rc == 0 and 'Closed under the global context' in log)
    return [{'name': 'installed_table_ok_now',
             'what': 'regenerated table of %d installed entry points and %d default plug-ins: every suffix and alias resolves (through the model of find_plugin) to a class some format name resolves to; every default exists' % (len(table), len(defaults_table())),
             'ok': ok, 'log': log}]

# ----------------------------------------------------------------------------------------
RULE = ('registry: all histories of <= 3 registrations (thorough: also <= 4 over one group, <= 5 over 6 operations) over 2 groups x {name, alias, suffix} x 2 names x force, plus all histories <= 3 over pairs differing only in case (x/X as name, alias, suffix) and over cross-kind collisions (run-time alias = installed name, run-time name = installed alias, run-time suffix = .name; forced and un-forced) '
        'against a table-driven entry_points(), each followed by a fixed probe vector of 16 look-ups, plus pinned (F11) and random/malformed histories against the real installed entry points; '
        '_open/open_raw/open_unicode: the full matrix of (first, fallback) opener outcomes x TEXMFOUTPUT x mode x file-name shapes, and of isfile x kpsewhich outcomes (a real subprocess); '
        'recorder subclasses of the real bibtex/yaml/bibtexml readers and writers (fn 9) and probe plug-ins (recording parse_stream / chunked write_stream) through every BaseParser/BaseWriter method and every module-level function x 4 codecs (utf-8, latin-1, ascii, utf-16) over fixed and random texts / byte strings incl. malformed UTF-8/UTF-16; '
        'object histories: ONE reader / writer object per shipped plug-in (recorder subclasses; and the real writers built by find_plugin(...)(encoding=...), oracle only) driven through 2-4 entry points in a row in every order (to_string, to_bytes, write_file, write_stream; parse_string, parse_bytes, parse_file, parse_stream), a different document per call, non-UTF-8 encodings; every writer call is compared with the model answer for that call alone, a reader with the accumulated data; '
        'oracle only: the three real formats x aliases x every registered suffix x 5 encodings x all reader and writer entry points over generated databases (incl. CRLF documents); '
        'open failures on the real file system through open_raw/open_unicode/to_file/write_file/parse_file. '
        'distinct = distinct (function, argument); non-trivial = a registration succeeded / an open attempt failed or fell back / a non-empty suffix / any glue case.')
EXHAUSTIVE = {
    'quick': 'registry histories: all sequences of <= 3 operations over 24 registrations; _open: all scripts of length 2 over {handle, 3 OSError kinds, OSError without strerror, foreign exception}',
    'thorough': 'registry histories: <= 3 over 24 operations, <= 4 over 12, <= 5 over 6; _open as quick',
}
TRUSTED_BASE = [
    'modelled (not verified) code: pybtex/plugin/__init__.py (all functions), pybtex/io.py _open_existing/_open_or_create/_open/open_raw/open_unicode, pybtex/kpathsea.py, BaseParser and BaseWriter methods, the module-level functions of pybtex/database/__init__.py; posixpath.splitext and posixpath.join are modelled and compared on every run',
    'the plug-ins themselves (parse_stream / write_stream of bibtex, yaml, bibtexml, and the YAML / BibTeXML overrides of the entry points) are NOT modelled: their agreement is checked by the oracle only',
    'importlib.metadata.entry_points is replaced by a table-driven function in the exhaustive registry stream (the real one is used in the random stream)',
]
ASSUMPTIONS = [
    'codec round trip: bytes.decode(str.encode(s)) == s and reading a text file gives the same (hypotheses of entry_points_agree; proved for the modelled utf-8, latin-1, ascii, utf-16 codecs; the modelled codecs are compared with CPython on every run; cp1251 is exercised by the oracle only)',
    'yaml.dump(..., encoding="UTF-8") is yaml.dump(..., encoding=None) encoded in UTF-8 (dump_consistent, hypothesis of yaml_to_bytes_partial)',
    'a plug-in parse_stream returns self.data and does not itself raise UnicodeDecodeError',
    'POSIX: os.linesep is "\\n" (text files are written without newline translation)',
]
PARTIAL = [
    'entry-point agreement is proved for BaseParser/BaseWriter, the module-level functions and the dispatch of the three shipped plug-ins (stream kind, overrides, XML declaration / encoding hand-over) over abstract bodies; the bodies themselves (BibTeX grammar, yaml.load/dump, ElementTree, tree walkers) are covered end to end by the oracle only',
    'parse_file of a named file reads with universal newlines: the theorem relates it to parse_string of the newline-normalised text (equal when the text has no CR)',
    'write_file_writes_to_bytes is refuted as stated (FC17b); write_file_writes_to_bytes_partial needs "something was written or the empty text encodes to nothing"',
    'codec round trip is proved for the four modelled codecs utf-8, latin-1, ascii, utf-16 (utf8_roundtrip, utf16_roundtrip, modelled_entry_points_agree); for other encodings it is a hypothesis of entry_points_agree',
]

def describe(fn, arg):
    try:
        if fn == 1:
            def dc(c):
                if c[0] == 0:
                    return 'register(%s, %r, K%d, force=%s)' % (S(c[1]), S(c[2]), c[3], bool(c[4]))
                if c[0] == 1:
                    nm = None if not c[2] else (S(c[2][1]) if c[2][0] == 0 else 'class %d' % c[2][1])
                    return 'find(%s, %r, filename=%r)' % (S(c[1]), nm, S(c[3][0]) if c[3] else None)
                return 'enumerate(%s)' % S(c[1])
            return {'installed': 'fake table' if arg[0] == 0 else 'real entry points', 'calls': [dc(c) for c in arg[1]]}
        if fn == 2:
            return {'path': S(arg)}
        if fn == 3:
            return {'script': arg[0], 'target': S(arg[1][1]) if arg[1][0] == 1 else 'file object', 'mode': S(arg[2]),
                    'TEXMFOUTPUT': S(arg[4][0]) if arg[4] else None, 'isfile': arg[5], 'kpsewhich': arg[6], 'api': ['_open', 'open_raw', 'open_unicode'][arg[7]]}
        if fn == 7:
            return {'format': REAL_FORMATS[arg[1]][0], 'encoding': REAL_ENCODINGS[arg[2]], 'crlf': arg[3],
                    'preamble': [S(p) for p in arg[0][0]],
                    'entries': [{'key': S(k), 'type': S(t), 'fields': [(S(a), S(b)) for a, b in f], 'persons': [(S(r), [S(n) for n in ns]) for r, ns in p]} for (k, t, f, p) in arg[0][1]]}
    except Exception:
        pass
    return {'fn': fn, 'arg': arg}

def nontrivial(fn, arg, out):
    if fn == 1:
        return any(o == [0, [0, 1]] for o in out)
    if fn == 3:
        return out[0][0] != 0 or len(out[1]) > 1
    if fn == 2:
        return len(out[1]) > 0
    return True

# ----------------------------------------------------------------------------------------
# generators
def reg(g, n, k, force):
    return [0, g, n, k, 1 if force else 0]
def find(g, name=None, filename=None, klass=None):
    nm = [] if (name is None and klass is None) else ([0, name] if klass is None else [1, klass])
    return [1, g, nm, [filename] if filename is not None else []]
def enum(g):
    return [2, g]

def probe_vector(groups):
    v = []
    for g in groups:
        v += [find(g, 'x'), find(g, 'i'), find(g, 'ia'), find(g, None, 'f.x'), find(g, None, 'd.x/f.i'), find(g), enum(g), enum(g + '.aliases'),
              find(g, 'X'), find(g, 'I'), find(g, 'IA'), find(g, None, 'f.X'), find(g, None, 'F.x'), find(g, None, 'f.I'),
              find(g, 'bibtex'), find(g, 'latex'), find(g, None, 'f.bibtex'), find(g, None, 'f.latex'), enum(g + '.suffixes')]
    return v

def reg_alphabet(groups, names=(0, 1)):
    ops = []
    for g in groups:
        for kind, pool in (('', ['x', 'i']), ('.aliases', ['x', 'ia']), ('.suffixes', ['.x', '.i'])):
            for ni in names:
                for force in (0, 1):
                    ops.append((g + kind, pool[ni], force))
    return ops

def gen_registry(tier, rng):
    groups = [G_IN, G_BACK]
    pv = probe_vector(groups)
    if tier == 'thorough':
        plans = [(reg_alphabet(groups), 3), (reg_alphabet([G_IN]), 4), (reg_alphabet([G_IN], names=(0,)), 5)]
    else:
        # quick: cross-group interplay up to length 2, one group up to length 3
        plans = [(reg_alphabet(groups), 2), (reg_alphabet([G_IN]), 3)]
    # pairs that differ only in case, registered to different classes: ('x', 'X') as name, alias and suffix
    case_ops = [(G_IN + kind, nm, force) for kind, pool in (('', ['x', 'X']), ('.aliases', ['x', 'X']), ('.suffixes', ['.x', '.X', '.I']))
                for nm in pool for force in (0, 1)]
    plans.append((case_ops, 3))
    # cross-kind collisions: a key installed as ONE kind registered at run time as ANOTHER kind
    # ('bibtex' / 'latex': installed names, no alias of that spelling; 'ia': installed alias, no such name)
    cross_ops = []
    for g, nm in ((G_IN, 'bibtex'), (G_BACK, 'latex')):
        for grp, key in ((g + '.aliases', nm), (g, 'ia'), (g + '.suffixes', '.' + nm), (g, nm), (g + '.aliases', 'ia')):
            for force in (0, 1):
                cross_ops.append((grp, key, force))
    plans.append(([o for o in cross_ops if o[0].startswith(G_IN)], 3))
    plans.append((cross_ops, 2))
    seen = set()
    for alphabet, maxlen in plans:
        for n in range(0, maxlen + 1):
            for seq in itertools.product(alphabet, repeat=n):
                if seq in seen:
                    continue
                seen.add(seq)
                calls = [reg(g, nm, i + 1, f) for i, (g, nm, f) in enumerate(seq)]
                yield ('registry_exhaustive', 1, [0, calls + pv])
    # pinned: F11 (both halves), None as a class, the assertion in PluginNotFound
    pinned = [
        [reg(G_IN + '.aliases', 'al', 1, 0), find(G_IN, 'al')],
        [reg(G_IN, 'x', 1, 0), reg(G_IN, 'x', 2, 0), find(G_IN, 'x')],
        [reg(G_IN + '.suffixes', '.x', 1, 0), reg(G_IN + '.suffixes', '.x', 2, 0), find(G_IN, None, 'a.x')],
        [reg(G_IN, 'x', 0, 1), find(G_IN, 'x'), reg(G_IN, 'bibtex', 0, 1), find(G_IN, 'bibtex'), enum(G_IN)],
        [find(G_IN, '.x'), find(G_IN, None, 'a'), find(G_IN, ''), find(G_IN, '', ''), find('nogroup', 'x'), find('nogroup', None, None, 3)],
        [reg(G_IN + '.suffixes', 'x', 1, 0), reg('nogroup', 'x', 1, 0), reg('nogroup.suffixes', 'x', 1, 0), reg('.suffixes', '.x', 1, 1), reg('.aliases', 'x', 1, 1)],
        [reg(G_IN + '.aliases', 'x', 1, 0), reg(G_IN, 'x', 2, 0), find(G_IN, 'x')],
        # a run-time ALIAS spelled like an installed NAME must not shadow it (names win over aliases whichever side registered them)
        [reg(G_IN + '.aliases', 'bibtex', 1, 0), find(G_IN, 'bibtex'), find(G_IN), find(G_IN, None, 'a.bib'), reg(G_IN + '.aliases', 'bibtex', 2, 1), find(G_IN, 'bibtex'),
         reg(G_OUT + '.aliases', 'yaml', 3, 0), find(G_OUT, 'yaml'), reg(G_BACK + '.aliases', 'latex', 1, 1), find(G_BACK, 'latex'), find(G_BACK)],
        # a run-time NAME spelled like an installed ALIAS does shadow it; a run-time suffix '.bibtex' is just a suffix
        [reg(G_IN, 'bibyaml', 1, 0), find(G_IN, 'bibyaml'), reg(G_BACK, 'md', 2, 0), find(G_BACK, 'md'), reg(G_IN + '.suffixes', '.bibtex', 3, 0), find(G_IN, None, 'a.bibtex'), find(G_IN, 'bibtex'),
         reg(G_IN, 'ia', 1, 0), find(G_IN, 'ia')],
        # case: '.REF' and '.ref' are different suffixes, 'Bib' and 'bib' different names
        [reg(G_IN + '.suffixes', '.REF', 1, 0), find(G_IN, None, 'a.REF'), find(G_IN, None, 'a.ref'), reg(G_IN + '.suffixes', '.ref', 2, 0),
         find(G_IN, None, 'a.REF'), find(G_IN, None, 'a.ref'), find(G_IN, None, 'a.Ref'), reg(G_IN + '.suffixes', '.REF', 3, 1), find(G_IN, None, 'a.REF'), find(G_IN, None, 'a.ref')],
        [reg(G_IN, 'Bib', 1, 0), reg(G_IN, 'bib', 2, 0), find(G_IN, 'Bib'), find(G_IN, 'bib'), find(G_IN, 'BIB'), reg(G_IN + '.aliases', 'AL', 3, 0), find(G_IN, 'AL'), find(G_IN, 'al'),
         find(G_IN, 'BibTeX'), find(G_IN, 'BIBTEX'), find(G_IN, None, 'a.BIB'), find(G_IN, None, 'a.Bib'), enum(G_IN)],
    ]
    for mode in (0, 1):
        for calls in pinned:
            yield ('registry_pinned', 1, [mode, calls])
    # random / malformed histories against the real installed entry points (and the fake table)
    real_names = {G_IN: ['bibtex', 'yaml', 'bibyaml', 'bibtexml', 'BibTeX', 'YAML'], G_OUT: ['bibtex', 'yaml', 'bibyaml', 'Bibtex'], G_BACK: ['latex', 'md', 'text', 'html', 'LaTeX', 'MD'],
                  'pybtex.style.names': ['plain', 'last_first', 'lastfirst', 'Plain']}
    sfxs = ['.bib', '.yaml', '.xml', '.md', '.x', '.y', '', '.', '..', 'x', '.X', '.BIB', '.Bib', '.Ref', '.REF', '.ref', '.Yaml']
    fnames = ['a.bib', 'dir.x/a', 'a.x', '.x', 'a.b.x', '..x', 'a.', 'd/.bib', 'd/..x', '', 'a.yaml', 'x/y.z/w.md', '...', 'a/b', 'a..x',
              'a.X', 'A.x', 'a.BIB', 'a.Bib', 'a.REF', 'a.ref', 'a.Ref', 'd.X/f.y', 'a.Yaml', 'A.MD']
    n = 150 if tier == 'quick' else 1500
    for i in range(n):
        mode = 1 if i % 3 else 0
        calls = []
        for _ in range(rng.randint(1, 7)):
            g = rng.choice([G_IN, G_IN, G_OUT, G_BACK, 'pybtex.style.names', 'nogroup', ''])
            kind = rng.choice(['', '', '.aliases', '.suffixes', '.suffixes.aliases', '.aliases.suffixes'])
            r = rng.random()
            if r < 0.45:
                pool = (real_names.get(g, []) + ['x', 'y', 'i', 'ia', 'X', 'I']) if kind != '.suffixes' else sfxs + ['.' + n for n in real_names.get(g, [])[:3]]
                if rng.random() < 0.1:
                    pool = sfxs + ['', '.x']
                calls.append(reg(g + kind, rng.choice(pool), rng.choice([0, 1, 1, 2, 3]), rng.random() < 0.3))
            elif r < 0.9:
                q = rng.random()
                if q < 0.5:
                    calls.append(find(g, rng.choice(real_names.get(g, []) + ['x', 'y', 'i', 'ia', '.x', '', 'X', 'I', 'IA'])))
                elif q < 0.85:
                    calls.append(find(g, rng.choice([None, None, '']), rng.choice(fnames)))
                elif q < 0.95:
                    calls.append(find(g))
                else:
                    calls.append(find(g, None, None, rng.choice([1, 2])))
            else:
                calls.append(enum(g + rng.choice(['', '.aliases', '.suffixes'])))
        yield ('registry_random', 1, [mode, calls])

def gen_splitext(tier, rng):
    alpha = 'a./'
    for n in range(0, 7 if tier == 'quick' else 9):
        for t in itertools.product(alpha, repeat=n):
            yield ('splitext_exhaustive', 2, ''.join(t))

def gen_open(tier, rng):
    H1, H2 = [0, 1], [0, 2]
    errs = [[1, ['No such file or directory']], [1, ['Permission denied']], [1, ['Is a directory']], [1, []], [1, ['weird x.bib']]]
    outcomes = [H1] + errs + [[2]]
    outcomes2 = [H2] + errs[:2] + [[2]]
    names = ['x.bib', 'sub/x.bib', '/nonexistent-c17/x.bib', 'a b.aux', './x.bib']
    texs = [[], ['tex'], ['tex/'], [''], ['/abs']]
    kp_none = [0, ['No such file or directory']]
    # write matrix
    for o1 in outcomes:
        for o2 in outcomes2:
            for tex in texs:
                for name in names:
                    for (mode, which, enc) in (('w', 0, []), ('wb', 1, ['latin-1']), ('w', 2, []), ('w', 2, ['utf-16']), ('w+', 0, ['ascii'])):
                        if tier == 'quick' and name in ('a b.aux', './x.bib') and which == 0 and mode == 'w+':
                            continue
                        yield ('open_write_matrix', 3, [[o1, o2], [1, name], mode, enc, tex, 0, kp_none, which])
    # read matrix (kpsewhich is a real subprocess: fewer cases)
    kps = [kp_none, [0, []], [1, 0, 'found/located.bib\n'], [1, 0, 'found/located.bib \t\r\n'], [1, 1, 'found/located.bib\n'], [1, 0, ''], [1, 0, ' \n'],
           [1, 2, ''], [1, 0, 'found/a b.bib\n'], [1, 0, ' lead.bib']]
    for o1 in outcomes:
        for isfile in (0, 1):
            for kp in kps:
                if kp[0] == 0 and kp[1] == []:
                    continue      # a Popen failure without strerror cannot be produced
                for (mode, which, enc, name) in (('r', 0, [], 'x.bib'), ('rb', 1, [], 'sub/x.bib'), ('r', 2, ['latin-1'], 'x.bib'), ('r', 2, [], '/nonexistent-c17/x.bib'), ('a', 0, [], 'x.bib'), ('x', 1, [], 'x.bib')):
                    if name.startswith('/') and isfile:
                        continue
                    # (existing file x every kpsewhich outcome stays in the quick tier: kpsewhich must NOT be
                    #  consulted there -- an existing file that cannot be opened is an error, not a reason to look elsewhere)
                    yield ('open_read_matrix', 3, [[o1, H2], [1, name], mode, enc, [], isfile, kp, which])
    # file objects are passed through
    for mode in ('r', 'w', 'wb'):
        for which in (0, 1, 2):
            yield ('open_fileobject', 3, [[H1], [0, 7], mode, [], ['tex'], 0, kp_none, which])

TEXTS = ['', 'abc', 'café', 'a\r\nb\rc\n', 'Ж€', '!err', '?crash', '\ud800', '\U0001F600 x', 'x\n', '\r', 'ÿĀ', '\x7f\x80', '~', 'a|b', '|', 'é||€', '~|', '\ufeffx']
RAWS = [b'\xff\xfea\x00', b'\xfe\xff\x00a', b'a\x00\xe9\x00', b'a', b'\x00\xd8', b'\x3d\xd8\x00\xde', b'\xff\xfe\x00\xdc', b'\xff\xfe\xff\xfe', b'', b'abc', b'caf\xc3\xa9', b'caf\xe9', b'\xff\xfe', b'a\r\nb', b'!e', b'?c', b'\xe2\x82\xac', b'\xc0\x80', b'\xed\xa0\x80', b'\xf0\x9f\x98\x80', b'\xf4\x90\x80\x80', b'\xe2\x82', b'\r\r\n']

def gen_glue(tier, rng):
    rnd_texts = list(TEXTS)
    rnd_raws = list(RAWS)
    n = 60 if tier == 'quick' else 600
    pool = 'ab \r\n!?éÿĀ€\U0001F600\ud800|~'
    for _ in range(n):
        rnd_texts.append(''.join(rng.choice(pool) for _ in range(rng.randint(0, 6))))
        rnd_raws.append(bytes(rng.choice([97, 13, 10, 33, 0x80, 0xbf, 0xc2, 0xc3, 0xa9, 0xe0, 0xe2, 0x82, 0xac, 0xed, 0xa0, 0xf0, 0x9f, 0xf4, 0x8f, 0x90, 0xff]) for _ in range(rng.randint(0, 5))))
    for u in (0, 1):
        for codec in (0, 1, 2, 3):
            for t in rnd_texts:
                yield ('reader_glue', 4, [u, codec, 0, t])
                yield ('reader_glue', 4, [u, codec, 2, [0, [0, t]]])
                yield ('writer_glue', 5, [u, codec, 0, t, []])
                yield ('writer_glue', 5, [u, codec, 1, t, []])
                for dst in ([0, 1], [0, 0], [1], [2]):
                    if '\ud800' in t and dst == [1]:
                        pass
                    yield ('writer_glue', 5, [u, codec, 2, t, dst])
            for b in rnd_raws:
                b = list(b)
                yield ('reader_glue', 4, [u, codec, 1, b])
                yield ('reader_glue', 4, [u, codec, 2, [1, b]])
                yield ('reader_glue', 4, [u, codec, 2, [0, [1, b]]])
            yield ('reader_glue', 4, [u, codec, 2, [2]])
            for _ in range(10 if tier == 'quick' else 60):
                fs = []
                for _ in range(rng.randint(0, 4)):
                    r = rng.random()
                    fs.append([1, list(rng.choice(rnd_raws))] if r < 0.7 else [2] if r < 0.8 else [0, [1, list(rng.choice(rnd_raws))]] if r < 0.9 else [0, [0, rng.choice(rnd_texts)]])
                yield ('reader_glue', 4, [u, codec, 3, fs])

def gen_module(tier, rng):
    setups = [
        [],
        [reg(G_IN, 'rt', 1, 0), reg(G_OUT, 'rt', 2, 0)],
        [reg(G_IN + '.aliases', 'rta', 2, 0), reg(G_OUT + '.aliases', 'rta', 1, 0)],
        [reg(G_IN + '.suffixes', '.rt', 2, 0), reg(G_OUT + '.suffixes', '.rt', 2, 0), reg(G_IN + '.suffixes', '.pt', 2, 0), reg(G_OUT + '.suffixes', '.pt', 2, 1)],
        [reg(G_IN, 'bibtex', 2, 1), reg(G_OUT, 'bibtex', 2, 1)],
        [reg(G_IN + '.suffixes', '.RT', 1, 0), reg(G_OUT + '.suffixes', '.RT', 1, 0), reg(G_IN + '.suffixes', '.rt', 2, 0), reg(G_OUT + '.suffixes', '.rt', 2, 0),
         reg(G_IN, 'RT', 2, 0), reg(G_OUT, 'RT', 2, 0), reg(G_IN, 'rt', 1, 0), reg(G_OUT, 'rt', 1, 0)],
    ]
    fmts = [[], [0, 'bibtex'], [0, 'pb'], [0, 'pta'], [0, 'rt'], [0, 'rta'], [0, 'nope'], [1, 1], [1, 2], [0, ''], [0, 'RT'], [0, 'PB'], [0, 'Bibtex']]
    fnames = [[], ['f.pt'], ['f.pb'], ['f.rt'], ['f.zz'], ['f'], ['f.RT'], ['f.Rt'], ['f.PT'], ['F.pt'], ['.pt'], ['f.'], ['d.pt/f']]
    payloads = ['abc', 'café \r\n x', '!e']
    for setup in setups:
        for fmt in fmts:
            combos = [(0, 'abc'), (1, 'café \r\n x'), (0, '!e')] if tier == 'quick' else [(c, t) for c in (0, 1, 2, 3) for t in payloads]
            for codec, t in combos:
                if True:
                    yield ('module_level', 6, [setup, codec, 0, fmt, t, [], []])
                    yield ('module_level', 6, [setup, codec, 3, fmt, t, [], []])
                    yield ('module_level', 6, [setup, codec, 4, fmt, t, [], []])
                    try:
                        raw = list(t.encode(ENCODINGS[codec]))
                    except UnicodeEncodeError:
                        raw = list(t.encode('utf-8'))
                    yield ('module_level', 6, [setup, codec, 1, fmt, raw, [], []])
                    for fname in fnames:
                        if fname:       # a named file has a name
                            yield ('module_level', 6, [setup, codec, 2, fmt, [1, raw], fname, []])
                            yield ('module_level', 6, [setup, codec, 5, fmt, t, fname, [1]])
                        if t == 'abc':
                            yield ('module_level', 6, [setup, codec, 2, fmt, [0, [0, t]], fname, []])
                            yield ('module_level', 6, [setup, codec, 2, fmt, [0, [1, raw]], fname, []])
                            yield ('module_level', 6, [setup, codec, 5, fmt, t, fname, [0, 1]])
                            yield ('module_level', 6, [setup, codec, 5, fmt, t, fname, [0, 0]])
                            if fname:
                                yield ('module_level', 6, [setup, codec, 2, fmt, [2], fname, []])
                                yield ('module_level', 6, [setup, codec, 5, fmt, t, fname, [2]])

WORDS = ['Title', 'café', 'naïve', 'Жук', '€', 'a b', 'x', 'Proc.', '{B}races', 'Müller', 'line\r\nbreak', 'tab\there', '中']
def gen_real(tier, rng):
    def word(level):
        pool = WORDS[:1] + WORDS[5:9] if level == 0 else WORDS[:3] + WORDS[5:10] if level == 1 else WORDS
        return rng.choice(pool)
    def value(level):
        return ' '.join(word(level) for _ in range(rng.randint(1, 3)))
    n = 14 if tier == 'quick' else 120
    specs = [[[], []], [['pre'], [['k', 'misc', [], []]]]]
    for i in range(n):
        level = i % 3
        entries = []
        for e in range(rng.randint(1, 3)):
            key = 'k%d' % e + (rng.choice(['', 'é', '-x']) if level else '')
            fields = [[rng.choice(['title', 'year', 'note', 'Journal']) + ('' if f == 0 else str(f)), value(level)] for f in range(rng.randint(0, 3))]
            persons = []
            if rng.random() < 0.7:
                persons.append(['author', [rng.choice(['Knuth, Donald E.', 'Müller, Hans' if level else 'Muller, Hans', 'de la Vallée Poussin, Charles' if level else 'de la Vallee Poussin, Charles', 'Smith, Jr, John']) for _ in range(rng.randint(1, 2))]])
            if rng.random() < 0.2:
                persons.append(['editor', ['Ed, A.']])
            entries.append([key, rng.choice(['article', 'book', 'Misc']), fields, persons])
        pre = [value(level)] if rng.random() < 0.3 else []
        specs.append([pre, entries])
    for spec in specs:
        for fmt_i in range(3):
            for enc_i in range(len(REAL_ENCODINGS)):
                for crlf in ((0, 1) if fmt_i == 0 else (0,)):
                    yield ('real_plugins', 7, [spec, fmt_i, enc_i, crlf])

def gen_fs(tier, rng):
    for api in (0, 1, 2, 3):
        for first_ok in (0, 1):
            for texmf in (0, 1):
                for fb in (0, 1):
                    yield ('fs_write', 8, [api, first_ok, texmf, fb])
    for api in (4, 5, 6, 7):
        for isfile in (0, 1):
            for kp in (0, 1, 2, 3, 4):
                yield ('fs_read', 8, [api, isfile, kp])

def gen(tier, rng):
    sandbox()
    for g in (gen_registry, gen_splitext, gen_open, gen_glue, gen_module, gen_dispatch, gen_history, gen_real_history, gen_real, gen_fs):
        for c in g(tier, rng):
            yield c
