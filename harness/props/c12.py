# C12 -- brace- and special-character-aware string primitives.
# Model: coq/Model/BibtexStr.v; theorems: coq/Props/C12.v
import itertools, random
from core import *

ID = 'C12'
SEPS = [None, ',', '-', ' [Aa][Nn][Dd] ']

def _u():
    from pybtex.bibtex import utils
    return utils

def impl_scan(a):
    return call_impl(lambda s: [[t, l] for t, l in _u().scan_bibtex_string(s)], S(a[0]))
def impl_len(a): return call_impl(_u().bibtex_len, S(a[0]))
def impl_prefix(a): return call_impl(_u().bibtex_prefix, S(a[0]), a[1])
def impl_substring(a): return call_impl(_u().bibtex_substring, S(a[0]), a[1], a[2])
def impl_purify(a): return call_impl(_u().bibtex_purify, S(a[0]))
def impl_change_case(a): return call_impl(_u().change_case, S(a[0]), 'lut'[a[1]])
def impl_width(a): return call_impl(_u().bibtex_width, S(a[0]))
def impl_fcb(a): return call_impl(lambda s: list(_u()._find_closing_brace(s)), S(a[0]))
def impl_split(a):
    return call_impl(lambda: _u().split_tex_string(S(a[0]), SEPS[a[1]], strip=bool(a[2]), filter_empty=bool(a[3])))
def impl_first_letter(a): return call_impl(_u().bibtex_first_letter, S(a[0]))
def impl_abbreviate(a): return call_impl(_u().bibtex_abbreviate, S(a[0]), S(a[1][0]) if a[1] else None)

FUNCS = {
    1: ('scan_bibtex_string', impl_scan, ('T', 'S')),
    2: ('bibtex_len', impl_len, ('T', 'S')),
    3: ('bibtex_prefix', impl_prefix, ('T', 'S', 'I')),
    4: ('bibtex_substring', impl_substring, ('T', 'S', 'I', 'I')),
    5: ('bibtex_purify', impl_purify, ('T', 'S')),
    6: ('change_case', impl_change_case, ('T', 'S', 'X')),
    7: ('bibtex_width', impl_width, ('T', 'S')),
    8: ('_find_closing_brace', impl_fcb, ('T', 'S')),
    9: ('split_tex_string', impl_split, ('T', 'S', 'X', 'B', 'B')),
    10: ('bibtex_first_letter', impl_first_letter, ('T', 'S')),
    11: ('bibtex_abbreviate', impl_abbreviate, ('T', 'S', ('O', 'S'))),
}

ALPHA = 'aB1 ~-{}\\,:'
RULE = ('exhaustive: every string over the 11-letter alphabet {a B 1 space ~ - { } \\ , :} up to the length bound, each given to every '
        'function (with every start/length/count in [-(n+2), n+2], every mode letter, the four separators x strip x filter_empty); '
        'random: long strings over a wider alphabet (letters, digits, all Python whitespace, TeX punctuation), special characters, nesting to depth 105. '
        'distinct = distinct (function, argument); non-trivial = the string contains a brace or a backslash and the call succeeded.')
EXHAUSTIVE = {'quick': 'all strings of length <= 3 (plus a seeded 25% sample of length 4) over an 11-letter alphabet x all functions x all integer arguments in [-(n+2), n+2]',
              'thorough': 'all strings of length <= 5 over an 11-letter alphabet x all functions x all integer arguments in [-(n+2), n+2]'}
TRUSTED_BASE = ['modelled (not verified) code: pybtex/bibtex/utils.py lines 96-604 (everything except wrap, which is C19)',
                'regular expressions BIBTEX_SPACE_RE, BRACE_RE, purify_special_char_re and the separators are hand-written matchers, compared with the live re objects through the functions that use them on the exhaustive stream']
ASSUMPTIONS = ['letter/digit classes and case mapping are modelled on ASCII; non-ASCII letters are outside the claimed domain (DESIGN.md 2.2)']
PARTIAL = []

def describe(fn, a):
    d = {'function': FUNCS[fn][0], 'string': S(a[0])}
    if len(a) > 1:
        d['args'] = a[1:]
    return d

def nontrivial(fn, a, out):
    return out[0] == 0 and any(c in (123, 125, 92) for c in a[0])

def cw_for(s):
    from pybtex.charwidths import charwidths
    return [[ord(c), charwidths.get(c, 0)] for c in sorted(set(s) | {'{', '}'})]

def model_arg(fn, a):
    # the charwidths table is data: regenerated from /repo on every run and passed to the model
    if fn == 7:
        return [a[0], cw_for(S(a[0]))]
    return a

def cases_for(s, full=True):
    n = len(s)
    yield (1, [s]); yield (2, [s]); yield (5, [s]); yield (8, [s]); yield (10, [s])
    yield (7, [s])
    for m in range(3):
        yield (6, [s, m])
    rng_ = range(-(n + 2), n + 3) if full else [-(n + 1), -1, 0, 1, 2, n, n + 1]
    for k in rng_:
        yield (3, [s, k])
    for st in rng_:
        for ln in rng_:
            yield (4, [s, st, ln])
    for sep in range(4):
        for strip in (0, 1):
            for fe in (0, 1):
                yield (9, [s, sep, strip, fe])
    yield (11, [s, []]); yield (11, [s, ['.']]); yield (11, [s, ['']])

WIDE = 'abcXYZ019 \t\n\xa0~-{}\\,:;.!?\'"`^$&%#_@()[]=+*/|<> andAND'
def rand_string(rng):
    k = rng.random()
    if k < 0.15:
        d = rng.choice([3, 50, 99, 100, 101, 105])
        return '{' * d + rng.choice(['x', '\\a', '']) + '}' * rng.choice([d, d, d - 1, 0])
    parts = []
    for _ in range(rng.randint(0, 12)):
        r = rng.random()
        if r < 0.25:
            parts.append('{\\' + rng.choice(["'e", 'ss', 'TeX book', '"{o}', 'v S', 'i', '', 'noopsort{1973b}', 'a B']) + rng.choice(['}', '}', '']))
        elif r < 0.4:
            parts.append('{' + ''.join(rng.choice(WIDE) for _ in range(rng.randint(0, 6))) + rng.choice(['}', '}', '}', '']))
        elif r < 0.5:
            parts.append(rng.choice([' and ', ' AND ', ' And ', '\\ ', '\\~', '~', ', ', '-', '--', ': ', '}', '{']))
        else:
            parts.append(''.join(rng.choice(WIDE) for _ in range(rng.randint(1, 8))))
    return ''.join(parts)

def gen(tier, rng):
    maxlen = 4 if tier == 'quick' else 5
    for n in range(0, maxlen + 1):
        for tup in itertools.product(ALPHA, repeat=n):
            s = ''.join(tup)
            if tier == 'quick' and n == 4 and rng.random() > 0.25:
                continue
            for fn, a in cases_for(s, full=(n <= 3 or tier != 'quick')):
                yield ('exhaustive', fn, a)
    for s in ['', 'abc', 'a{b}c', '{\\', '{\\}', '{\\a', '{a', '}', '}{', 'ab{\\cd', "de la Vall{\\'e}e Poussin", '\\ ', 'a\\ b', 'a\\~b', 'a~b',
              'What a Strange{ }and Bizzare Name! and Peterson', 'Jean--Pierre', '{\\TeX\\ and databases\\Dash\\TeX DBI}', 'And Now: BOOO!!!',
              '{\\noopsort{1973a}}{\\switchargs{--90}{1968}}', 'a{b{c', 'a}b}c', '{{\\a}}', 'x: y: {\\Z z} {Z}']:
        for fn, a in cases_for(s):
            yield ('pinned', fn, a)
    for i in range(800 if tier == 'quick' else 30000):
        s = rand_string(rng)
        for fn, a in cases_for(s, full=False):
            yield ('random', fn, a)
