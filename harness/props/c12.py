# C12 -- brace- and special-character-aware string primitives.
# Model: coq/Model/BibtexStr.v; spec: coq/Spec/BibtexStrSpec.v; theorems: coq/Props/C12.v
import itertools, random, re, json, os
from core import *

ID = 'C12'
SEPS = [None, ',', '-', ' [Aa][Nn][Dd] ']

def _u():
    from pybtex.bibtex import utils
    return utils

def impl_scan(a):
    return call_impl(lambda s: [[t, l] for t, l in _u().scan_bibtex_string(s)], S(a[0]))
def impl_len(a): return call_impl(_u().bibtex_len, S(a[0]))
def impl_prefix(a): return call_impl(_u().bibtex_prefix, S(a[0]), a[1])
def impl_substring(a): return call_impl(_u().bibtex_substring, S(a[0]), a[1], a[2])
def impl_purify(a): return call_impl(_u().bibtex_purify, S(a[0]))
def impl_change_case(a): return call_impl(_u().change_case, S(a[0]), 'lut'[a[1]])
def impl_width(a): return call_impl(_u().bibtex_width, S(a[0]))
def impl_fcb(a): return call_impl(lambda s: list(_u()._find_closing_brace(s)), S(a[0]))
def impl_split(a):
    return call_impl(lambda: _u().split_tex_string(S(a[0]), SEPS[a[1]], strip=bool(a[2]), filter_empty=bool(a[3])))
def impl_first_letter(a): return call_impl(_u().bibtex_first_letter, S(a[0]))
def impl_abbreviate(a): return call_impl(_u().bibtex_abbreviate, S(a[0]), S(a[1][0]) if a[1] else None)

BST = ['substring$', 'text.prefix$', 'text.length$', 'purify$', 'change.case$', 'width$', 'num.names$']
def impl_bst(a):
    """the same primitives as a .bst program reaches them: operands pushed in BST order on the
    real interpreter's stack, the real builtin executed, the result popped"""
    def run():
        from pybtex.bibtex.interpreter import Interpreter
        from pybtex.bibtex.builtins import builtins
        it = Interpreter(None, None)
        k = a[0]
        it.push(S(a[1]))
        if k == 0:
            it.push(a[2]); it.push(a[3])
        elif k == 1:
            it.push(a[2])
        elif k == 4:
            it.push(S(a[4]))
        builtins[BST[k]].execute(it)
        r = it.pop()
        if it.stack:
            raise RuntimeError('builtin left %d extra values on the stack' % len(it.stack))
        return r
    return call_impl(run)

def impl_pattern(a):
    """the live module-level regex objects (and the separator literal of split_name_list)"""
    import re as _re
    u = _u(); k = a[0]; s = S(a[1])
    if k == 0:
        return norm(u.BIBTEX_SPACE_RE.split(s))
    if k == 1:
        return norm(u.purify_special_char_re.sub('', s))
    if k == 2:
        return norm(_re.compile(' [Aa][Nn][Dd] ').split(s))
    return norm(list(u._find_closing_brace(s)))

FUNCS = {
    1: ('scan_bibtex_string', impl_scan, ('T', 'S')),
    2: ('bibtex_len', impl_len, ('T', 'S')),
    3: ('bibtex_prefix', impl_prefix, ('T', 'S', 'I')),
    4: ('bibtex_substring', impl_substring, ('T', 'S', 'I', 'I')),
    5: ('bibtex_purify', impl_purify, ('T', 'S')),
    6: ('change_case', impl_change_case, ('T', 'S', 'X')),
    7: ('bibtex_width', impl_width, ('T', 'S')),
    8: ('_find_closing_brace', impl_fcb, ('T', 'S')),
    9: ('split_tex_string', impl_split, ('T', 'S', 'X', 'X', 'X')),
    10: ('bibtex_first_letter', impl_first_letter, ('T', 'S')),
    11: ('bibtex_abbreviate', impl_abbreviate, ('T', 'S', ('O', 'S'))),
    13: ('regex objects BIBTEX_SPACE_RE / purify_special_char_re / name-list separator', impl_pattern, ('T', 'X', 'S')),
    12: ('BST builtins substring$/text.prefix$/text.length$/purify$/change.case$/width$/num.names$', impl_bst, ('T', 'X', 'S', 'I', 'I', 'X')),
}

ALPHA = 'aB1 ~-{}\\,:'
RULE = ('exhaustive: every string over the 11-letter alphabet {a B 1 space ~ - { } \\ , :} up to the length bound, each given to every '
        'function (with every start/length/count in [-(n+2), n+2], every mode letter, the four separators x strip x filter_empty) and to the BST builtins; '
        'random: long strings over a wider alphabet (letters, digits, all Python whitespace, TeX punctuation), special characters, nesting to depth 105; '
        'malformed: token-level delete/duplicate/replace/truncate of the random strings; pattern_sweep: BIBTEX_SPACE_RE.split, purify_special_char_re.sub and the name-list separator against the hand-written matchers on all strings up to length 5/6 over per-pattern alphabets. '
        'distinct = distinct (function, argument); non-trivial = the string contains a brace or a backslash and the call succeeded.')
EXHAUSTIVE = {'quick': 'all strings of length <= 3 over an 11-letter alphabet x all functions x all integer arguments in [-(n+2), n+2] (plus a seeded 15 % sample of length 4 with boundary integer arguments)',
              'thorough': 'all strings of length <= 3 over an 11-letter alphabet x all functions x all integer arguments in [-(n+2), n+2]; all strings of length 4 and a seeded 2 % sample of length 5 with boundary integer arguments (memory bound: the harness keeps every case in memory, ~1.2 kB per case)'}
TRUSTED_BASE = ['modelled (not verified) code: pybtex/bibtex/utils.py lines 96-604 (everything except wrap, which is C19) and the seven builtins of pybtex/bibtex/builtins.py that call it',
                'regular expressions BIBTEX_SPACE_RE, BRACE_RE, purify_special_char_re and the separators are hand-written matchers, compared with the live re objects through the functions that use them on the exhaustive stream']
ASSUMPTIONS = ['letter/digit classes and case mapping are modelled on ASCII; non-ASCII letters are outside the claimed domain (DESIGN.md 2.2)']
PARTIAL = [
    'change_case_idem is proved for every string that does not end inside a never-closed special character and refuted otherwise (change_case_idem_refuted); change_case_length_all is exact for every string',
    'split_name_list / split_tex_string: that EVERY top-level separator occurrence is a split point (maximality of re.split) is not proved; it is covered by the correspondence only (the property text does not state it)',
    'the separator regexes are hand-written matchers; agreement with the live re objects is tested (pattern sweep + through split_tex_string), not proved',
    'letter classes are ASCII in the model (DESIGN.md 2.2)',
]

def describe(fn, a):
    if fn == 13:
        return {'pattern': ['BIBTEX_SPACE_RE.split', 'purify_special_char_re.sub', "' [Aa][Nn][Dd] '.split", '_find_closing_brace'][a[0]], 'string': S(a[1])}
    if fn == 12:
        return {'function': BST[a[0]], 'string': S(a[1]), 'args': [a[2], a[3], S(a[4])]}
    d = {'function': FUNCS[fn][0], 'string': S(a[0])}
    if len(a) > 1:
        d['args'] = a[1:]
    return d

def canon(fn, out):
    return out if fn == 13 else canon_res(out)

def nontrivial(fn, a, out):
    if fn == 13:
        return len(out) > 1 if a[0] in (0, 2) else out != a[1]
    return out[0] == 0 and any(c in (123, 125, 92) for c in (a[1] if fn == 12 else a[0]))

def cw_for(s):
    from pybtex.charwidths import charwidths
    return [[ord(c), charwidths.get(c, 0)] for c in sorted(set(s) | {'{', '}'})]

def model_arg(fn, a):
    # the charwidths table is data: regenerated from /repo on every run and passed to the model
    if fn == 7:
        return [a[0], cw_for(S(a[0]))]
    if fn == 12:
        return list(a[:5]) + [cw_for(S(a[1])) if a[0] == 5 else []]
    return a

# ----------------------------------------------------------------------------------------
# the property, in plain Python, independent of pybtex (used on the implementation's outputs)

def depths(s):
    """brace depth before every position and at the end; a closing brace without an opener does not count"""
    d = 0; out = [0]
    for c in s:
        if c == '{':
            d += 1
        elif c == '}' and d > 0:
            d -= 1
        out.append(d)
    return out

def balanced(s):
    d = 0
    for c in s:
        if c == '{':
            d += 1
        elif c == '}':
            d -= 1
            if d < 0:
                return False
    return d == 0

def max_depth(s):
    return max(depths(s))

def items(s):
    """top-level structure: ('c', i, i+1) ordinary character / stray closing brace at depth 0,
    ('s', i, j, closed) special character s[i:j] = '{\\...}' , ('g', i, j, closed) brace group"""
    i = 0; n = len(s); out = []
    while i < n:
        if s[i] == '{':
            d = 1; j = i + 1
            while j < n and d > 0:
                if s[j] == '{':
                    d += 1
                elif s[j] == '}':
                    d -= 1
                j += 1
            closed = d == 0
            out.append(('s' if s[i + 1:i + 2] == '\\' else 'g', i, j, closed))
            i = j
        else:
            out.append(('c', i, i + 1, True))
            i += 1
    return out

def ends_in_open_special(s):
    it = items(s)
    return bool(it) and it[-1][0] == 's' and not it[-1][3]

def spec_len(s):
    """BibTeX text.length$: a special character counts once, braces never, everything else once"""
    n = 0
    for kind, i, j, closed in items(s):
        if kind == 'c':
            n += s[i] not in '{}'
        elif kind == 's':
            n += 1
        else:
            n += sum(1 for c in s[i:j] if c not in '{}')
    return n

def spec_substring(s, start, length):
    """substring$ as in bibtex.web (x_substring)"""
    n = len(s)
    if length <= 0 or start == 0 or abs(start) > n:
        return ''
    if start > 0:
        length = min(length, n - (start - 1))
        return s[start - 1:start - 1 + length]
    start = -start
    length = min(length, n - (start - 1))
    end = n - (start - 1)
    return s[end - length:end]

def one_to_one_case(s):
    return all(len(c.lower()) == 1 and len(c.upper()) == 1 for c in s)

SEP_RE = [re.compile(r'(?:\\ |\s|(?<!\\)~)+'), re.compile(','), re.compile('-'), re.compile(' [Aa][Nn][Dd] ')]

def reassemble(s, pieces, sepk, filtered, dep=None):
    """unfiltered: s = p1 S1 p2 ... S(n-1) pn;  filtered (empty pieces dropped): s = S* p1 S+ p2 ... S+ pn S*;
    every S a match of the separator pattern (in the context of s) all of whose characters are at brace depth 0"""
    dep = dep or depths(s)
    pat = SEP_RE[sepk]
    n = len(s)
    def sep_ends(pos):
        out = []
        for e in range(pos + 1, n + 1):
            if dep[e - 1] != 0 or dep[e] != 0:
                break
            if pat.fullmatch(s, pos, e):
                out.append(e)
        return out
    memo = {}
    if not filtered:
        if not pieces:
            return s == ''
        def U(pos, k):
            key = (pos, k)
            if key not in memo:
                memo[key] = False
                p = pieces[k]
                if s.startswith(p, pos):
                    e = pos + len(p)
                    if k + 1 == len(pieces):
                        memo[key] = e == n
                    else:
                        memo[key] = any(U(e2, k + 1) for e2 in sep_ends(e))
            return memo[key]
        return U(0, 0)
    def F(pos, k, had_sep):
        key = (pos, k, had_sep)
        if key not in memo:
            memo[key] = False
            r = any(F(e, k, True) for e in sep_ends(pos))
            if not r:
                if k == len(pieces):
                    r = pos == n
                elif had_sep and pieces[k] and s.startswith(pieces[k], pos):
                    r = F(pos + len(pieces[k]), k + 1, False)
            memo[key] = r
        return memo[key]
    return F(0, 0, True)

def oracle(fn, a, out):
    if fn == 13:
        return None      # pattern conformance is a correspondence matter only
    if fn == 12:
        k = a[0]
        if k == 4:
            m = S(a[4])[:1].lower()
            if m not in ('l', 'u', 't'):
                return None if out[0] == 1 else 'change.case$ accepted mode %r' % S(a[4])
            return oracle(6, [a[1], 'lut'.index(m)], out)
        if k == 6:
            if out[0] == 0:
                so = impl_split([a[1], 3, 1, 0])
                if so[0] == 0 and out[1] != len(so[1]):
                    return 'num.names$ = %r but the name list splits into %d names' % (out[1], len(so[1]))
            return crash_msg(out, S(a[1]))
        m = {0: (4, [a[1], a[2], a[3]]), 1: (3, [a[1], a[2]]), 2: (2, [a[1]]), 3: (5, [a[1]]), 5: (7, [a[1]])}[k]
        return oracle(m[0], m[1], out)
    s = S(a[0])
    m = crash_msg(out, s)
    if m or out[0] != 0:
        return m
    r = out[1]
    if fn == 1:
        toks = [(S(t), l) for t, l in r]
        if any(l < 0 for _, l in toks):
            return 'negative brace level in %r' % (toks,)
        if balanced(s):
            if ''.join(t for t, _ in toks) != s:
                return 'scan is not lossless on balanced %r: %r' % (s, toks)
            dep = depths(s); pos = 0
            for t, l in toks:
                pos += len(t)
                if l != dep[pos]:
                    return 'token %r at offset %d of %r has level %d, brace depth there is %d' % (t, pos, s, l, dep[pos])
    elif fn == 2:
        if r != spec_len(s):
            return 'bibtex_len(%r) = %r, text length is %d' % (s, r, spec_len(s))
    elif fn == 3:
        n = a[1]; p = S(r)
        if n <= 0:
            return None if p == '' else 'prefix of %r for n = %d <= 0 is %r, not empty' % (s, n, p)
        if spec_len(p) != min(n, spec_len(s)):
            return 'text length of prefix(%r, %d) = %r is %d, expected min(n, %d)' % (s, n, p, spec_len(p), spec_len(s))
        tail = len(p) - len(p.rstrip('}'))
        okp = False; isprefix = False
        for k in range(0, tail + 1):
            q = p[:len(p) - k]
            if s.startswith(q):
                isprefix = True
                if depths(q)[-1] == k:
                    okp = True
        if not isprefix:
            return 'prefix(%r, %d) = %r is not a prefix of the string followed by closing braces' % (s, n, p)
        if not okp:
            return 'prefix does not close the braces it opened: prefix(%r, %d) = %r' % (s, n, p)
    elif fn == 4:
        e = spec_substring(s, a[1], a[2])
        if S(r) != e:
            return 'substring(%r, %d, %d) = %r, BibTeX selects %r' % (s, a[1], a[2], S(r), e)
    elif fn == 5:
        p = S(r)
        bad = [c for c in p if not (c.isalnum() or c == ' ')]
        if bad:
            return 'purify(%r) = %r contains %r' % (s, p, bad[0])
        again = impl_purify([r])
        if again != [0, r]:
            return 'purify is not idempotent on %r: %r then %r' % (s, p, again)
    elif fn == 6:
        p = S(r)
        if ends_in_open_special(s) or not one_to_one_case(s):
            return None
        if len(p) != len(s):
            return 'change_case(%r, %s) = %r changes the length' % (s, 'lut'[a[1]], p)
        if p.lower() != s.lower():
            return 'change_case(%r, %s) = %r changes more than letter case' % (s, 'lut'[a[1]], p)
        again = impl_change_case([r, a[1]])
        if again != [0, r]:
            return 'change_case is not idempotent on %r mode %s: %r then %r' % (s, 'lut'[a[1]], p, again)
        dep = depths(s)
        allowed = set()
        for kind, i, j, closed in items(s):
            if kind == 's':
                inner_end = j - 1 if closed else j
                pos = i + 1
                for w in s[i + 1:inner_end].split(' '):
                    if not w.startswith('\\'):
                        allowed.update(range(pos, pos + len(w)))
                    pos += len(w) + 1
        for i, (x, y) in enumerate(zip(s, p)):
            if x != y and dep[i] > 0 and i not in allowed:
                return 'change_case(%r, %s) = %r changes %r at offset %d inside braces' % (s, 'lut'[a[1]], p, x, i)
    elif fn == 9:
        sepk, strip, fe = a[1], a[2], a[3]
        pieces = [S(x) for x in r]
        filtered = bool(fe) or sepk == 0
        if not strip:
            if not reassemble(s, pieces, sepk, filtered):
                return 'split_tex_string(%r, %r, strip=False, filter_empty=%s) = %r: pieces and top-level separators do not re-assemble the string' % (s, SEPS[sepk], filtered, pieces)
            if filtered and any(p == '' for p in pieces):
                return 'empty piece although filter_empty: %r' % (pieces,)
        else:
            raw = impl_split([a[0], sepk, 0, 0 if sepk else 1])
            if raw[0] != 0:
                return None
            exp = [S(x).strip() for x in raw[1]]
            if filtered:
                exp = [x for x in exp if x]
            if exp != pieces:
                return 'split_tex_string(%r, %r, strip=True, filter_empty=%s) = %r removes more than surrounding whitespace / empty pieces of %r' % (s, SEPS[sepk], filtered, pieces, [S(x) for x in raw[1]])
    return None

def crash_msg(out, s):
    if out[0] == 2:
        return 'raised a non-pybtex exception on %r' % (s,)
    if out[0] == 1 and max_depth(s) <= 100:
        return 'raised a BibTeX error on %r although braces nest only %d deep' % (s, max_depth(s))
    return None

# ----------------------------------------------------------------------------------------
def cases_for(s, full=True, light=False):
    """every modelled function on s.  full: all integer arguments in [-(n+2), n+2]; otherwise a boundary
    set; light: a smaller boundary set and fewer flag combinations (thorough tier, length >= 4)"""
    n = len(s)
    yield (1, [s]); yield (2, [s]); yield (5, [s]); yield (8, [s]); yield (10, [s])
    yield (7, [s])
    for m in range(3):
        yield (6, [s, m])
    if full:
        rng_ = range(-(n + 2), n + 3)
    elif light:
        rng_ = [-(n + 1), -2, 0, 1, n]
    else:
        rng_ = [-(n + 1), -1, 0, 1, 2, n, n + 1]
    for k in (rng_ if not light else [-1, 0, 1, 2, n - 1, n, n + 1]):
        yield (3, [s, k])
    for st in rng_:
        for ln in rng_:
            yield (4, [s, st, ln])
    for sep in range(4):
        for strip, fe in ([(0, 0), (1, 1)] if light else [(0, 0), (0, 1), (1, 0), (1, 1)]):
            yield (9, [s, sep, strip, fe])
    yield (11, [s, []]); yield (11, [s, ['.']]); yield (11, [s, ['']])
    # through the BST builtins
    for k in ((1, n) if light else (-1, 0, 1, 2, n)):
        yield (12, [1, s, k, 0, ''])
    yield (12, [0, s, -2, 3, ''])
    if not light:
        yield (12, [0, s, 2, 1, '']); yield (12, [0, s, 1, n, ''])
    yield (12, [2, s, 0, 0, '']); yield (12, [3, s, 0, 0, '']); yield (12, [5, s, 0, 0, '']); yield (12, [6, s, 0, 0, ''])
    for md in (('U', 'x') if light else ('l', 'U', 't', 'Title', '', 'x')):
        yield (12, [4, s, 0, 0, md])

WIDE = 'abcXYZ019 \t\n\xa0~-{}\\,:;.!?\'"`^$&%#_@()[]=+*/|<> andAND'
def rand_string(rng):
    k = rng.random()
    if k < 0.15:
        d = rng.choice([3, 50, 99, 100, 101, 105])
        return '{' * d + rng.choice(['x', '\\a', '']) + '}' * rng.choice([d, d, d - 1, 0])
    if k < 0.2:
        d = rng.choice([97, 98, 99, 100, 101])
        return rng.choice(['', 'a ']) + '{\\x' + '{' * d + 'y' + '}' * rng.choice([d, d + 1, 0])
    parts = []
    for _ in range(rng.randint(0, 12)):
        r = rng.random()
        if r < 0.25:
            parts.append('{\\' + rng.choice(["'e", 'ss', 'TeX book', '"{o}', 'v S', 'i', '', 'noopsort{1973b}', 'a B', 'X: {Y z} \\W q']) + rng.choice(['}', '}', '']))
        elif r < 0.4:
            parts.append('{' + ''.join(rng.choice(WIDE) for _ in range(rng.randint(0, 6))) + rng.choice(['}', '}', '}', '']))
        elif r < 0.5:
            parts.append(rng.choice([' and ', ' AND ', ' And ', '\\ ', '\\~', '~', ', ', '-', '--', ': ', '}', '{']))
        else:
            parts.append(''.join(rng.choice(WIDE) for _ in range(rng.randint(1, 8))))
    return ''.join(parts)

def mutate(s, rng):
    if not s:
        return rng.choice('{}\\')
    i = rng.randrange(len(s)); k = rng.random()
    if k < 0.3:
        return s[:i] + s[i + 1:]
    if k < 0.5:
        return s[:i] + s[i] + s[i:]
    if k < 0.8:
        return s[:i] + rng.choice('{}\\ ~-') + s[i + 1:]
    return s[:i]

PINNED = ['', 'abc', 'a{b}c', '{\\', '{\\}', '{\\a', '{a', '}', '}{', 'ab{\\cd', "de la Vall{\\'e}e Poussin", '\\ ', 'a\\ b', 'a\\~b', 'a~b',
          'What a Strange{ }and Bizzare Name! and Peterson', 'Jean--Pierre', '{\\TeX\\ and databases\\Dash\\TeX DBI}', 'And Now: BOOO!!!',
          '{\\noopsort{1973a}}{\\switchargs{--90}{1968}}', 'a{b{c', 'a}b}c', '{{\\a}}', 'x: y: {\\Z z} {Z}',
          '{a\\b}', '{Sch\\"on}', 'x{a\\b c}{\\a\\b}{{\\a}}', '{\\{', 'a{\\b{c', '{a{b}c d', '{{-', '{{~', '{{ ', '{{,', '{\\x{{y', '{a{b}c, d and e', '{a{b}c-d', 'a{b}c d}e f', 'The {\\TeX book \\noop}', 'And {\\Now: {BOOO}!!!}',
          'a:  B c:\tD', 'a:B C', '{\\a B}:{\\c D} E', 'abcdef', 'ab{cd}', 'ab{\\cd}', 'level 0 {1 {\\2}}', '{\\a}{\\b}c', '{}', '{}{\\a}', 'a{\\}b',
          'x{y} and {z and w} AND v', ' and ', 'a and ', ' and and and ', 'a,,b,{c,d},', '-a--b-{-c-}-', '~a~~b\\ c\\~d ~']

SWEEP = [(0, 'a ~\\\xa0\t'), (1, '\\aZ1 {'), (2, ' aAnNdDx')]
def gen(tier, rng):
    quick = tier == 'quick'
    # pattern conformance sweep: all strings up to the bound over a per-pattern alphabet
    for k, alpha in SWEEP:
        bound = (4 if k == 2 else 5) if quick else (5 if k == 2 else 6)
        for n in range(0, bound + 1):
            for tup in itertools.product(alpha, repeat=n):
                yield ('pattern_sweep', 13, [k, ''.join(tup)])
    for s in [' and ', 'a and b', 'a AND b and  c', ' And and ', 'x aNd y', 'a and', 'and b', ' and  and ']:
        yield ('pattern_sweep', 13, [2, s])
    for s in PINNED:
        for fn, a in cases_for(s, full=len(s) <= 6):
            yield ('pinned', fn, a)
    for n in range(0, 5 if quick else 6):
        for tup in itertools.product(ALPHA, repeat=n):
            s = ''.join(tup)
            if n >= 4:
                # quick: 15 % of length 4; thorough: every string of length 4, 2 % of length 5
                if quick and rng.random() > 0.15:
                    continue
                if not quick and n == 5 and rng.random() > 0.02:
                    continue
            for fn, a in cases_for(s, full=(n <= 3), light=(not quick and n >= 4)):
                yield ('exhaustive', fn, a)
    for i in range(700 if quick else 4000):
        s = rand_string(rng)
        for fn, a in cases_for(s, full=False):
            yield ('random', fn, a)
        if i % 2 == 0:
            t = s
            for _ in range(rng.randint(1, 3)):
                t = mutate(t, rng)
            for fn, a in cases_for(t, full=False):
                yield ('malformed', fn, a)

# (the two findings C12-P1 / C12-S1 are fixed in the code -- known_findings.d/C12.json, status "fixed";
#  their inputs stay in PINNED as regression cases)

# ----------------------------------------------------------------------------------------
# thorough tier: extraction cross-checked against the kernel's evaluator.  A sample of the cases is
# evaluated by `vm_compute` inside Coq (dispatch = the very term that is extracted) and compared with
# what the extracted OCaml runner printed for the same cases.
def _coq_sexp(v):
    if isinstance(v, int):
        return '(A (%d))' % v
    return '(L [' + '; '.join(_coq_sexp(x) for x in v) + '])'

def extra_checks(ck, tier, rng):
    if tier != 'thorough':
        return
    import os, re as _re
    sample = []
    r2 = random.Random(ck.seed)
    for i, (stream, fn, a) in enumerate(gen('quick', random.Random(ck.seed))):
        if r2.random() < 0.0012 and len(sx(norm(a))) < 400:
            sample.append((fn, norm(model_arg(fn, norm(a)))))
    outs = ck.model.run(sample, ck.rundir, shards=1)
    src = open(os.path.join(COQ, 'Extr', 'C12.v')).read()
    src = _re.sub(r'^\s*(Require Extraction|Require Import ExtrOcamlBasic|Extraction [^\n]*)\.?\s*$', '', src, flags=_re.M)
    lines = [src, 'Local Open Scope Z_scope.']
    for i, ((fn, a), o) in enumerate(zip(sample, outs)):
        lines.append('Example xc_%d : dispatch (%d) %s = %s. Proof. vm_compute. reflexivity. Qed.' % (i, fn, _coq_sexp(a), _coq_sexp(o)))
    path = os.path.join(ck.rundir, 'XCheckC12.v')
    open(path, 'w').write('\n'.join(lines) + '\n')
    rc, log = coqc_file(path, ck.rundir)
    fails = []
    if rc != 0:
        fails.append(('vm_compute evaluation of dispatch differs from the extracted runner (or the file failed to compile)', log[-1500:], False))
    yield {'name': 'vm_compute_crosscheck', 'evaluations': len(sample), 'failures': fails,
           'info': 'dispatch evaluated by vm_compute inside Coq on a sample of the quick stream equals the output of the extracted OCaml runner'}

    # generator reach, measured: the implementation side of a sample of the quick stream under `coverage`,
    # restricted to the anchored line ranges (function-body lines only: module-level lines ran at import)
    try:
        import coverage
        u = _u()
        import pybtex.bibtex.builtins as bmod
        files = {u.__file__: [(96, 604)], bmod.__file__: [(133, 145), (233, 236), (246, 249), (259, 264), (278, 287), (312, 315)]}
        cov = coverage.Coverage(include=list(files), data_file=None)
        cov.start()
        n = 0
        r3 = random.Random(ck.seed)
        for stream, fn, a in gen('quick', random.Random(ck.seed)):
            if stream == 'pinned' or r3.random() < 0.02:
                FUNCS[fn][1](norm(a)); n += 1
        cov.stop()
        info = {}
        for f, ranges in files.items():
            _, stmts, _, missing, _ = cov.analysis2(f)
            src_lines = open(f).read().split('\n')
            def body(l):
                t = src_lines[l - 1]
                return t.startswith('    ') and not t.lstrip().startswith(('def ', 'class ', '@'))
            inr = lambda l: any(a <= l <= b for a, b in ranges)
            st = [l for l in stmts if inr(l) and body(l)]
            ms = [l for l in missing if inr(l) and body(l)]
            info[os.path.basename(f)] = {'anchored_body_statements': len(st), 'not_executed': ms}
        yield {'name': 'impl_line_coverage', 'evaluations': n, 'failures': [],
               'info': 'anchored function-body statements executed by a sample of the streams: %s' % json.dumps(info)}
    except Exception as e:
        yield {'name': 'impl_line_coverage', 'evaluations': 0, 'failures': [], 'info': 'coverage measurement unavailable: %r' % (e,)}
