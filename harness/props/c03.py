# C03 -- BST style programs execute with BibTeX stack-language semantics.
# Model: coq/Model/Bst.v; theorems: coq/Props/C03.v
#
# A case is (commands, citations, bib text): the AST of a .bst program generated here, printed to
# .bst source for the implementation (which parses it with its own BstParser and runs it with the
# real Interpreter; the parsed script is checked to be the AST the model gets), the citation list
# and the database text.  What READ finds, what format_name() returns and the charwidths table are
# measured on the implementation's database / names / charwidths modules and handed to the model
# (model_arg) -- they belong to C01/C05/C14, C11 and to data.
import gc, io, itertools, os, random, signal, sys
from core import *
from props import c03_util as U
from props.c03_util import I, Sx, Id, Q, F, cmd

ID = 'C03'
FUEL = 3000          # first attempt; the runner repeats an OutOfFuel run with 8x the fuel, three times (cap 1 536 000)
CPU_LIMIT = 20       # seconds of CPU time of one implementation run before it counts as "does not end"

# ----------------------------------------------------------------------------------------
# implementation side
def _execute(arg, want_info=False):
    """run the program of `arg` on the real interpreter; returns (result, info)"""
    import pybtex.io
    from pybtex import errors
    from pybtex.exceptions import PybtexError
    from pybtex.bibtex import bst
    from pybtex.bibtex.interpreter import Interpreter
    from pybtex.database.input.bibtex import Parser
    cmds, cites, bib = arg[0], [S(c) for c in arg[1]], S(arg[2])
    text = U.to_bst(cmds)
    info = {'reads': [], 'fmt': [], 'user': set(), 'read': set()}
    field_names = U.entry_field_names(cmds)
    out = io.StringIO()
    old_stdout = pybtex.io.stdout
    pybtex.io.stdout = out
    # CPU time of this process, not wall-clock time: a busy machine must not look like a diverging program
    old_handler = signal.signal(signal.SIGVTALRM, U.on_alarm)
    gc_was = gc.isenabled()
    gc.disable()      # a full collection over the (large) case list of this process must not look like a diverging program
    signal.setitimer(signal.ITIMER_VIRTUAL, CPU_LIMIT)
    try:
        with errors.capture() as captured:
            # the parser belongs to C15; if it rejects or reads the generated source differently, that is an
            # outcome of this case (compared with the model), not a failure of the check
            try:
                parsed = [U.enc_command(c) for c in bst.parse_stream(io.StringIO(text))]
            except PybtexError:
                return [1], info
            except U.Timeout:
                return [3], info
            except Exception:
                return [2], info
            if parsed != cmds:
                return [4], info      # the parsed script is not the generated AST

            class Probe(object):
                """stands in interpreter.vars for a built-in, to see its operands / its reports"""
                def __init__(self, orig, kind):
                    self.orig, self.kind = orig, kind
                def execute(self, interp):
                    if self.kind == 'print':
                        vals = interp.stack[:] if self.orig is stack_orig else interp.stack[-1:]
                        if any(not isinstance(v, (int, str)) for v in vals):
                            raise U.OutOfDomain()
                        self.orig.execute(interp)
                    elif self.kind == 'warning':
                        n0 = len(captured)
                        self.orig.execute(interp)
                        info['user'].update(range(n0, len(captured)))
                    else:
                        if len(interp.stack) >= 3:
                            info['fmt'].append(tuple(interp.stack[-3:]))
                        self.orig.execute(interp)

            class Itp(Interpreter):
                def command_read(self):
                    n0 = len(captured)
                    Interpreter.command_read(self)
                    info['read'].update(range(n0, len(captured)))
                    if want_info:
                        info['reads'].append(U.read_result(self, field_names, len(captured) - n0))

            it = Itp(Parser, None)
            it.vars['warning$'] = Probe(it.vars['warning$'], 'warning')
            stack_orig = it.vars['stack$']
            for b in ('top$', 'stack$', 'int.to.str$'):
                it.vars[b] = Probe(it.vars[b], 'print')
            if want_info:
                it.vars['format.name$'] = Probe(it.vars['format.name$'], 'fmt')
            try:
                text_out = it.run(bst.parse_stream(io.StringIO(text)), list(cites), [io.StringIO(bib)], 2)
            except U.Timeout:
                return [3], info      # the run does not end: compared with the model's OutOfFuel
            except U.OutOfDomain:
                return [6], info      # prints an interpreter object: outside the modelled domain, not compared
            except PybtexError:
                return [1], info
            except RecursionError:
                return [2], info
            except Exception:
                return [2], info
            return [0, U.enc_state(it, text_out, captured, info, out.getvalue())], info
    finally:
        signal.setitimer(signal.ITIMER_VIRTUAL, 0)
        signal.signal(signal.SIGVTALRM, old_handler)
        if gc_was:
            gc.enable()
        pybtex.io.stdout = old_stdout

def impl_run(arg):
    try:
        return norm(_execute(arg)[0])
    except U.Timeout:
        return [3]

FUNCS = {1: ('bst.parse + Interpreter.run (program, citations, database)', impl_run, ('T', ('L', 'X'), ('L', 'S'), 'S'))}

_ORACLE_DATA = {}      # md5(sx(arg)) -> (reads, fmt): filled in parallel by gen(), used by model_arg()

def _key(arg):
    import hashlib
    return hashlib.md5(sx(arg).encode()).digest()

def _needs_run(cmds):
    return 'read' in [S(c[0]).lower() for c in cmds]

def _oracle_data(arg):
    """what READ finds and what format_name returns, measured on the implementation; a failure of the measuring
    run outside the interpreter (it never happened on the unchanged tree) is retried, then reported as missing data"""
    for attempt in range(3):
        try:
            _, info = _execute(arg, want_info=True)
            return (info['reads'], [])
        except Exception:
            continue
    return ([], [])

def _oracle_worker(chunk):
    out = []
    for arg in chunk:
        try:
            out.append(_oracle_data(arg))
        except BaseException as e:
            out.append(None)      # recomputed (and reported) by model_arg in the main process
    return out

def model_arg(fn, arg):
    cmds = arg[0]
    names = U.all_names(cmds)
    reads, fmt, cw = [], [], []
    if 'read' in [S(c[0]).lower() for c in cmds]:
        d = _ORACLE_DATA.get(_key(arg))
        if d is None:
            d = _oracle_data(arg)
        reads, _ = d
    if 'width$' in names:
        cw = U.cw_table(arg)
    return [cmds, arg[1], reads, fmt, cw, FUEL]

def gen(tier, rng):
    """all cases; what READ finds / what format_name returns is measured here, in parallel, for the cases that need it"""
    from props.c03_gen import gen_cases
    cases = [(st, fn, norm(arg)) for st, fn, arg in gen_cases(tier, rng)]
    need = [arg for (_, _, arg) in cases if _needs_run(arg[0])]
    if len(need) > 200:
        n = min(NPROC, (len(need) + 99) // 100)
        chunks = [need[i::n] for i in range(n)]
        with mp.get_context('fork').Pool(n) as pool:
            outs = pool.map(_oracle_worker, chunks)
        for ch, o in zip(chunks, outs):
            for arg, d in zip(ch, o):
                if d is not None:
                    _ORACLE_DATA[_key(arg)] = d
    global _CASES
    _CASES = cases
    return cases

_CASES = []

def extra_checks(ck, tier, rng):
    """welltyped_no_crash, on the implementation: every generated program that the extracted type checker
    (Spec/BstTyping.check, model function 2) accepts must not raise a foreign Python exception"""
    from collections import Counter
    wanted = ('pinned', 'styles', 'random', 'random_exec', 'order_probe', 'malformed') if tier == 'quick' else None
    cases = [(st, arg) for (st, fn, arg) in _CASES if (st in wanted if wanted else st not in ('exhaustive', 'exhaustive4'))]
    import re
    def entry_types(bib):
        return sorted(set(t.lower() for t in re.findall(r'@\s*([^\s{(@,=]+)\s*[{(]', bib)) - {'comment', 'string', 'preamble'})
    verdicts = ck.model.run([(2, norm([arg[0], entry_types(S(arg[2]))])) for (_, arg) in cases], ck.rundir)
    acc = [(st, arg) for (st, arg), v in zip(cases, verdicts) if v[:1] == [1]]
    outs = [p[0] if isinstance(p, tuple) else p for p in run_impl({1: impl_run}, [(1, arg) for (_, arg) in acc])]
    per = Counter(); accd = Counter(); kinds = Counter()
    for st, _ in cases: per[st] += 1
    fails = []
    for (st, arg), o in zip(acc, outs):
        accd[st] += 1
        kinds[{0: 'ended normally', 1: 'BibTeX error', 2: 'foreign exception', 3: 'did not end'}.get(o[0] if o and isinstance(o[0], int) else -1, 'other')] += 1
        if o[:1] == [2]:
            fails.append((describe(1, arg), 'accepted by the type checker, yet the implementation raised a foreign exception', True))
    yield _engine_encodings(tier, rng)
    yield {'name': 'welltyped_no_crash_on_impl', 'evaluations': len(cases), 'failures': fails[:5],
           'info': {'accepted_by_stream': {k: '%d/%d' % (accd[k], per[k]) for k in sorted(per)}, 'outcomes_of_accepted': dict(kinds)}}


def _engine_encodings(tier, rng):
    """BibTeXEngine.format_from_files / format_from_strings with bib_encoding / bst_encoding / output_encoding: a
    non-ASCII string literal of the .bst and a non-ASCII field of the .bib must come out verbatim in the output decoded
    with output_encoding.  Pure oracle on the implementation (the model has no notion of encodings)."""
    import tempfile, shutil, itertools
    from pybtex import errors
    import pybtex.bibtex
    ENC = ['utf-8', 'latin-1', 'utf-16']
    def rep(t, enc):
        try:
            t.encode(enc); return True
        except UnicodeError:
            return False
    fails, n = [], 0
    d = tempfile.mkdtemp()
    try:
        for lit, fld in [('\u00e9', '\u00fc'), ('\u0416', '\u00e9'), ('\u4e2d', '\u0416'), ('\u00e9 \u0416 \u4e2d', 'x')]:
            for be, se, oe in itertools.product(ENC, ENC, ENC):
                if not (rep(fld, be) and rep(lit, se) and rep(lit + fld, oe)):
                    continue
                if tier == 'quick' and rng.random() < 0.5 and (be, se, oe) != ('latin-1', 'utf-8', 'utf-8') and se == be:
                    continue
                bst = 'ENTRY { title } { } { }\nFUNCTION { show } { "[%s]" write$ title write$ newline$ }\nREAD\nITERATE { show }\n' % lit
                bib = '@misc{k, title = {x%sy}}\n' % fld
                want = '[%s]x%sy\n' % (lit, fld)
                with open(os.path.join(d, 's.bst'), 'wb') as f: f.write(bst.encode(se))
                with open(os.path.join(d, 'b.bib'), 'wb') as f: f.write(bib.encode(be))
                out = os.path.join(d, 'o.bbl')
                for api in ('files', 'files_return', 'string'):
                    n += 1
                    desc = {'api': 'format_from_' + api, 'bst_literal': lit, 'bib_field': fld, 'bib_encoding': be, 'bst_encoding': se, 'output_encoding': oe}
                    try:
                        with errors.capture() as cap:
                            if api == 'files':
                                pybtex.bibtex.format_from_files([os.path.join(d, 'b.bib')], style=os.path.join(d, 's'), citations=['*'],
                                                                bib_encoding=be, bst_encoding=se, output_encoding=oe, output_filename=out)
                                got = open(out, 'rb').read().decode(oe)
                            elif api == 'files_return':
                                got = pybtex.bibtex.format_from_files([os.path.join(d, 'b.bib')], style=os.path.join(d, 's'), citations=['*'],
                                                                     bib_encoding=be, bst_encoding=se, output_encoding=oe)
                            else:
                                got = pybtex.bibtex.format_from_string(bib, style=os.path.join(d, 's'), citations=['*'],
                                                                      bib_encoding=be, bst_encoding=se, output_encoding=oe)
                        if cap:
                            fails.append((desc, 'errors were reported: %r' % [str(e) for e in cap][:2], True))
                        elif got != want:
                            fails.append((desc, 'output %r, expected the literal and the field verbatim: %r' % (got, want), True))
                    except Exception as e:
                        fails.append((desc, 'raised %s: %s' % (type(e).__name__, str(e)[:120]), True))
    finally:
        shutil.rmtree(d, ignore_errors=True)
    return {'name': 'engine_encodings', 'evaluations': n, 'failures': fails[:5],
            'info': 'non-ASCII .bst literals and .bib fields x bib_encoding / bst_encoding / output_encoding in {utf-8, latin-1, utf-16} through format_from_files (to a file, returned) and format_from_string'}

def canon(fn, out):
    out = canon_res(out)
    if isinstance(out, list) and out[:1] in ([3], [6]):
        # no outcome to compare: the implementation does not end ([3]) or prints an interpreter object ([6], outside the
        # modelled domain); the model answers [3, cap] (OutOfFuel at the cap) in both situations
        return ['no outcome']
    if isinstance(out, list) and len(out) == 2 and out[0] == 0:
        st = list(out[1])
        st[2] = sorted(st[2])
        st[3] = sorted([k, sorted(f)] for k, f in st[3])
        st[4] = sorted(st[4])
        return [0, st]
    return out

# ----------------------------------------------------------------------------------------
RULE = ('exhaustive: every straight-line program of at most 2 tokens, and of 3 tokens whose first token is an operand or a built-in '
        'without operands (quick: a seeded 10% sample of the 3-token ones), over a 54-token pool (4 integers, 7 strings incl. braces, a '
        'special character, a name list and white space, a function literal, quoted and unquoted global int/str variables, a quoted '
        'built-in, all 37 built-ins), run by EXECUTE -- well-typed and ill-typed alike; every operand triple x {substring$ if$ format.name$}; '
        'every value x target x reader of := ; per-entry programs of <= 2 tokens; every kind of value (int, str, missing field, field, '
        'function, reference to each kind of interpreter object) as operand of every unary / binary / ternary built-in inside ITERATE; '
        'random: type-directed programs with nested function literals, bounded while$, global and entry variables, MACRO, READ over a '
        'generated database (crossref, macros, preamble, missing and duplicate citations), ITERATE / SORT / REVERSE, call.type$; '
        'database-free random programs; ITERATE/REVERSE/SORT/scoping probes; the shipped styles plain/unsrt/alpha over xampl.bib; '
        'malformed: token-level delete / duplicate / replace / swap of valid programs, wrong command arities, commands out of order. '
        'distinct = distinct cases; non-trivial = the run succeeded and left something on the stack, in the output or in a variable. '
        'extra check: every generated program the extracted type checker accepts must not raise a foreign exception in the implementation.')
EXHAUSTIVE = {'quick': 'all EXECUTE programs of <= 2 tokens over a 54-token pool (operands + all 37 built-ins); all operand triples for substring$/if$/format.name$; all := combinations; all value kinds x all built-ins of arity <= 2 in entry context (3-token programs: seeded 10% sample, arity-3 kind combinations: 20%)',
              'thorough': 'all EXECUTE programs of <= 3 tokens (first token an operand or operand-free built-in) over the 54-token pool, a seeded 2% sample of length 4; all operand triples; all := combinations; all value kinds x all built-ins in entry context'}
TRUSTED_BASE = ['modelled (not verified) code: pybtex/bibtex/interpreter.py, pybtex/bibtex/builtins.py (all of both), the string primitives of pybtex/bibtex/utils.py through Model/BibtexStr.v and Model/Wrap.v',
                'handed to the model as measured data, not modelled here: what READ finds (bib parsing, citation expansion, crossref field inheritance: C01/C05/C14), names.format_name(name, format) (C11), the charwidths table',
                'the generated AST is printed to .bst text and parsed back by pybtex.bibtex.bst; the check fails if the parsed script is not the AST given to the model (C15 owns the parser)']
ASSUMPTIONS = ['variable / function / field names and entry types are ASCII (CaseInsensitiveDict lower-cases with str.lower)',
               'a quoted variable is modelled by name: re-declaring a global with INTEGERS/STRINGS while an old reference to it is on the stack is outside the domain',
               'printing / stringifying a function value or a quoted variable (Python repr of interpreter objects) is outside the domain']
PARTIAL = []

def describe(fn, arg):
    return {'bst': U.to_bst(arg[0]), 'citations': [S(c) for c in arg[1]], 'bib': S(arg[2]),
            'outcome_codes': '[0, state] ended; [1] BibTeX error; [2] foreign exception; [3] does not end (implementation: %d s CPU; model: [3, n] = still OutOfFuel after escalating the fuel to the cap n); [4] parsed script differs from the generated AST; [6] implementation only: top$/stack$/int.to.str$ applied to a function or quoted variable (outside the modelled domain; the model answers [3, n]); [5] model only: the implementation\'s own READ failed while its result was being measured, so the model has no READ data' % CPU_LIMIT}

def nontrivial(fn, arg, out):
    return out[0] == 0 and bool(out[1][0] or out[1][1] or out[1][3] or out[1][8])

from props.c03_oracle import oracle
