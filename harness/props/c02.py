# C02 -- write/read round trip and cross-format conversion preserve the database.
# Model: coq/Model/Writers.v (+ BibParser.v, Names.v, BibtexStr.v); theorems: coq/Props/C02.v
#
# A database on the wire:  [ [ [key, type, [[field, value]...], [[role, [person...]]...]] ... ], [preamble item ...] ]
# person = [first[], middle[], prelast[], last[], lineage[]] (token lists).  It is built through the public
# API (Entry(type); e.fields[k] = v; e.add_person(p, role); data.add_entry(key, e); add_to_preamble).
import itertools, random, os, io, tempfile, shutil, pickle, re
from core import *

ID = 'C02'
FMTS = {0: 'bibtex', 1: 'bibtexml', 2: 'yaml'}
SUFFIX = {0: '.bib', 1: '.xml', 2: '.yaml'}
FIVE = '#%&_~'
NS = '{http://bibtexml.sf.net/}'

# ---------------------------------------------------------------------------------------
# building / encoding databases
def mk_person(w):
    from pybtex.database import Person
    p = Person()
    p.first_names = [S(t) for t in w[0]]; p.middle_names = [S(t) for t in w[1]]
    p.prelast_names = [S(t) for t in w[2]]; p.last_names = [S(t) for t in w[3]]
    p.lineage_names = [S(t) for t in w[4]]
    return p

def enc_person(p):
    return [list(p.first_names), list(p.middle_names), list(p.prelast_names), list(p.last_names), list(p.lineage_names)]

class strict_mode:
    def __enter__(self):
        from pybtex import errors
        self.old = (errors.strict, errors.captured_errors)
        errors.strict = True; errors.captured_errors = None
    def __exit__(self, *a):
        from pybtex import errors
        errors.strict, errors.captured_errors = self.old

def mk_db(w):
    from pybtex.database import BibliographyData, Entry
    db = BibliographyData()
    for key, otype, fields, persons in w[0]:
        e = Entry(S(otype))
        for k, v in fields:
            e.fields[S(k)] = S(v)
        for role, ps in persons:
            for p in ps:
                e.add_person(mk_person(p), S(role))
        db.add_entry(S(key), e)
    if w[1]:
        db.add_to_preamble(*[S(x) for x in w[1]])
    return db

def _s(x):
    """a string observable that is not a str (None, a list ...) must not be mistaken for a string"""
    return x if isinstance(x, str) else '<not a str: %r>' % (x,)

def enc_db(db):
    ents = []
    for key, e in db.entries.items():
        ents.append([_s(key), _s(e.original_type), [[_s(k), _s(v)] for k, v in e.fields.items()],
                     [[role, [enc_person(p) for p in ps]] for role, ps in e.persons.items()]])
    return [ents, [_s(x) for x in db.preamble_list]]

def with_db(w, f):
    """run f(db) in strict mode with the outcome classified like the model's res"""
    def run():
        return f(mk_db(w))
    with strict_mode():
        return call_impl(run)

# ---------------------------------------------------------------------------------------
# implementation wrappers
def impl_quote(arg):
    from pybtex.database.output.bibtex import Writer
    return call_impl(Writer().quote, S(arg[0]))

def impl_check_braces(arg):
    from pybtex.database.output.bibtex import Writer
    return call_impl(Writer().check_braces, S(arg[0]))

def impl_format_name(arg):
    from pybtex.database.output.bibtex import Writer
    w = Writer(); p = mk_person(arg[0])
    try:
        return norm(w._format_name(None, p))
    except TypeError:
        return norm(w._format_name(p))

def impl_to_bibtex(arg):
    return with_db(arg[0], lambda db: db.to_string('bibtex'))

def impl_enc(arg):
    import codecs, latexcodec  # noqa
    return norm(codecs.encode(S(arg[0]), 'ulatex+utf-8'))

def py_to_tree(v):
    if isinstance(v, str):
        return [0, v]
    if isinstance(v, dict):
        return [1, [[k if isinstance(k, str) else '<non-str key %r>' % (k,), py_to_tree(x)] for k, x in v.items()]]
    if isinstance(v, list):
        return [2, [py_to_tree(x) for x in v]]
    return [3, repr(v)]

def tree_to_py(t):
    if t[0] == 0:
        return S(t[1])
    if t[0] == 1:
        return {S(k): tree_to_py(x) for k, x in t[1]}
    return [tree_to_py(x) for x in t[1]]

def impl_to_yaml_tree(arg):
    import yaml
    return with_db(arg[0], lambda db: py_to_tree(yaml.load(db.to_string('yaml'), Loader=yaml.SafeLoader)))

def impl_from_yaml_tree(arg):
    import yaml
    from pybtex.database import parse_string
    py = tree_to_py(arg[0])
    text = yaml.dump(py, allow_unicode=True, default_flow_style=False, sort_keys=False)
    if yaml.load(text, Loader=yaml.SafeLoader) != py:
        return ['HARNESS', 'PyYAML does not reproduce the generated tree', text[:300]]
    with strict_mode():
        return call_impl(lambda: enc_db(parse_string(text, 'yaml')))

def et_to_xml(el):
    tag = el.tag[len(NS):] if el.tag.startswith(NS) else '<foreign>' + el.tag
    i = el.get('id')
    return [tag, [] if i is None else [i], [] if el.text is None else [el.text], [et_to_xml(c) for c in el]]

def xml_to_et(x):
    from xml.etree import ElementTree as ET
    el = ET.Element(NS + S(x[0]))
    if x[1]:
        el.set('id', S(x[1][0]))
    if x[2]:
        el.text = S(x[2][0])
    for c in x[3]:
        el.append(xml_to_et(c))
    return el

def impl_to_xml_tree(arg):
    from xml.etree import ElementTree as ET
    return with_db(arg[0], lambda db: et_to_xml(ET.fromstring(db.to_string('bibtexml'))))

def impl_from_xml_tree(arg):
    from xml.etree import ElementTree as ET
    from pybtex.database import parse_string
    text = ET.tostring(xml_to_et(arg[0]), encoding='unicode')
    with strict_mode():
        return call_impl(lambda: enc_db(parse_string(text, 'bibtexml')))

def impl_reparse_person(arg):
    from pybtex.database import Person
    p = mk_person(arg[0])
    def run():
        q = Person(first=p.get_part_as_text('first'), middle=p.get_part_as_text('middle'), prelast=p.get_part_as_text('prelast'),
                   last=p.get_part_as_text('last'), lineage=p.get_part_as_text('lineage'))
        return enc_person(q)
    with strict_mode():
        return call_impl(run)

def impl_lower(arg):
    return with_db(arg[0], lambda db: enc_db(db.lower()))

def impl_write_read(arg):
    from pybtex.database import parse_string
    f = FMTS[arg[0]]
    return with_db(arg[1], lambda db: enc_db(parse_string(db.to_string(f), f)))

def impl_chain(arg):
    from pybtex.database import parse_file
    from pybtex.database.convert import convert
    fmts, pc, w = arg[0], bool(arg[1]), arg[2]
    def run(db):
        if not fmts:
            return enc_db(db)
        d = tempfile.mkdtemp(prefix='c02_')
        try:
            names = [os.path.join(d, 'f%d%s' % (i, SUFFIX[f])) for i, f in enumerate(fmts)]
            db.to_file(names[0], FMTS[fmts[0]])
            for i in range(1, len(fmts)):
                convert(names[i - 1], names[i], from_format=FMTS[fmts[i - 1]], to_format=FMTS[fmts[i]], preserve_case=pc)
            return enc_db(parse_file(names[-1], FMTS[fmts[-1]]))
        finally:
            shutil.rmtree(d, ignore_errors=True)
    return with_db(w, run)

def impl_pickle(arg):
    return with_db(arg[0], lambda db: enc_db(pickle.loads(pickle.dumps(db))))

def impl_repr_eval(arg):
    def run(db):
        from pybtex.database import BibliographyData, Entry, Person
        from pybtex.utils import OrderedCaseInsensitiveDict
        env = {'BibliographyData': BibliographyData, 'Entry': Entry, 'Person': Person, 'OrderedCaseInsensitiveDict': OrderedCaseInsensitiveDict}
        return enc_db(eval(repr(db), env))
    return with_db(arg[0], run)

def impl_read_bibtex(arg):
    from pybtex.database import parse_string
    with strict_mode():
        return call_impl(lambda: enc_db(parse_string(S(arg[0]), 'bibtex')))

# ---- shared Entry objects: B is derived from A's Entry objects through the public API, THEN both are used
WAYS = {0: 'BibliographyData(A.entries)', 1: 'BibliographyData(entries=[(new_key, entry), ...])', 2: 'B.add_entry(other_key, entry)',
        3: 'BibliographyData(A.entries, wanted_entries=[upper-case spellings])', 4: 'A.lower()', 5: 'B.add_entries(generator of (swapcase key, entry))'}

def rekey(way, key):
    if way == 1: return key + '-2'
    if way == 2: return key.swapcase() + 'x'
    if way == 3: return key.upper()
    if way == 4: return key.lower()
    if way == 5: return key.swapcase()
    return key

def expected_b(way, w):
    """the database B as a value (plain Python, no pybtex): A's entries under B's own keys (lower(): identifiers lower-cased)"""
    ents = []
    for key, otype, fields, persons in w[0]:
        key, otype = S(key), S(otype)
        fields = [[S(k), S(v)] for k, v in fields]
        persons = [[S(r), ps] for r, ps in persons]
        if way == 4:
            otype = otype.lower(); fields = [[k.lower(), v] for k, v in fields]; persons = [[r.lower(), ps] for r, ps in persons]
        ents.append([rekey(way, key), otype, fields, persons])
    return norm([ents, w[1] if way == 4 else []])

def derive_b(way, A):
    from pybtex.database import BibliographyData
    if way == 0:
        return BibliographyData(A.entries)
    if way == 1:
        return BibliographyData(entries=[(rekey(1, k), e) for k, e in A.entries.items()])
    if way == 2:
        B = BibliographyData()
        for k, e in list(A.entries.items()):
            B.add_entry(rekey(2, k), e)
        return B
    if way == 3:
        return BibliographyData(A.entries, wanted_entries=[k.upper() for k in A.entries.keys()])
    if way == 4:
        return A.lower()
    B = BibliographyData()
    B.add_entries((rekey(5, k), e) for k, e in list(A.entries.items()))
    return B

def _op(op, db):
    if op in (0, 1, 2):
        from pybtex.database import parse_string
        return call_impl(lambda: enc_db(parse_string(db.to_string(FMTS[op]), FMTS[op])))
    fmts, pc = ([1, 0, 2], True) if op == 3 else ([2, 1], False)
    from pybtex.database import parse_file
    from pybtex.database.convert import convert
    def run():
        d = tempfile.mkdtemp(prefix='c02_')
        try:
            names = [os.path.join(d, 'f%d%s' % (i, SUFFIX[f])) for i, f in enumerate(fmts)]
            db.to_file(names[0], FMTS[fmts[0]])
            for i in range(1, len(fmts)):
                convert(names[i - 1], names[i], from_format=FMTS[fmts[i - 1]], to_format=FMTS[fmts[i]], preserve_case=pc)
            return enc_db(parse_file(names[-1], FMTS[fmts[-1]]))
        finally:
            shutil.rmtree(d, ignore_errors=True)
    return call_impl(run)

def impl_shared(arg):
    way, op, w = arg[0], arg[1], arg[2]
    with strict_mode():
        try:
            A = mk_db(w); B = derive_b(way, A)
        except Exception as e:
            return ['HARNESS', 'could not build the shared databases', repr(e)]
        return [_op(op, A), _op(op, B)]

def impl_shared_pickle_repr(arg):
    way, w = arg[0], arg[1]
    from pybtex.database import BibliographyData, Entry, Person
    from pybtex.utils import OrderedCaseInsensitiveDict
    env = {'BibliographyData': BibliographyData, 'Entry': Entry, 'Person': Person, 'OrderedCaseInsensitiveDict': OrderedCaseInsensitiveDict}
    with strict_mode():
        A = mk_db(w); B = derive_b(way, A)
        return [call_impl(lambda: enc_db(pickle.loads(pickle.dumps(A)))), call_impl(lambda: enc_db(pickle.loads(pickle.dumps(B)))),
                call_impl(lambda: enc_db(eval(repr(A), env))), call_impl(lambda: enc_db(eval(repr(B), env)))]

def model_arg(fn, arg):
    if fn == 19:      # the model has values, not objects: it gets B as the database it is (own keys)
        return [arg[1], arg[2], expected_b(arg[0], arg[2])]
    return arg

ENCODINGS = [None, 'utf-8', 'ascii', 'latin-1', 'utf-16']

def _rt_step(db, fmt, enc, via_file):
    from pybtex.database import parse_string, parse_file
    kw = {'encoding': ENCODINGS[enc]} if ENCODINGS[enc] else {}
    if not via_file:
        return call_impl(lambda: enc_db(parse_string(db.to_string(FMTS[fmt], **kw), FMTS[fmt])))
    def run():
        d = tempfile.mkdtemp(prefix='c02_')
        try:
            f = os.path.join(d, 'f' + SUFFIX[fmt])
            db.to_file(f, FMTS[fmt], **kw)
            return enc_db(parse_file(f, FMTS[fmt], **kw))
        finally:
            shutil.rmtree(d, ignore_errors=True)
    return call_impl(run)

def impl_history(arg):
    """a history of write/read round trips in ONE process: steps [format, encoding index, via file]; every step
    writes its own database (steps[i][3]) and is judged on its own"""
    if len(arg) > 1 and arg[1]:
        # the history in a FRESH interpreter: its first write is the first write of the process
        import subprocess, sys, json
        p = subprocess.run([sys.executable, '-B', '-c',
                            'import sys, json; from props import c02; print(json.dumps(c02.impl_history([json.load(sys.stdin)])))'],
                           input=json.dumps(arg[0]), capture_output=True, text=True, timeout=120)
        if p.returncode != 0:
            return ['HARNESS', 'fresh interpreter failed', p.stderr[-600:]]
        return json.loads(p.stdout.strip().splitlines()[-1])
    out = []
    with strict_mode():
        for fmt, enc, via_file, w in arg[0]:
            try:
                db = mk_db(w)
            except Exception:
                out.append([2]); continue
            out.append(_rt_step(db, fmt, enc, via_file))
    return out

def impl_convert_history(arg):
    """a history of convert() calls in ONE process; a step = [from format, to format, input_encoding, output_encoding,
    preserve_case, parser_options given?, database]: the source file is written with the input encoding, convert() is
    called with these arguments, the target is read with the output encoding; every step is judged on its own"""
    if len(arg) > 1 and arg[1]:
        import subprocess, sys, json
        p = subprocess.run([sys.executable, '-B', '-c',
                            'import sys, json; from props import c02; print(json.dumps(c02.impl_convert_history([json.load(sys.stdin)])))'],
                           input=json.dumps(arg[0]), capture_output=True, text=True, timeout=120)
        if p.returncode != 0:
            return ['HARNESS', 'fresh interpreter failed', p.stderr[-600:]]
        return json.loads(p.stdout.strip().splitlines()[-1])
    from pybtex.database import parse_file
    from pybtex.database.convert import convert
    out = []
    with strict_mode():
        for ffmt, tfmt, ienc, oenc, pc, po, w in arg[0]:
            def run():
                db = mk_db(w)
                d = tempfile.mkdtemp(prefix='c02_')
                try:
                    src = os.path.join(d, 'src' + SUFFIX[ffmt]); dst = os.path.join(d, 'dst' + SUFFIX[tfmt])
                    db.to_file(src, FMTS[ffmt], **({'encoding': ENCODINGS[ienc]} if ENCODINGS[ienc] else {}))
                    kw = {}
                    if ENCODINGS[ienc]: kw['input_encoding'] = ENCODINGS[ienc]
                    if ENCODINGS[oenc]: kw['output_encoding'] = ENCODINGS[oenc]
                    if po: kw['parser_options'] = {}
                    convert(src, dst, from_format=FMTS[ffmt], to_format=FMTS[tfmt], preserve_case=bool(pc), **kw)
                    return enc_db(parse_file(dst, FMTS[tfmt], **({'encoding': ENCODINGS[oenc]} if ENCODINGS[oenc] else {})))
                finally:
                    shutil.rmtree(d, ignore_errors=True)
            out.append(call_impl(run))
    return out

def encodable(w, enc):
    name = ENCODINGS[enc]
    if name is None or name.startswith('utf'):
        return True
    try:
        for e in w[0]:
            S(e[0]).encode(name)
        for t in db_strings(w):
            t.encode(name)
    except UnicodeError:
        return False
    return True

PERSON = ('T', ('L', 'S'), ('L', 'S'), ('L', 'S'), ('L', 'S'), ('L', 'S'))
ENTRY = ('T', 'S', 'S', ('L', ('T', 'S', 'S')), ('L', ('T', 'S', ('L', PERSON))))
DB = ('T', ('L', ENTRY), ('L', 'S'))
FUNCS = {
    1: ('pybtex.database.output.bibtex.Writer.quote', impl_quote, ('T', 'S')),
    2: ('pybtex.database.output.bibtex.Writer.check_braces', impl_check_braces, ('T', 'S')),
    3: ('pybtex.database.output.bibtex.Writer._format_name', impl_format_name, ('T', PERSON)),
    4: ("BibliographyData.to_string('bibtex')", impl_to_bibtex, ('T', DB)),
    5: ("latexcodec ulatex+utf-8 (Writer._encode)", impl_enc, ('T', 'S')),
    6: ("yaml Writer._to_dict as dumped (tree of to_string('yaml'))", impl_to_yaml_tree, ('T', DB)),
    7: ("yaml Parser.parse_stream/process_entry on a tree", impl_from_yaml_tree, ('T', 'X')),
    8: ("bibtexml Writer._write as an element tree", impl_to_xml_tree, ('T', DB)),
    9: ("bibtexml Parser.parse_tree/process_entry/process_person on an element tree", impl_from_xml_tree, ('T', 'X')),
    10: ('Person(first=..., middle=..., ...) of get_part_as_text', impl_reparse_person, ('T', PERSON)),
    11: ('BibliographyData.lower()', impl_lower, ('T', DB)),
    12: ('parse_string(data.to_string(fmt), fmt)', impl_write_read, ('T', 'X', DB)),
    13: ('to_file + convert() chain + parse_file', impl_chain, ('T', ('L', 'X'), 'B', DB)),
    15: ('pickle.loads(pickle.dumps(data)) (oracle only)', impl_pickle, ('T', DB)),
    16: ('eval(repr(data)) (oracle only)', impl_repr_eval, ('T', DB)),
    18: ("parse_string(text, 'bibtex') as a database", impl_read_bibtex, ('T', 'S')),
    19: ('round trip / chain of A and of B derived from the Entry objects of A', impl_shared, ('T', 'X', 'X', DB)),
    21: ('history of write/read round trips with writer encodings, one process (oracle only)', impl_history, ('T', ('L', ('T', 'X', 'X', 'X', DB)), 'X')),
    23: ('history of convert() calls with encodings / parser options, one process (oracle only)', impl_convert_history, ('T', ('L', ('T', 'X', 'X', 'X', 'X', 'X', 'X', DB)), 'X')),
    24: ('history of convert() calls as the first calls of a fresh interpreter (oracle only)', impl_convert_history, ('T', ('L', ('T', 'X', 'X', 'X', 'X', 'X', 'X', DB)), 'X')),
    22: ('history of round trips as the first writes of a fresh interpreter (oracle only)', impl_history, ('T', ('L', ('T', 'X', 'X', 'X', DB)), 'X')),
    20: ('pickle and repr/eval of A and of B derived from the Entry objects of A (oracle only)', impl_shared_pickle_repr, ('T', 'X', DB)),
}

def _ws(cps):
    """collapse whitespace runs: the layout of the .bib text (indentation, line ends) is not an observable of the property"""
    out, prev = [], False
    for c in cps:
        if chr(c).isspace():
            if not prev:
                out.append(32)
            prev = True
        else:
            out.append(c); prev = False
    return out

def _xml_canon(x):
    tag, i, text, cs = x
    if cs:      # the text of an element with children is layout; the reader only strip()s it
        text = [[ord(ch) for ch in S(text[0]).strip()]] if text else text
    return [tag, i, text, [_xml_canon(c) for c in cs]]

# the order-independence replay of core.py re-runs a sample in one process: the cases that start interpreters of their
# own or go through many temp files are left out of it (they are histories themselves)
ORDER_REPLAY_SKIP_FUNCS = (13, 20, 22, 24)

def canon(fn, r):
    if fn in (15, 16, 20, 21, 22, 23, 24):
        return []          # no model: the oracle alone judges these
    if fn == 19:
        return [canon_res(x) for x in r] if isinstance(r, list) and len(r) == 2 else r
    r = canon_res(r)
    try:
        if fn == 4 and r[0] == 0:
            return [0, _ws(r[1])]
        if fn == 3:
            return _ws(r)
        if fn == 8 and r[0] == 0:
            return [0, _xml_canon(r[1])]
    except Exception:
        pass
    return r

# ---------------------------------------------------------------------------------------
# the property's domain, in plain Python
PY_WS = set(chr(c) for c in list(range(9, 14)) + list(range(28, 33)) + [133, 160, 5760] + list(range(8192, 8203)) + [8232, 8233, 8239, 8287, 12288])

def balanced(s):
    d = 0
    for c in s:
        if c == '{':
            d += 1
        elif c == '}':
            d -= 1
            if d < 0:
                return False
    return d == 0

def max_depth(s):
    d = m = 0
    for c in s:
        if c == '{':
            d += 1; m = max(m, d)
        elif c == '}':
            d -= 1
    return m

def ws_normalised(s):
    """no leading / trailing whitespace, every whitespace is one U+0020"""
    prev_space = True
    for c in s:
        if c in PY_WS:
            if c != ' ' or prev_space:
                return False
            prev_space = True
        else:
            prev_space = False
    return not (s and s[-1] == ' ')

def xml_ok(s):
    for c in s:
        o = ord(c)
        if not (o in (9, 10) or 0x20 <= o <= 0xD7FF or 0xE000 <= o <= 0xFFFD or o >= 0x10000):
            return False
        if o in (0x85, 0x2028):      # line ends XML 1.1 / some parsers normalise
            return False
    return True

_IDENT = re.compile(r'[A-Za-z][A-Za-z0-9.\-]*\Z')
def ident_ok(s):
    return bool(_IDENT.match(s))

def key_ok(s):
    return bool(s) and all(ord(c) > 32 and ord(c) != 127 and c not in ',}' and c not in PY_WS and not (0x80 <= ord(c) < 0xa0) for c in s)

def spellings(p):
    """BibTeX spellings of a person given by its parts: 'von Last, Jr, First Middle', 'von Last, First Middle',
    'von Last'.  A spelling that ends with a comma is not BibTeX name syntax (BibTeX: "name has a comma at the
    end"), so a person with a lineage part but no first name, or several last tokens and nothing else, is not
    expressible; an empty 'von Last' part (', Plato') is accepted."""
    first, middle, von, last, jr = [[S(t) for t in part] for part in p]
    vl, j, fm = ' '.join(von + last), ' '.join(jr), ' '.join(first + middle)
    out = []
    if fm:
        out.append('%s, %s, %s' % (vl, j, fm))
        if not jr:
            out.append('%s, %s' % (vl, fm))
    elif not jr:
        out.append(vl)
    return out

def person_spelling(p):
    """a BibTeX name string that denotes exactly this person (None: not expressible in BibTeX name syntax).
    What a string denotes is decided by the plain-Python reading of BibTeX name syntax of the C04 check
    (props.c04.o_expect: Unicode-aware letter case), NOT by pybtex's own parser -- a defect of that parser must not
    move persons out of the oracle's domain."""
    from props.c04 import o_expect
    for part in p:
        for t in part:
            if not t:
                return None
    if not any(p):
        return None
    want = [[S(t) for t in part] for part in p]
    for text in spellings(p):
        if not (balanced(text) and max_depth(text) < 90):
            continue
        try:
            back, rep = o_expect(text)
        except Exception:
            continue
        if not rep and [list(x) for x in back] == want:
            return text
    return None

def persons_expressible(ps):
    """every person of the role is denoted by some BibTeX name string; no token is the word 'and' (any letter case),
    so that the ' and '-joined list of these strings denotes the list"""
    if not ps:
        return False
    for p in ps:
        if person_spelling(p) is None:
            return False
        for part in p:
            for t in part:
                t = S(t)
                if not ws_normalised(t) or t.lower() == 'and' or any(c in PY_WS for c in t if not _inside_braces(t)):
                    return False
    return True

def _inside_braces(t):
    return '{' in t

def db_strings(w, preamble=True):
    for key, otype, fields, persons in w[0]:
        for k, v in fields:
            yield S(v)
        for role, ps in persons:
            for p in ps:
                for part in p:
                    for t in part:
                        yield S(t)
    if preamble:
        for x in w[1]:
            yield S(x)

def in_domain(w, fmts):
    """the quantifier of the property: brace-balanced values (whitespace-normalised for BibTeX,
    XML-representable for BibTeXML), persons expressible in BibTeX name syntax, identifiers that are
    identifiers, keys unique up to case"""
    seen = set()
    for key, otype, fields, persons in w[0]:
        key, otype = S(key), S(otype)
        if not key_ok(key) or key.lower() in seen:
            return False
        seen.add(key.lower())
        if not ident_ok(otype) or otype.lower() in ('comment', 'string', 'preamble'):
            return False
        fseen = set()
        for k, v in fields:
            k = S(k)
            if not ident_ok(k) or k.lower() in fseen or k.lower() in ('author', 'editor'):
                return False
            fseen.add(k.lower())
        rseen = set()
        for role, ps in persons:
            role = S(role)
            if role.lower() not in ('author', 'editor') or role.lower() in rseen:
                return False
            rseen.add(role.lower())
            if not persons_expressible(ps):
                return False
    # field values and name tokens one by one; the preamble as the TEXT it is (the concatenation of its strings)
    pre = ''.join(S(x) for x in w[1])
    for s in list(db_strings(w, preamble=False)) + [pre]:
        if not balanced(s) or max_depth(s) >= 90:
            return False
        if 0 in fmts and not ws_normalised(s):
            return False
        if 1 in fmts and not xml_ok(s):
            return False
    return True

def view(w, lower_ids=False, keep_preamble=True, lower_types=True):
    """what the property compares: keys in order, entry types, fields in order, persons per role,
    the preamble (as one text)"""
    lo = (lambda s: s.lower()) if lower_ids else (lambda s: s)
    ents = []
    for key, otype, fields, persons in w[0]:
        ents.append((lo(S(key)), S(otype).lower() if lower_types else S(otype),
                     tuple((lo(S(k)), S(v)) for k, v in fields),
                     tuple((lo(S(r)), tuple(tuple(tuple(S(t) for t in part) for part in p) for p in ps)) for r, ps in persons if ps)))
    return (tuple(ents), ''.join(S(x) for x in w[1]) if keep_preamble else '')

def has_five(w):
    return any(c in s for s in db_strings(w) for c in FIVE)

def odd_roles(w):
    return any(S(r) not in ('author', 'editor') for e in w[0] for r, ps in e[3] if ps)

def type_field(w):
    return any(S(k).lower() == 'type' for e in w[0] for k, v in e[2])

def lineage_without_first(w):
    return any(p[4] and not p[0] and not p[1] for e in w[0] for r, ps in e[3] for p in ps)

def str_not_reparsed(w):
    """some person is not what Person(str(person)) denotes (Person.__str__ drops empty parts)"""
    from pybtex.database import Person
    try:
        with strict_mode():
            for e in w[0]:
                for r, ps in e[3]:
                    for p in ps:
                        q = mk_person(p)
                        if enc_person(Person(str(q))) != enc_person(q):
                            return True
    except Exception:
        return True
    return False

def repr_key_clash(w):
    """BibliographyData.__repr__ puts a line break before the first occurrence of each key in
    repr(entries); that occurrence is not the key's own tuple"""
    try:
        with strict_mode():
            db = mk_db(w)
        r = repr(db.entries)
        for key in db.entries.keys():
            own = r.find('(%r, Entry(' % key)
            if own < 0 or r.index(key) != own + 2:
                return True
    except Exception:
        return False
    return False

_STATS = {}
def _count(k):
    _STATS[k] = _STATS.get(k, 0) + 1

def oracle(fn, arg, out):
    """the property itself, on the implementation's outputs"""
    return _oracle(fn, arg, out)

_LAST = [False]
def _oracle(fn, arg, out):
    _LAST[0] = False
    if fn in (23, 24):
        # every convert() call of the history on its own: the target holds the source's data (identifiers lower-cased without
        # preserve_case); a BibTeX file with an encoding that cannot carry the text is outside the identity domain
        for i, ((ffmt, tfmt, ienc, oenc, pc, po, w), o) in enumerate(zip(arg[0], out)):
            if (ffmt == 0 and not encodable(w, ienc)) or (tfmt == 0 and not encodable(w, oenc)):
                continue
            if (0 in (ffmt, tfmt) and has_five(w)) or (2 in (ffmt, tfmt) and type_field(w)):
                continue
            if not in_domain(w, [ffmt, tfmt]):
                continue
            if o[0] != 0:
                return 'call %d of %d: convert(%s -> %s, input_encoding=%r, output_encoding=%r, preserve_case=%s) raised %s' % (
                    i + 1, len(arg[0]), FMTS[ffmt], FMTS[tfmt], ENCODINGS[ienc], ENCODINGS[oenc], bool(pc), 'a pybtex error' if o[0] == 1 else 'a foreign exception')
            keep = 1 not in (ffmt, tfmt)
            exp = view(w, lower_ids=not pc, keep_preamble=keep); got = view(o[1], lower_ids=not pc, keep_preamble=keep)
            if got != exp or (not pc and view(o[1], keep_preamble=keep) != got):
                return 'call %d of %d: convert(%s -> %s, input_encoding=%r, output_encoding=%r, preserve_case=%s) does not reproduce the data: got %r, expected %r' % (
                    i + 1, len(arg[0]), FMTS[ffmt], FMTS[tfmt], ENCODINGS[ienc], ENCODINGS[oenc], bool(pc), got, exp)
        return None
    if fn in (21, 22):
        # each step of the history on its own: with an encoding that can carry the text the round trip is the identity
        # (BibTeX with 'ascii' / 'latin-1' and text outside that repertoire writes LaTeX escapes or raises: outside the identity domain)
        for i, ((fmt, enc, via_file, w), o) in enumerate(zip(arg[0], out)):
            if fmt == 0 and not encodable(w, enc):
                continue
            m = _oracle(12, [fmt, w], o)
            if m and not (fmt == 0 and has_five(w)) and not (fmt == 2 and type_field(w)):
                return 'step %d of %d (%s, encoding=%r, %s): %s' % (i + 1, len(arg[0]), FMTS[fmt], ENCODINGS[enc], 'file' if via_file else 'string', m)
        return None
    if fn in (19, 20):
        # every database keeps its OWN keys (the dictionary keys, in order), whatever other database holds the same Entry objects
        way, w = arg[0], arg[-1]
        wb = expected_b(way, w)
        if fn == 19:
            op = arg[1]
            sub = (12, lambda x: [op, x]) if op in (0, 1, 2) else (13, lambda x: [[1, 0, 2], 1, x]) if op == 3 else (13, lambda x: [[2, 1], 0, x])
            for name, db, o in (('A', w, out[0]), ('B', wb, out[1])):
                m = _oracle(sub[0], sub[1](db), o)
                if m:
                    return 'with B = %s: database %s: %s' % (WAYS[way], name, m)
            return None
        for name, db, o, f2 in (('A', w, out[0], 15), ('B', wb, out[1], 15), ('A', w, out[2], 16), ('B', wb, out[3], 16)):
            m = _oracle(f2, [db], o)
            if m and not (f2 == 16 and (str_not_reparsed(db))):
                return 'with B = %s: database %s: %s' % (WAYS[way], name, m)
        return None
    if fn == 12:
        fmts, pc, w = [arg[0]], True, arg[1]
    elif fn == 13:
        fmts, pc, w = arg[0], bool(arg[1]), arg[2]
    elif fn in (11, 15, 16):
        fmts, pc, w = [], True, arg[0]
    else:
        return None
    if not in_domain(w, fmts if fn in (12, 13) else [0, 1, 2] if fn == 16 else []):
        return None
    _LAST[0] = True
    if fn == 11:
        if out[0] != 0:
            return 'lower() raised on a database of the domain'
        if view(out[1], lower_types=False) != view(w, lower_ids=True, lower_types=True):
            return 'lower() changed more (or less) than the letter case of keys, types, field names and roles: %r' % (view(out[1]),)
        return None
    what = {12: 'writing as %s and reading back' % '/'.join(FMTS[f] for f in fmts),
            13: 'the conversion chain %s (preserve_case=%s)' % (' -> '.join(FMTS[f] for f in fmts), pc),
            15: 'pickling', 16: 'repr/eval'}[fn]
    if out[0] != 0:
        return '%s raised %s on a database of the domain' % (what, 'a pybtex error' if out[0] == 1 else 'a foreign exception')
    keep_pre = 1 not in fmts
    lower = (not pc) and len(fmts) > 1
    exp = view(w, lower_ids=lower, keep_preamble=keep_pre)
    got = view(out[1], lower_ids=lower, keep_preamble=keep_pre)
    if got != exp:
        return '%s does not reproduce the database: got %r, expected %r' % (what, got, exp)
    if lower:
        # nothing but the letter case changed, and the identifiers are now lower case
        got2 = view(out[1], keep_preamble=keep_pre)
        if got2 != got:
            return '%s: identifiers are not lower-cased: %r' % (what, got2)
    return None

def _sub19(arg):
    op = arg[1]
    return (12, [op, arg[2]]) if op in (0, 1, 2) else (13, [[1, 0, 2], 1, arg[2]]) if op == 3 else (13, [[2, 1], 0, arg[2]])

KNOWN_SIGNATURES = {
    # the BibTeX writer re-escapes # % & _ ~ (set aside by the property text)
    'F18': lambda kind, fn, arg, detail: kind == 'oracle' and ((fn == 19 and 0 in ([arg[1]] if arg[1] < 3 else [0] if arg[1] == 3 else []) and has_five(arg[2])) or (fn == 12 and arg[0] == 0 and has_five(arg[1])) or
                                                              (fn == 13 and 0 in arg[0] and has_five(arg[2]))),
    # YAML writer: a field called "type" overwrites the entry type
    'FC02b': lambda kind, fn, arg, detail: kind == 'oracle' and ((fn == 19 and arg[1] in (2, 3, 4) and type_field(arg[2])) or (fn == 12 and arg[0] == 2 and type_field(arg[1])) or
                                                                (fn == 13 and 2 in arg[0] and type_field(arg[2]))),
    # Person.__repr__ = Person(str(person)): str() drops empty parts ('Plato' for first=Plato, 'Smith, Jr' for last+lineage)
    'FC02e': lambda kind, fn, arg, detail: kind == 'oracle' and fn == 16 and str_not_reparsed(arg[0]),
}

def replay_known(finding):
    p = finding.get('pinned')
    if not p:
        return None
    fn, arg = p['fn'], p['arg']
    out = FUNCS[fn][1](arg)
    msg = oracle(fn, arg, out)
    return ('still fails: ' + msg[:200]) if msg else None

def search_failing(ck, fn, arg, rng):
    """turn a model/implementation disagreement into a violation of the property: wrap the
    disagreeing value into a database and try the round trips on it"""
    cands = []
    if fn in (4, 6, 8, 11, 15, 16):
        cands = [arg[0]]
    elif fn == 12:
        cands = [arg[1]]
    elif fn == 13:
        cands = [arg[2]]
    elif fn in (1, 2, 5):
        cands = [[[['k', 'book', [['title', arg[0]]], []]], []], [[['k', 'book', [], []]], [arg[0]]]]
    elif fn in (3, 10):
        cands = [[[['k', 'book', [], [['author', [arg[0]]]]]], []]]
    for w in cands:
        w = norm(w)
        tries = [(12, [f, w]) for f in (0, 1, 2)] + [(13, [[0, 2, 1], 0, w]), (13, [[2, 0], 1, w]), (11, [w]), (15, [w]), (16, [w])]
        for f2, a2 in tries:
            try:
                m = oracle(f2, a2, FUNCS[f2][1](a2))
            except Exception:
                m = None
            if m and not ck.match_known('oracle', f2, a2, m):
                return (a2, '[%s] %s' % (FUNCS[f2][0], m))
    return None

def describe(fn, arg):
    def pd(w):
        return {'entries': [{'key': S(k), 'type': S(t), 'fields': [[S(a), S(b)] for a, b in fs],
                             'persons': [[S(r), [[[S(x) for x in part] for part in p] for p in ps]] for r, ps in prs]} for k, t, fs, prs in w[0]],
                'preamble': [S(x) for x in w[1]]}
    try:
        if fn in (1, 2, 5, 18):
            return {'text': S(arg[0])}
        if fn in (3, 10):
            return {'person': [[S(x) for x in part] for part in arg[0]]}
        if fn in (4, 6, 8, 11, 15, 16):
            return pd(arg[0])
        if fn == 12:
            return {'format': FMTS[arg[0]], 'database': pd(arg[1])}
        if fn in (23, 24):
            return {'convert() history': [{'from': FMTS[a], 'to': FMTS[b], 'input_encoding': ENCODINGS[c], 'output_encoding': ENCODINGS[d], 'preserve_case': bool(e), 'parser_options': '{}' if f else 'default', 'database': pd(w)} for a, b, c, d, e, f, w in arg[0]]}
        if fn in (21, 22):
            return {'history': [{'format': FMTS[f], 'encoding': ENCODINGS[e], 'via': 'file' if v else 'string', 'database': pd(w)} for f, e, v, w in arg[0]]}
        if fn in (19, 20):
            return {'B derived by': WAYS[arg[0]], 'operation': (['bibtex', 'bibtexml', 'yaml', 'chain bibtexml>bibtex>yaml', 'chain yaml>bibtexml lower'][arg[1]] if fn == 19 else 'pickle, repr/eval'), 'database A': pd(arg[-1])}
        if fn == 13:
            return {'formats': [FMTS[f] for f in arg[0]], 'preserve_case': bool(arg[1]), 'database': pd(arg[2])}
    except Exception:
        pass
    return {'fn': fn, 'arg': arg}

def nontrivial(fn, arg, out):
    if fn in (15, 16, 19, 20, 21, 22, 23, 24):
        return True
    if not (isinstance(out, list) and out and out[0] == 0):
        return fn in (1, 2)
    if fn in (12, 13):
        return bool(out[1][0])
    return len(sx(out)) > 12

# ---------------------------------------------------------------------------------------
# generators
VALUES = ['', 'a', 'A b', '{A} b', 'a {b c} d', '"q"', 'x "y" {z}', '\\"{o}', '{\\"o}', 'a\\b', '$x^2$', 'a  b', ' a', '{', 'a}', '{a}}{', 'x\ty', 'a\nb',
          'a{\\"}b', '\\', 'a\\', '{{a}}', "it's", 'a, b', 'a and b', 'A = B', '@x', '(p)', 'eé', ' n', 'a b']
GOOD_VALUES = [v for v in VALUES if balanced(v) and ws_normalised(v)]
FIVE_VALUES = ['a#b', '100%', 'A & B', 'a_b', 'a~b', '~', '~ x', '#', '\\#', 'x\\_y', '%%', '{~}']
NAMES = ['Knuth', 'Donald E. Knuth', 'de la Fontaine, Jean', 'de la Fontaine, Jr., Jean', 'von Neumann, John', '{Barnes and Noble}', 'Jean de la Fontaine',
         '{\\"O}zt{\\"u}rk, A. B.', 'van der Waals', 'Ludwig van Beethoven', 'A. B. {\\relax C}harles', 'Last, First Middle More', 'de La, X', '{von} Hagen, {\\"a}b',
         'Smith, Jr, A', "d'Alembert, Jean le Rond", 'Mac-Donald, J.-P.',
         "Charles Louis Xavier Joseph Marie de la Vall{\\'e}e Poussin", 'von der zu und auf Hohen Lohe Waldenburg Schillingsf{\\"u}rst, Jr Sr III IV V, Aa Bb Cc Dd Ee Ff']
TYPES = ['book', 'Article', 'inProceedings', 'MISC', 'x-y.z']
FIELDS = ['title', 'Title', 'YEAR', 'note', 'Journal', 'x-ref', 'type', 'Type', 'b2', 'crossref']
KEYS = ['k', 'Key1', 'knuth:1984', 'a', 'e', 'Case', 'x.y-z', 'K2', 'lamport94', 'it', 'T', '"q', 'k{1', 'UPPER']
ROLES = ['author', 'editor', 'Author', 'EDITOR']

# value shapes a serialisation library may re-type or re-shape
RETYPE = ['007', '03', '0704', '0', '1e3', '1.5', '-1', '+2', '0x10', '0o7', '0b1', '1_000', '12:30', '1:2:3', '2001-01-01', '2001-01-01 10:00:00',
          'true', 'True', 'yes', 'no', 'on', 'off', 'null', 'Null', 'NULL', 'None', '.inf', '.nan', 'y', 'n', '=', '<<',
          '!x', '!!int 3', '*a', '|', '>', '- x', 'a: b', 'a:', ': a', '? x', '[a]', '[', ']', '@x', '`x', "'q'", "'", '"', '""', '{a}', '{}',
          '<', '<b>x</b>', ']]>', '<!-- c -->', '&amp;', '&lt;', '%', '%YAML', '---', '...', 'a -- b', 'a\\nb', 'tr\u00e9s', '\u03a9', '\u65e5\u672c', 'x' * 3000,
          ',', ', ', 'a,b']
RETYPE_FIVE = ['&', '&a', 'a & b', '# c', 'a #b', '~', '1_0', 'a ~ b']      # contain one of the five characters (BibTeX: F18)
RETYPE_WS = [' lead', 'trail ', ' both ', 'a  b', 'a\tb', 'a\nb', ' ', '\n', 'a \n b', '\u00a0x']  # not whitespace-normalised (outside the BibTeX domain)

UNI_VALUES = ['caf\u00e9 cr\u00e8me', 'Stra\u00dfe', '\u00c5ngstr\u00f6m', 'na\u00efve {\u00e9}', '\u0416\u0443\u0440\u043d\u0430\u043b \u0444\u0438\u0437\u0438\u043a\u0438', '\u65e5\u672c\u8a9e \u306e \u672c',
              'e\u0301 a\u0308 (combining)', '\u05d3\u05d5\u05d3 \u05d1\u05df', '\u0645\u062d\u0645\u062f', '\u0939\u093f\u0928\u094d\u0926\u0940', '\u0394\u03b9\u03b1 \u03b4\u03b9\u03b1', '\u00a0nbsp', 'x\u2014y \u201cq\u201d', '\U0001d400 astral']
UNI_KEYS = ['k\u043b\u044e\u0447', 'M\u00fcller2001', '\u65e5\u672c', 'cle\u0301']

def unicode_persons():
    """names in cased and caseless scripts: multi-token last names, lower-case (von) tokens in Greek / Cyrillic"""
    return [[['\u05d3\u05d5\u05d3'], [], [], ['\u05d1\u05df', '\u05d2\u05d5\u05e8\u05d9\u05d5\u05df'], []],          # Hebrew: two last-name tokens, caseless
            [['\u0645\u062d\u0645\u062f'], [], [], ['\u0628\u0646', '\u0633\u0644\u0645\u0627\u0646'], []],            # Arabic
            [['\u5c71\u7530'], ['\u592a'], [], ['\u5927', '\u90ce'], []],                                   # CJK
            [['\u0930\u093e\u092e'], [], [], ['\u0936\u0930\u094d\u092e\u093e', '\u0935\u0930\u094d\u092e\u093e'], []],          # Devanagari
            [['\u0399\u03c9\u03ac\u03bd\u03bd\u03b7\u03c2'], [], ['\u03c4\u03bf\u03c5'], ['\u0391\u03b3\u03c1\u03bf\u03cd'], []],                # Greek: lower-case von token
            [['\u0418\u0432\u0430\u043d'], ['\u041f.'], ['\u0432\u0430\u043d', '\u0434\u0435\u0440'], ['\u0412\u0430\u0430\u043b\u044c\u0441'], []],        # Cyrillic: von part
            [['\u0418\u0432\u0430\u043d'], [], [], ['\u0411\u043e\u043b\u044c\u0448\u043e\u0439', '\u041c\u0430\u043b\u044b\u0439'], ['\u043c\u043b.']],  # Cyrillic: two upper-case last tokens, jr
            [['Jos\u00e9'], [], ['de', 'la'], ['\u00d1u\u00f1ez', '\u00c1lvarez'], []],
            [['\u05d3\u05d5\u05d3'], [], [], [], []]]

# preambles built from several strings: white space at the seams (either side), a brace group split across two strings,
# empty strings in between; what is compared is the preamble TEXT (data.preamble, the concatenation)
PREAMBLES = [['\\PBX ', 'generated'], ['\\PBX', ' generated'], ['a ', 'b ', 'c'], ['{a', 'b}'], ['{a ', ' b}'], ['\\def\\x{', 'y}', ' z'],
             ['a', '', 'b'], ['', 'a'], ['a', ''], ['x ', '', 'y'], ['"q', 'r"'], ['p', '{q}', 'r s'], ['\\newcommand{\\noopsort}[1]{}', '\\newcommand{\\x}{ y }'],
             ['a ', ' b'], [' lead', 'trail '], ['one'], ['50% ', 'off'], ['caf\u00e9 ', 'cr\u00e8me']]

def explicit_persons():
    """persons given by explicit parts, including those without a last name"""
    A, B, V, L, J = ['Plato'], ['Bb'], ['von'], ['Last'], ['Jr']
    shapes = [[A, [], [], [], []], [A, B, [], [], []], [[], [], V, [], []], [[], [], [], [], J], [[], [], [], L, J], [[], [], V, L, J],
              [A, [], [], [], J], [[], B, [], L, []], [A, [], V, [], []], [A, B, V, L, J], [[], [], [], L, []], [A, [], [], L, []], [['A', 'B'], [], [], L, []],
              [[], [], ['De'], L, []], [[], [], V, ['de'], []], [['jean'], [], [], L, []]]
    return shapes

def parse_person(name):
    from pybtex.database import Person
    return enc_person(Person(name))

def rand_token(rng, bad=False):
    alpha = 'abcXYZ.-\'' if not bad else 'abX {}\\~,"'
    n = rng.randint(1, 5)
    t = ''.join(rng.choice(alpha) for _ in range(n))
    r = rng.random()
    if not bad:
        if r < 0.15:
            t = '{' + t + ' ' + rng.choice(['x', 'and', 'Y,z', '\\"o']) + '}'
        elif r < 0.25:
            t = '{\\' + rng.choice(['"', "'", 'relax ', 'c ']) + rng.choice('aoUC') + '}' + t
        elif r < 0.3:
            t = t + '\\' + rng.choice(["'e", '"u', 'ss{}'])
    return t

def rand_person(rng, bad=False):
    if not bad and rng.random() < 0.6:
        return parse_person(rng.choice(NAMES))
    k = lambda lo, hi: [rand_token(rng, bad) for _ in range(rng.randint(lo, hi))]
    first = k(0, 1)
    middle = k(0, rng.choice([2, 2, 5])) if first else []
    von = [t[0].lower() + t[1:] if t[0].isalpha() else 'v' + t for t in k(0, 2)] if rng.random() < 0.4 else []
    last = [t[0].upper() + t[1:] if t[0].isalpha() else 'L' + t for t in k(1, rng.choice([2, 2, 5]))]
    jr = k(0, 1) if rng.random() < 0.2 else []
    if bad:
        von = k(0, 2); last = k(0, 2)
        if rng.random() < 0.3:
            first = first + ['']
    return [first, middle, von, last, jr]

def rand_value(rng, pool=None):
    if rng.random() < 0.5:
        return rng.choice(pool or GOOD_VALUES)
    words = []
    for _ in range(rng.randint(1, 5)):
        w = ''.join(rng.choice('abcXYZ019.,;:!?()[]<>=+-*/|@$^`\'"\\') for _ in range(rng.randint(1, 6)))
        if rng.random() < 0.3:
            w = '{' + w + rng.choice(['', ' x', '{y}']) + '}'
        words.append(w)
    return ' '.join(words)

def rand_entry(rng, key, bad=False, five=False, allow_known=False):
    fields, seen = [], set()
    fpool = FIELDS if allow_known else [f for f in FIELDS if f.lower() != 'type']
    for _ in range(rng.randint(0, 4)):
        f = rng.choice(fpool)
        if f.lower() in seen and not bad:
            continue
        seen.add(f.lower())
        v = rng.choice(VALUES) if bad else rng.choice(FIVE_VALUES) if (five and rng.random() < 0.5) else rand_value(rng)
        fields.append([f, v])
    persons = []
    rpool = ROLES if allow_known else ['author', 'editor']
    rseen = set()
    for _ in range(rng.choice([0, 1, 1, 2])):
        r = rng.choice(rpool)
        if r.lower() in rseen and not bad:
            continue
        rseen.add(r.lower())
        persons.append([r, [rand_person(rng, bad and rng.random() < 0.5) for _ in range(rng.randint(0 if bad else 1, 3))]])
    return [key, rng.choice(TYPES), fields, persons]

def rand_db(rng, bad=False, five=False, allow_known=False, maxn=4):
    n = rng.randint(0 if bad else 1, maxn)
    keys = rng.sample(KEYS, n) if not bad else [rng.choice(KEYS + ['K', 'key1', 'a b', 'c,d', '']) for _ in range(n)]
    pre = []
    if rng.random() < 0.4:
        pre = rng.choice(PREAMBLES) if rng.random() < 0.4 else [rng.choice(['\\newcommand{\\noopsort}[1]{}', 'x', '"p"', '\\def\\x{y}'] + (VALUES if bad else []) + (['50% {a}', '#1'] if five else [])) for _ in range(rng.randint(1, 2))]
    return [[rand_entry(rng, k, bad, five, allow_known) for k in keys], pre]

def db_of(value=None, person=None, key='k', typ='book', field='title', role='author', pre=()):
    return [[[key, typ, [[field, value]] if value is not None else [], [[role, [person]]] if person is not None else []]], list(pre)]

def mutate_tree(rng, t, depth=0):
    """token-level damage of a YAML tree"""
    r = rng.random()
    if t[0] == 1:
        items = [[k, mutate_tree(rng, v, depth + 1) if rng.random() < 0.3 else v] for k, v in t[1]]
        if r < 0.15 and items:
            items.pop(rng.randrange(len(items)))
        elif r < 0.3:
            items.append([rng.choice(['type', 'Type', 'author', 'EDITOR', 'first', 'string', 'bogus', 'entries', 'preamble', 'K', 'k']),
                          rng.choice([[0, 'x'], [0, ''], [1, []], [2, []], [2, [[1, [['first', [0, 'A B']]]]]], [0, 'a, b, c, d'], [2, [[1, [['string', [0, 'a, b, c, d']]]]]]])])
        elif r < 0.4 and items:
            i = rng.randrange(len(items)); items[i] = [items[i][0].swapcase(), items[i][1]]
        return [1, items]
    if t[0] == 2:
        items = [mutate_tree(rng, v, depth + 1) if rng.random() < 0.3 else v for v in t[1]]
        if r < 0.2 and items:
            items.pop(rng.randrange(len(items)))
        elif r < 0.3:
            items.append(rng.choice([[0, 'x'], [1, []], [1, [['last', [0, 'Z']], ['bogus', [0, 'q']]]], [2, []]]))
        return [2, items]
    if r < 0.2:
        return [0, rng.choice(['', 'x y', ' a ', 'a~b', 'a\\ b', '{u v} w'])]
    if r < 0.3 and depth >= 2:
        return rng.choice([[1, []], [2, []]])
    return t

def mutate_xml(rng, x, depth=0):
    tag, i, text, cs = x
    r = rng.random()
    cs = [mutate_xml(rng, c, depth + 1) if rng.random() < 0.35 else c for c in cs]
    if r < 0.12 and cs:
        cs.pop(rng.randrange(len(cs)))
    elif r < 0.24:
        cs.insert(rng.randint(0, len(cs)), rng.choice([
            ['person', [], ['\n'], [['last', [], ['Z'], []]]], ['person', [], ['Last, First'], []], ['person', [], ['a, b, c, d'], []],
            ['first', [], ['A B'], []], ['bogus', [], ['q'], []], ['author', [], ['\n'], []], ['editor', [], ['  X Y '], []], ['string', [], ['v L, J, F'], []],
            ['entry', ['dup'], [], [['misc', [], [], []]]], ['entry', [], [], []], ['title', [], [], []], ['Title', [], ['again'], []], ['last', [], [], []], ['person', [], [], []]]))
    elif r < 0.3:
        text = rng.choice([[], [''], [' '], ['x'], ['\n    ']])
    elif r < 0.36:
        tag = rng.choice(['author', 'Author', 'entry', 'person', 'x', tag.swapcase() or 'y'])
    elif r < 0.4:
        i = rng.choice([[], ['k'], ['K'], ['other']])
    return [tag, i, text, cs]

def norm_str_db(w):
    return w

def model_tree_yaml(w):
    """the YAML tree of a database, built independently of pybtex (used to derive reader inputs)"""
    def person(p):
        return [1, [[n, [0, ' '.join(S(t) if not isinstance(t, str) else t for t in part)]] for n, part in zip(['first', 'middle', 'prelast', 'last', 'lineage'], p) if part]]
    ents = []
    for key, otype, fields, persons in w[0]:
        items = [['type', [0, otype]]] + [[k, [0, v]] for k, v in fields] + [[r, [2, [person(p) for p in ps]]] for r, ps in persons]
        ents.append([key, [1, items]])
    top = [['entries', [1, ents]]]
    if w[1]:
        top.append(['preamble', [0, ''.join(w[1])]])
    return [1, top]

def model_tree_xml(w):
    def person(p):
        return ['person', [], ['\n'], [[n, [], [' '.join(part)], []] for n, part in zip(['first', 'middle', 'prelast', 'last', 'lineage'], p) if part]]
    ents = []
    for key, otype, fields, persons in w[0]:
        kids = [[k, [], [v] if v else [], []] for k, v in fields] + [[r, [], ['\n  '], [person(p) for p in ps]] for r, ps in persons if ps]
        ents.append(['entry', [key], ['\n'], [[otype, [], ['\n'], kids]]])
    return ['file', [], ['\n\n'], ents]

def yaml_modelable(t):
    """the model has only string leaves: field values and the preamble must be strings (the code would str() anything)"""
    if t[0] != 1:
        return True
    top = dict((k, v) for k, v in t[1])
    if 'preamble' in top and top['preamble'][0] != 0:
        return False
    es = top.get('entries')
    if not es or es[0] != 1:
        return True
    for k, e in es[1]:
        if e[0] != 1:
            continue
        for f, v in e[1]:
            if f.lower() not in ('author', 'editor', 'type') and v[0] != 0:
                return False
    return True

def yaml_safe_tree(t):
    if t[0] == 0:
        return all(32 <= ord(c) < 127 for c in t[1])
    if t[0] == 1:
        return all(k and all(32 <= ord(c) < 127 for c in k) and yaml_safe_tree(v) for k, v in t[1]) and len({k for k, v in t[1]}) == len(t[1])
    return all(yaml_safe_tree(v) for v in t[1])

_XMLNAME = re.compile(r'[A-Za-z][A-Za-z0-9.\-]*\Z')
def xml_safe_tree(x):
    tag, i, text, cs = x
    ok = lambda s: all((32 <= ord(c) < 127) or c == '\n' for c in s)
    # (an empty text cannot be told from no text in XML: [''] is not a tree the parser can return)
    return bool(_XMLNAME.match(tag)) and all(ok(s) and '\n' not in s for s in i) and all(s and ok(s) for s in text) and all(xml_safe_tree(c) for c in cs)

def xml_lib_ok(fn, arg):
    """the XML library hypothesis covers element names that are XML names only (anything else is a ParseError of the
    library on reading): entry types, field names and roles of a database written as BibTeXML must be names; through
    FC02b a field value can become an entry type (yaml before bibtexml in a chain)"""
    if fn == 8:
        w, fm = arg[0], [1]
    elif fn == 12:
        w, fm = arg[1], [arg[0]]
    elif fn == 13:
        w, fm = arg[2], arg[0]
    else:
        return True
    if 1 not in fm:
        return True
    for e in w[0]:
        if not _XMLNAME.match(e[1]) or not all(_XMLNAME.match(k) for k, v in e[2]) or not all(_XMLNAME.match(r) for r, ps in e[3]):
            return False
        if 2 in fm and not all(_XMLNAME.match(v) for k, v in e[2] if k.lower() == 'type'):
            return False
    return True

def gen(tier, rng):
    for c in _gen(tier, rng):
        if xml_lib_ok(c[1], c[2]):
            yield c

def _gen(tier, rng):
    quick = tier == 'quick'
    # ---- pinned: defects of DESIGN.md section 4 for C02, findings, every disagreement seen while building
    kn = parse_person('Donald E. Knuth')
    for v in FIVE_VALUES:
        yield ('pinned', 12, [0, db_of(v)])
    yield ('pinned', 12, [0, db_of('a', pre=['50% off'])])
    yield ('pinned', 12, [1, db_of('T', kn, role='Author')])
    yield ('pinned', 13, [[0, 1, 0], 1, db_of('T', kn, role='Author', typ='Book', key='Key1')])
    yield ('pinned', 12, [2, db_of('Tech Rep', field='type', typ='techreport')])
    yield ('pinned', 12, [2, db_of('Tech Rep', field='Type', typ='techreport')])
    yield ('pinned', 16, [db_of('T', key='a')])
    yield ('pinned', 16, [[[['key1', 'techreport', [['title', 'T']], []], ['T', 'book', [], [['author', [parse_person('A B')]]]]], []]])
    yield ('pinned', 16, [[[['k1', 'book', [['title', 'it']], []], ['it', 'book', [], []]], []]])
    for p in ([['a\\'], ['b'], [], ['C'], []], [['\\'], [], [], ['L'], []], [['x\\', 'y'], [], [], ['Z'], []], [[], [], [], ['a\\', 'B'], []]):
        yield ('pinned', 10, [p]); yield ('pinned', 3, [p])
        for f in (0, 1, 2):
            yield ('pinned', 12, [f, db_of(None, p)])
    yield ('pinned', 12, [0, db_of('a', pre=['a', 'b'])])
    yield ('pinned', 12, [2, db_of('a', pre=['a', 'b'])])
    yield ('pinned', 11, [db_of('V', kn, key='Key', typ='Book', field='Title', role='Author', pre=['P'])])
    yield ('pinned', 12, [0, [[], []]]); yield ('pinned', 12, [1, [[], []]]); yield ('pinned', 12, [2, [[], ['x']]])

    # ---- exhaustive small scope
    n1 = 5 if quick else 6
    for n in range(0, n1 + 1):
        for t in itertools.product('a{}"\\ ', repeat=n):
            s = ''.join(t)
            yield ('exhaustive_quote', 1, [s])
            if n <= 4:
                yield ('exhaustive_quote', 2, [s])
    for n in range(0, (4 if quick else 5) + 1):
        for t in itertools.product('a~ #\\{', repeat=n):
            yield ('exhaustive_enc', 5, [''.join(t)])
    # one-field databases: every value of the pool x every format (+ as a preamble)
    for v in VALUES + FIVE_VALUES:
        for f in (0, 1, 2):
            yield ('exhaustive_values', 12, [f, db_of(v)])
            yield ('exhaustive_values', 12, [f, db_of('x', pre=[v])])
        yield ('exhaustive_values', 4, [db_of(v)])
        yield ('exhaustive_values', 6, [db_of(v)])
        yield ('exhaustive_values', 8, [db_of(v)])
    # persons: all names of the pool x roles x formats; small token pools for the part lists
    people = [parse_person(n) for n in NAMES]
    for p in people:
        yield ('exhaustive_persons', 3, [p]); yield ('exhaustive_persons', 10, [p])
        for role in ROLES:
            for f in (0, 1, 2):
                yield ('exhaustive_persons', 12, [f, db_of(None, p, role=role)])
    toks = ['A', 'b', '{C d}', 'e\\', '\\', 'f~g', '', '{\\"u}x']
    for first in [[], ['A'], ['A', 'b']]:
        for von in [[], ['b'], ['b', 'A']]:
            for last in itertools.chain([[]], ([t] for t in toks), ([a, b] for a in toks[:5] for b in toks[:5])):
                for jr in [[], ['Jr']]:
                    p = [first[:1], first[1:], von, last, jr]
                    yield ('exhaustive_persons', 3, [p]); yield ('exhaustive_persons', 10, [p])
                    if len(last) == 2 and not jr and not von:
                        continue
                    for f in (0, 1, 2):
                        yield ('exhaustive_persons', 12, [f, db_of(None, p)])
    # persons given by explicit parts (also without a last name): all formats, chains, lower, pickle, repr
    for p in explicit_persons():
        yield ('exhaustive_persons', 3, [p]); yield ('exhaustive_persons', 10, [p])
        w = db_of('T', p)
        for f in (0, 1, 2):
            yield ('explicit_persons', 12, [f, w])
            yield ('explicit_persons', 12, [f, db_of(None, p, role='editor')])
            yield ('explicit_persons', 12, [f, [[['k', 'book', [], [['author', [parse_person('Donald E. Knuth'), p, parse_person('de la Fontaine, Jean')]]]]], []]])
        for c in ([0, 1], [0, 2], [1, 0], [2, 0], [2, 1, 0], [0, 0]):
            for pc in (0, 1):
                yield ('explicit_persons', 13, [c, pc, w])
        yield ('explicit_persons', 15, [w]); yield ('explicit_persons', 16, [w]); yield ('explicit_persons', 11, [w])
        yield ('explicit_persons', 4, [w]); yield ('explicit_persons', 6, [w]); yield ('explicit_persons', 8, [w])
    # value shapes a serialisation library may re-type: in every position (field value, key, entry type, field name,
    # preamble, each name part), every format; chains sampled in the quick tier
    rt = RETYPE + RETYPE_FIVE + RETYPE_WS
    for i, v in enumerate(rt):
        tok_ok = v and not any(c.isspace() for c in v)
        cases = [db_of(v), db_of('x', pre=[v]), db_of('x', pre=['p', v]), db_of('x', key=v), db_of('x', typ=v), db_of('x', field=v),
                 [[['k1', 'book', [['title', v], ['note', v]], []], ['k2', 'misc', [['year', v]], []]], [v]]]
        for pos in range(5):
            p = [[], [], [], ['Last'], []]
            p[pos] = [v] if pos != 3 else ['Last', v]
            cases.append(db_of(None, p))
            if tok_ok and pos == 3:
                cases.append(db_of(None, [[v], [], [], [v], []]))
        for ci, w in enumerate(cases):
            for f in (0, 1, 2):
                yield ('retype_shapes', 12, [f, w])
            if ci < 2:
                yield ('retype_shapes', 6, [w]); yield ('retype_shapes', 8, [w]); yield ('retype_shapes', 4, [w])
                yield ('retype_shapes', 15, [w]); yield ('retype_shapes', 16, [w]); yield ('retype_shapes', 11, [w])
            if ci < 4 and (not quick or (i + ci) % 4 == 0):
                for c in ([2, 2], [2, 1], [0, 2], [2, 0], [1, 2, 0]):
                    yield ('retype_shapes', 13, [c, (i + ci) % 2, w])
        # the same shapes as leaves of reader trees
        ty = model_tree_yaml(norm_str_db(db_of(v, [['Aa'], [], [], [v or 'L'], []], pre=[v or 'p'])))
        if yaml_safe_tree(ty) or True:
            yield ('retype_shapes', 7, [ty])
        if xml_ok(v) and '\r' not in v:
            yield ('retype_shapes', 9, [model_tree_xml(norm_str_db(db_of(v, [['Aa'], [], [], [v or 'L'], []])))])
    # identifiers: keys x types x field names x roles, all formats, lower, pickle, repr
    for key in KEYS:
        for typ in TYPES[:3]:
            for field in FIELDS[:4] + ['type']:
                w = db_of('V {x}', people[2], key=key, typ=typ, field=field, role=ROLES[(len(key) + len(field)) % 4])
                for f in (0, 1, 2):
                    yield ('exhaustive_identifiers', 12, [f, w])
                yield ('exhaustive_identifiers', 11, [w])
                yield ('exhaustive_identifiers', 16, [w])
        yield ('exhaustive_identifiers', 15, [db_of('V', people[1], key=key)])
    # chains: every chain of <= 3 formats x preserve_case, on three databases
    base = [[[['Key1', 'Book', [['Title', 'A {B} {\\"c}'], ['YEAR', '1984']], [['author', [people[3], people[1]]]]],
              ['k2', 'misc', [['note', 'x "y" {z}']], [['editor', [people[5]]]]]], ['\\def\\x{y}']],
            db_of('a', people[0]), [[], []]]
    chains = [list(c) for n in (1, 2, 3) for c in itertools.product((0, 1, 2), repeat=n)]
    for ci, c in enumerate(chains):
        for pc in (0, 1):
            for bi, w in enumerate(base):
                if quick and bi > 0 and (ci + pc) % 4:
                    continue
                yield ('exhaustive_chains', 13, [c, pc, w])

    # ---- non-ASCII text in values, name tokens and keys, the writer's encoding option as a dimension (oracle only:
    #      the model's letter classes are ASCII), and histories of writes with different encodings in one process
    uni_dbs = []
    ups = unicode_persons()
    for i, v in enumerate(UNI_VALUES):
        uni_dbs.append([[[UNI_KEYS[i % len(UNI_KEYS)], 'book', [['title', v], ['note', UNI_VALUES[(i + 3) % len(UNI_VALUES)]]], [['author', [ups[i % len(ups)]]]]]], [v] if i % 3 == 0 else []])
    for i, p in enumerate(ups):
        uni_dbs.append(db_of('T', p)); uni_dbs.append([[['k', 'book', [], [['editor', [parse_person('Donald E. Knuth'), p]]]]], []])
    ascii_db = db_of('plain {A} text', parse_person('de la Fontaine, Jean'))
    latin_db = db_of('caf\u00e9 Stra\u00dfe', [['Jos\u00e9'], [], [], ['N\u00fa\u00f1ez'], []], key='M\u00fcller')
    for w in uni_dbs + [ascii_db, latin_db]:
        for fmt in (0, 1, 2):
            for enc in range(len(ENCODINGS)):
                yield ('unicode_encodings', 21, [[[fmt, enc, 0, w]], 0])
                if not quick or (fmt + enc) % 2 == 0:
                    yield ('unicode_encodings', 21, [[[fmt, enc, 1, w]], 0])
    hist_dbs = [uni_dbs[0], uni_dbs[4], uni_dbs[len(UNI_VALUES)], latin_db]
    for w in hist_dbs:
        for first in ([0, 2, 0, ascii_db], [0, 2, 1, ascii_db], [0, 3, 0, latin_db], [0, 4, 1, w], [1, 2, 1, w], [2, 4, 0, w]):
            for then in ([0, 0, 0, w], [0, 1, 1, w], [0, 4, 0, w]):
                yield ('history', 21, [[first, then], 0])
                yield ('history', 21, [[first, [2, 0, 0, w], then], 0])
    # ---- histories of convert() calls: encodings, parser_options and preserve_case vary from call to call
    conv_dbs = [uni_dbs[0], uni_dbs[4], latin_db, ascii_db]
    for k, w in enumerate(conv_dbs):
        for ienc in range(len(ENCODINGS)):
            for ffmt, tfmt in ((0, 2), (0, 0), (2, 0), (0, 1), (1, 0)):
                yield ('convert_history', 23, [[[ffmt, tfmt, ienc, (ienc + k) % len(ENCODINGS), (k + ienc) % 2, (ffmt + ienc) % 2, w]], 0])
    for first in ([0, 2, 3, 0, 1, 0, latin_db], [0, 0, 4, 1, 1, 0, uni_dbs[0]], [0, 2, 2, 0, 0, 1, ascii_db], [2, 0, 0, 3, 1, 0, latin_db], [0, 2, 0, 0, 1, 0, ascii_db]):
        for then in ([0, 2, 0, 0, 1, 0, uni_dbs[0]], [0, 0, 1, 0, 0, 0, uni_dbs[4]], [0, 2, 3, 0, 1, 1, latin_db], [0, 1, 4, 0, 1, 0, uni_dbs[0]]):
            yield ('convert_history', 23, [[first, then], 0])
            yield ('convert_history', 23, [[first, [2, 0, 0, 0, 1, 0, uni_dbs[0]], then], 0])
    for first in ([0, 2, 3, 0, 1, 0, latin_db], [0, 2, 0, 0, 1, 0, ascii_db], [0, 0, 4, 0, 1, 0, uni_dbs[0]], [2, 0, 0, 3, 1, 0, latin_db]):
        yield ('convert_history_fresh_process', 24, [[first, [0, 2, 0, 0, 1, 0, uni_dbs[0]], [0, 0, 3, 0, 0, 0, latin_db], [0, 2, 0, 0, 1, 1, uni_dbs[4]]], 1])
    for i in range(15 if quick else 200):
        steps = [[rng.choice([0, 0, 1, 2]), rng.choice([0, 1, 2]), rng.randrange(len(ENCODINGS)), rng.randrange(len(ENCODINGS)), rng.randint(0, 1), rng.randint(0, 1),
                  rng.choice(conv_dbs + uni_dbs[:6])] for _ in range(rng.randint(2, 3))]
        yield ('convert_history', 23, [steps, 0])
    # the same kind of history as the FIRST writes of a fresh interpreter (a process-wide cache filled by the first write)
    for first in ([0, 2, 0, ascii_db], [0, 2, 1, ascii_db], [0, 3, 0, latin_db], [0, 4, 1, ascii_db], [1, 2, 0, ascii_db], [2, 2, 0, ascii_db]):
        for k, w in enumerate(hist_dbs[:1] if quick else hist_dbs):
            yield ('history_fresh_process', 22, [[first, [0, 0, k % 2, w], [0, 1, 1 - k % 2, w]], 1])
    for i in range(20 if quick else 300):
        steps = [[rng.choice([0, 0, 1, 2]), rng.randrange(len(ENCODINGS)), rng.randint(0, 1), rng.choice(uni_dbs + [ascii_db, latin_db])] for _ in range(rng.randint(2, 3))]
        yield ('history', 21, [steps, 0])
    # ---- multi-string preambles in every kind of round trip
    kn0 = parse_person('Donald E. Knuth')
    for i, pre in enumerate(PREAMBLES):
        for w in (db_of('T', kn0, pre=pre), [[], pre], [[['k1', 'book', [['title', 'A']], []], ['k2', 'misc', [], []]], pre]):
            for f in (0, 1, 2):
                yield ('preamble_seams', 12, [f, w])
            yield ('preamble_seams', 4, [w]); yield ('preamble_seams', 6, [w]); yield ('preamble_seams', 11, [w])
            yield ('preamble_seams', 15, [w]); yield ('preamble_seams', 16, [w])
        w = db_of('T', kn0, pre=pre)
        for c in ([0, 0], [0, 2], [2, 0], [0, 2, 0], [2, 2]):
            yield ('preamble_seams', 13, [c, i % 2, w])
        for enc in (0, 2, 4):
            yield ('preamble_seams', 21, [[[0, enc, i % 2, w], [2, enc, 1 - i % 2, w]], 0])
        yield ('preamble_seams', 19, [1 + i % 5, i % 3, w])
    # ---- shared Entry objects: B derived from A's Entry objects in every public way, THEN A and B are written / read
    kn = parse_person('Donald E. Knuth')
    shared = [[[['Knuth84', 'Book', [['Title', 'A {B}'], ['YEAR', '1984']], [['author', [kn]]]], ['k2', 'misc', [['note', 'x']], []], ['UPPER', 'Article', [], [['Editor', [kn, parse_person('de la Fontaine, Jean')]]]]], ['pre']],
              db_of('T', kn, key='Key1'), db_of('v', key='a')]
    for i in range(3 if quick else 40):
        shared.append(rand_db(rng, maxn=3))
    for w in shared:
        for way in WAYS:
            for op in (0, 1, 2, 3, 4):
                case = ('shared_entries', 19, [way, op, w])
                if op < 3 or xml_lib_ok(13, [[1, 0, 2], 1, w]):
                    yield case
            yield ('shared_entries', 20, [way, w])
    # ---- structured random: mostly valid larger databases
    nr = 400 if quick else 6000
    for i in range(nr):
        w = rand_db(rng)
        f = i % 3
        yield ('random', 12, [f, w])
        k = i % 8
        if k == 0: yield ('random', 4, [w])
        elif k == 1: yield ('random', 6, [w])
        elif k == 2: yield ('random', 8, [w])
        elif k == 3: yield ('random', 11, [w])
        elif k == 4: yield ('random', 15, [w])
        elif k == 5: yield ('random', 16, [w])
        elif k == 6 and (not quick or i % 16 == 6):
            yield ('random', 13, [rng.choice(chains), rng.randint(0, 1), w])
    for i in range(nr // 2):
        yield ('random_persons', rng.choice([3, 10]), [rand_person(rng)])
    # ---- the tracked findings: five characters, odd role spellings, a field called type
    for i in range(60 if quick else 600):
        yield ('five_chars', 12, [0, rand_db(rng, five=True, maxn=2)])
        yield ('five_chars', 4, [rand_db(rng, five=True, maxn=2)])
        yield ('known_shapes', 12, [1 + i % 2, rand_db(rng, allow_known=True, maxn=2)])
        if i % 10 == 0:
            yield ('known_shapes', 13, [rng.choice(chains), rng.randint(0, 1), rand_db(rng, allow_known=True, five=(i % 20 == 0), maxn=2)])
    # ---- malformed: databases outside the domain (unbalanced values, repeated keys / fields, odd persons)
    nm = 300 if quick else 4000
    for i in range(nm):
        w = rand_db(rng, bad=True, maxn=3)
        yield ('malformed', [4, 6, 8, 11, 12, 12, 12][i % 7], [w] if i % 7 < 4 else [i % 3, w])
        yield ('malformed_persons', rng.choice([3, 10]), [rand_person(rng, bad=True)])
    # ---- reader inputs: the trees of valid databases, and damaged ones
    nt = 250 if quick else 3000
    for i in range(nt):
        w = rand_db(rng, allow_known=(i % 5 == 0), maxn=3)
        ty = model_tree_yaml(w)
        if yaml_safe_tree(ty):
            yield ('reader_trees', 7, [ty])
            m = mutate_tree(rng, ty)
            if yaml_safe_tree(m) and yaml_modelable(m):
                yield ('reader_trees_damaged', 7, [m])
        tx = model_tree_xml(w)
        if xml_safe_tree(tx):
            yield ('reader_trees', 9, [tx])
            m = mutate_xml(rng, tx)
            if xml_safe_tree(m):
                yield ('reader_trees_damaged', 9, [m])
    # ---- .bib texts: the writer's output damaged at character level (the reader under the round trip)
    for i in range(100 if quick else 1500):
        w = rand_db(rng, maxn=2)
        try:
            with strict_mode():
                text = mk_db(norm(w)).to_string('bibtex')
        except Exception:
            continue
        yield ('bib_texts', 18, [text])
        if text:
            j = rng.randrange(len(text))
            yield ('bib_texts_damaged', 18, [text[:j] + rng.choice(['', '{', '}', '"', ',', '@', ' # ', '=']) + text[j + rng.randint(0, 1):]])

def extra_checks(ck, tier, rng):
    # how many round trips the oracle really judges (inputs inside the property's domain); the oracle itself
    # runs in the worker pool, so the generated cases are classified again here
    import random as _r
    st = {}
    for stream, fn, arg in gen(tier, _r.Random(ck.seed)):
        if fn in (11, 12, 13, 15, 16):
            arg = norm(arg)
            w = arg[1] if fn == 12 else arg[2] if fn == 13 else arg[0]
            fm = [arg[0]] if fn == 12 else arg[0] if fn == 13 else [0, 1, 2] if fn == 16 else []
            k = '%s:%s' % (FUNCS[fn][0], 'judged' if in_domain(w, fm) else 'outside the domain')
            st[k] = st.get(k, 0) + 1
    yield {'name': 'oracle_domain_counts', 'evaluations': sum(v for k, v in st.items() if k.endswith(':judged')),
           'failures': [], 'info': dict(sorted(st.items()))}
    # library hypotheses, sampled directly: PyYAML and ElementTree reproduce string-leaf trees
    import yaml
    from xml.etree import ElementTree as ET
    n = 0; fails = []
    pool = VALUES + FIVE_VALUES + NAMES + KEYS + ['null', '1', 'true', '~', '- x', 'a: b', ' lead', 'trail ', '#c', "'", '""', '\\n', 'é', '\u00a0x', 'x\u2028y']
    for v in pool:
        t = {'entries': {'k': {'type': 'book', 'f': v}}, 'preamble': v or 'p'}
        n += 1
        try:
            back = yaml.load(yaml.dump(t, allow_unicode=True, default_flow_style=False, sort_keys=False), Loader=yaml.SafeLoader)
        except Exception as e:
            back = repr(e)
        if back != t:
            fails.append(('yaml %r' % v, 'PyYAML load(dump(t)) != t: %r' % (back,), False))
        if xml_ok(v) and '\r' not in v:
            n += 1
            el = ET.Element(NS + 'f'); el.text = v or None; el.set('id', 'K 1')
            b = ET.fromstring(ET.tostring(el, encoding='unicode'))
            if (b.text or '') != v or b.get('id') != 'K 1' or b.tag != NS + 'f':
                fails.append(('xml %r' % v, 'ElementTree fromstring(tostring(e)) differs: %r' % (b.text,), False))
    yield {'name': 'library_hypotheses_sample', 'evaluations': n, 'failures': fails[:5],
           'info': 'PyYAML load(dump(t)) = t and ElementTree fromstring(tostring(e)) = e on the value / name / key pools'}

RULE = ('pinned: the inputs of the findings (F18 five characters, FC02b field "type", FC02e repr of a person without last name; as regressions the repaired FC02a role spelling and FC02c repr), the trailing-backslash tokens of DESIGN.md, empty databases; '
        'exhaustive: Writer.quote/check_braces on every string over {a { } " \\ space} up to the length bound; the LaTeX encoder on every string over {a ~ space # \\ {}; '
        'one-field databases over a pool of 43 values (braces, quotes, backslashes, $ ^, whitespace shapes, unbalanced, non-ASCII) x 3 formats (value as field and as preamble); '
        'persons: 19 parsed names (parts of up to 6 tokens) x 4 role spellings x 3 formats and all part lists over a pool of 8 tokens (empty, trailing backslash, ~, braced); '
        'identifiers: 14 keys x 3 types x 5 field names x roles x formats/lower/repr; every chain of <= 3 formats x preserve_case. '
        'random: databases of 1-4 entries with 0-4 fields, 0-2 roles of 1-3 persons (parsed names or random token lists), optional preamble; '
        'preamble_seams: preambles built from several strings (white space at a seam on either side, a brace group split across two strings, empty strings) in every kind of round trip, compared as the preamble text; unicode_encodings / history: non-ASCII values, keys and name tokens (accented Latin, Cyrillic, Greek, Hebrew, Arabic, Devanagari, CJK, combining marks, astral) x formats x writer encoding (None, utf-8, ascii, latin-1, utf-16) x string / file, and histories of 2-3 such writes with different encodings in one process, each judged on its own (identity whenever the encoding can carry the text); shared_entries: a second database B is built from the Entry OBJECTS of A in every public way (constructor with a mapping / with re-keyed pairs / with wanted_entries in another spelling, add_entry and add_entries under other keys and letter case, lower()) and only then A and B are written and read back in every format, through two chains, pickled and repr-ed: each must keep its own keys; malformed: unbalanced / un-normalised values, repeated keys and fields, persons with empty or spaced tokens; reader trees: the YAML / XML tree of random databases and token-level damaged copies; '
        '.bib texts: writer output and character-level damaged copies. '
        'distinct = distinct (function, argument); non-trivial = the model reads back at least one entry (round trips) / produces a non-empty result.')
EXHAUSTIVE = {'quick': 'Writer.quote on all strings over {a,{,},",\\,space} of length <= 5; check_braces <= 4; latex encoder on all strings over {a,~,space,#,\\,{} of length <= 4; value pool x formats; person pool x roles x formats; all format chains of length <= 3 x preserve_case',
              'thorough': 'Writer.quote on all strings over {a,{,},",\\,space} of length <= 6; check_braces <= 4; latex encoder on all strings over {a,~,space,#,\\,{} of length <= 5; value pool x formats; person pool x roles x formats; all format chains of length <= 3 x preserve_case x 3 databases'}
TRUSTED_BASE = ['modelled (not verified) code: pybtex/database/output/{bibtex,bibyaml,bibtexml}.py, input/{bibtex,bibyaml,bibtexml}.py, database/__init__.py (add_entry, lower, Entry, Person parts), utils.py case-insensitive dicts, convert/__init__.py',
                'libraries behind the glue, not modelled: latexcodec (its measured behaviour is the function latex_enc of the model, compared on every run), PyYAML dump/load, xml.sax XMLGenerator, xml.etree.ElementTree, pickle, eval/repr']
ASSUMPTIONS = ['PyYAML: load(dump(t)) = t for trees of dicts / lists / str leaves (sampled: every yaml case goes through the real dump and load)',
               'xml.sax.saxutils.XMLGenerator + ElementTree.fromstring reproduce element names, the id attribute, text before the first child and child order (sampled: every bibtexml case)',
               "latexcodec 'ulatex+utf-8' is the identity on strings without # % & _ ~ (hypothesis enc v = v of quote_roundtrip; sampled, and exhaustively up to length 4/5 over a reduced alphabet)",
               'Python str.lower on identifiers = ASCII lower (identifiers of the domain are ASCII)']
PARTIAL = ['pickling and repr/eval are checked by the oracle only (Python object protocol, no Gallina model)',
           'the full bibtex_roundtrip / chain_roundtrip theorems are not proved: quote_roundtrip, the tree glue round trips, lower_only_case and the person-part round trip are; the composition is left to the correspondence run and the oracle',
           'PyYAML / XML library behaviour: hypotheses, sampled']
