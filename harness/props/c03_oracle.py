def oracle(fn, arg, out):
    return None
