# The property itself, in plain Python, on the implementation's outputs -- independent of pybtex:
#  (1) a small reference evaluator of the documented BST semantics (btxhak / bibtex.web) for programs that
#      do not read a database: literals, variables, := , + - < > = * , if$ while$, the stack built-ins,
#      int/chr/str conversions, empty$ missing$ substring$ text.length$ text.prefix$ add.period$ num.names$
#      (on strings where the documentation leaves no doubt), write$ newline$ top$ stack$.
#      Built-ins whose result it does not compute (purify$ change.case$ format.name$ width$ ...) yield an
#      "unknown" value that is tracked but never compared.  Ill-typed programs: the oracle abstains.
#  (2) ITERATE / REVERSE / SORT and per-entry variables, read off the output of probe programs of a fixed
#      shape (see c03_gen.order_probe): each citation once, REVERSE = the reverse order, SORT = a stable
#      permutation ordered by sort.key$, entry variables stay with their citation.
import re
from core import S

class Abstain(Exception):
    pass

class ExpectBibtexError(Exception):
    """the documentation says this operation is an error of the style program (reported as such)"""
    pass

class Unk(object):
    def __init__(self, t): self.t = t
    def __repr__(self): return '<unknown %s>' % self.t
UI, US = Unk('int'), Unk('str')

class CaseOf(Unk):
    """a string known up to the case of its letters: change.case$ changes case only -- every other character, white
    space included, stays where it is"""
    def __init__(self, s): Unk.__init__(self, 'str'); self.s = s
    def __repr__(self): return '<%r up to letter case>' % self.s

def is_int(v): return (isinstance(v, int) and not isinstance(v, bool)) or v is UI
def is_str(v): return isinstance(v, str) or v is US or isinstance(v, CaseOf)
def known(v): return not isinstance(v, Unk)

BUILTIN_NAMES = {'>', '<', '=', '*', ':=', '+', '-', 'add.period$', 'call.type$', 'change.case$', 'chr.to.int$', 'cite$',
                 'duplicate$', 'empty$', 'format.name$', 'if$', 'int.to.chr$', 'int.to.str$', 'missing$', 'newline$',
                 'num.names$', 'pop$', 'preamble$', 'purify$', 'quote$', 'skip$', 'substring$', 'stack$', 'swap$',
                 'text.length$', 'text.prefix$', 'top$', 'type$', 'warning$', 'while$', 'width$', 'write$'}
TEX = set('{}\\')

def ref_change_case(s, mode):
    """change.case$ from the documentation: t = lower case except the first character (and the first after a colon
    and white space), l = lower case, u = upper case, only outside braces and inside special characters; nothing but
    the case of letters ever changes.  Exact for strings without braces, backslashes and colons; otherwise the result is
    known up to letter case."""
    if not (known(s) and known(mode)) or not mode or mode[0].lower() not in 'lut':
        return US
    if not all(len(c.lower()) == 1 and len(c.upper()) == 1 for c in s):
        return US
    try:
        from props import c12
        if c12.ends_in_open_special(s):
            return US
    except Exception:
        return US
    if set(s) & set('{}\\:'):
        return CaseOf(s)
    m = mode[0].lower()
    if m == 'l': return s.lower()
    if m == 'u': return s.upper()
    return s[:1] + s[1:].lower()

_CW = None
def _cw(c):
    global _CW
    if _CW is None:
        from pybtex.charwidths import charwidths      # a table of numbers (data), not code
        _CW = charwidths
    return _CW.get(c, 0)

def lone_backslash_at_level_1(s):
    """a backslash at brace depth 1 that does not start a special character (it is not the first character of a
    depth-1 group opened at depth 0)"""
    depth = 0
    for i, c in enumerate(s):
        if c == '{': depth += 1
        elif c == '}': depth = max(0, depth - 1)
        elif c == '\\' and depth == 1 and not (i > 0 and s[i - 1] == '{'):
            return True
    return False

def ref_width(s):
    """width$ as documented (btxhak; the examples of bibtex_width's docstring): the sum of the widths of the characters,
    braces included; a special character (a group at depth 0 whose first character is a backslash) counts without its
    two braces and without the backslash and the character after it, inner braces not counted.  Unknown for unbalanced
    strings and for special characters whose control sequence has two or more letters (BibTeX skips the whole name)."""
    depth = i = w = 0
    while i < len(s):
        c = s[i]
        if c == '{':
            if depth == 0 and i + 1 < len(s) and s[i + 1] == '\\':
                j, d = i + 1, 1
                while j < len(s) and d > 0:
                    d += {'{': 1, '}': -1}.get(s[j], 0); j += 1
                if d > 0: return UI
                inner = s[i + 1:j - 1]
                if re.match(r'\\[A-Za-z]{2,}', inner): return UI
                w += sum(_cw(ch) for ch in inner[2:] if ch not in '{}')
                i = j
                continue
            depth += 1
        elif c == '}':
            if depth == 0: return UI
            depth -= 1
        w += _cw(c)
        i += 1
    return w if depth == 0 else UI

def ref_wrap(line):
    """BibTeX's output line: longer than 79 characters, it is broken at the last white space at or before column 79 (not
    within the indentation) or, if there is none, at the first one after it; exactly that one character is removed, the
    rest continues on a new line indented by two blanks; trailing white space of every line is dropped"""
    out, s = [], line
    while len(s) > 79:
        ws = [i for i, c in enumerate(s) if c == ' ' and i > 2]
        fit = [i for i in ws if i <= 79]
        if fit: p = fit[-1]
        elif ws: p = ws[0]
        else: break
        out.append(s[:p].rstrip(' '))
        s = '  ' + s[p + 1:]
    if s:
        out.append(s.rstrip(' '))
    return '\n'.join(out)

def ref_text_length(s):
    """btxhak: text.length$ counts characters; braces do not count, a special character (a group at brace depth 0
    whose first character is a backslash) counts as one.  Unbalanced strings: unknown."""
    n = depth = i = 0
    while i < len(s):
        c = s[i]
        if c == '{':
            if depth == 0 and i + 1 < len(s) and s[i + 1] == '\\':
                d, j = 1, i + 1
                while j < len(s) and d > 0:
                    d += 1 if s[j] == '{' else -1 if s[j] == '}' else 0
                    j += 1
                if d > 0: return UI
                n += 1; i = j
                continue
            depth += 1
        elif c == '}':
            if depth == 0: return UI
            depth -= 1
        else:
            n += 1
        i += 1
    return n if depth == 0 else UI

def ref_format_name(names, n, fmt):
    """format.name$ from the documentation (BibTeX's name-formatting rules as re-implemented, independently of
    pybtex/bibtex/names.py, by the C11 oracle: level-1 letters f/ff v/vv l/ll j/jj, abbreviation, the tie after a short
    first token and before the last token, a discretionary "~" at the end of a part (tie if the part has < 3 text
    characters, else a space), a forced "~~").  Splitting the list and the name into its four parts is C12's / C04's."""
    if not (known(names) and known(n) and known(fmt)):
        return US
    if any(not (32 <= ord(c) < 127) for c in names + fmt) or names.count(',') > 2 * (names.lower().count(' and ') + 1):
        return US
    from props import c11
    from pybtex.bibtex.utils import split_name_list
    try:
        l = split_name_list(names)
    except Exception:
        return US
    if not 1 <= n <= len(l):
        # BibTeX: "there is no name #n" -- also for n = 0 and negative n (never counted from the end)
        raise ExpectBibtexError('format.name$ asked for name #%d of %d' % (n, len(l)))
    try:
        cls = c11.classify_format(fmt)
        if cls[0] != 'ok' or c11.max_depth(l[n - 1]) > 50 or c11.max_depth(fmt) > 50:
            return US
        want = c11.spec_format(cls[1], c11._person_parts(l[n - 1]))
    except Exception:
        return US
    return US if want is None else want

class Ref(object):
    def __init__(self):
        self.vars = {'global.max$': ['int', UI], 'entry.max$': ['int', UI]}
        self.stack, self.buf, self.lines, self.printed = [], [], [], []
        self.out_ok = self.print_ok = True
        self.opaque = False       # a built-in the oracle does not compute was used: it may legitimately fail
        self.steps = 0
        self.warnings = 0
        self.width_args = []

    def pop(self, pred=None):
        if not self.stack:
            raise Abstain('underflow')
        v = self.stack.pop()
        if pred and not pred(v):
            raise Abstain('ill-typed')
        return v

    def call(self, v):
        if isinstance(v, tuple) and v[0] == 'F':
            self.run(v[1])
        elif isinstance(v, tuple) and v[0] == 'Q':
            self.ident(v[1])
        else:
            raise Abstain('not executable')

    def ident(self, name):
        n = name.lower()
        if n in self.vars:
            kind, val = self.vars[n]
            if kind == 'fun':
                self.run(val)
            else:
                self.stack.append(val)
        elif n in BUILTIN_NAMES:
            self.builtin(n)
        else:
            raise Abstain('undefined')

    def run(self, body):
        for t, v in body:
            self.steps += 1
            if self.steps > 20000:
                raise Abstain('too long')
            if t == 0: self.stack.append(v)
            elif t == 1: self.stack.append(S(v))
            elif t == 4: self.stack.append(('F', v))
            elif t == 3:
                n = S(v).lower()
                if n not in self.vars and n not in BUILTIN_NAMES:
                    raise Abstain('undefined')
                self.stack.append(('Q', n))
            else:
                self.ident(S(v))

    def builtin(self, b):
        st = self.stack
        if b in ('+', '-'):
            x = self.pop(is_int); y = self.pop(is_int)
            st.append(UI if not (known(x) and known(y)) else (y + x if b == '+' else y - x))
        elif b in ('<', '>'):
            x = self.pop(is_int); y = self.pop(is_int)
            st.append(UI if not (known(x) and known(y)) else int(y < x if b == '<' else y > x))
        elif b == '=':
            x = self.pop(); y = self.pop()
            if not ((is_int(x) and is_int(y)) or (is_str(x) and is_str(y))):
                raise Abstain('ill-typed')
            st.append(UI if not (known(x) and known(y)) else int(x == y))
        elif b == '*':
            x = self.pop(is_str); y = self.pop(is_str)
            st.append(US if not (known(x) and known(y)) else y + x)
        elif b == ':=':
            q = self.pop(lambda v: isinstance(v, tuple) and v[0] == 'Q')
            v = self.pop()
            if q[1] not in self.vars or self.vars[q[1]][0] == 'fun':
                raise Abstain('not a variable')
            kind = self.vars[q[1]][0]
            if not ((kind == 'int' and is_int(v)) or (kind == 'str' and is_str(v))):
                raise Abstain('ill-typed')
            self.vars[q[1]] = [kind, v]
        elif b == 'add.period$':
            s = self.pop(is_str)
            if not known(s): st.append(US)
            elif s == '': st.append(s)
            else:
                core = s.rstrip('}')
                if core == '': raise Abstain('all braces')
                st.append(s if core[-1] in '.?!' else s + '.')
        elif b in ('change.case$',):
            mode = self.pop(is_str); s = self.pop(is_str); self.opaque = True
            st.append(ref_change_case(s, mode))
        elif b == 'purify$':
            self.pop(is_str); self.opaque = True; st.append(US)
        elif b == 'width$':
            s = self.pop(is_str); self.opaque = True
            if known(s): self.width_args.append(s)
            st.append(ref_width(s) if known(s) and all(32 <= ord(c) < 127 for c in s) else UI)
        elif b == 'format.name$':
            fmt = self.pop(is_str); n = self.pop(is_int); names = self.pop(is_str)
            self.opaque = True        # may legitimately be a BibTeX error (malformed format, nesting too deep)
            st.append(ref_format_name(names, n, fmt))
        elif b == 'chr.to.int$':
            s = self.pop(is_str)
            if not known(s): st.append(UI)
            elif len(s) != 1: raise Abstain('not a single character')
            else: st.append(ord(s))
        elif b == 'int.to.chr$':
            n = self.pop(is_int)
            if not known(n): st.append(US)
            elif not 0 <= n <= 0x10FFFF: raise ExpectBibtexError('int.to.chr$ of %d (not a character code)' % n)
            elif n > 127: raise Abstain('outside ASCII')
            else: st.append(chr(n))
        elif b == 'int.to.str$':
            n = self.pop(is_int); st.append(str(n) if known(n) else US)
        elif b == 'duplicate$':
            v = self.pop(); st.append(v); st.append(v)
        elif b == 'pop$': self.pop()
        elif b == 'swap$':
            x = self.pop(); y = self.pop(); st.append(x); st.append(y)
        elif b == 'skip$': pass
        elif b == 'quote$': st.append('"')
        elif b == 'empty$':
            s = self.pop(is_str)
            if not known(s): st.append(UI)
            elif any(c.isspace() and c not in ' \t\n' for c in s): raise Abstain('exotic whitespace')
            else: st.append(int(s.strip(' \t\n') == ''))
        elif b == 'missing$':
            self.pop(is_str); st.append(0)
        elif b == 'if$':
            f_else = self.pop(); f_then = self.pop(); c = self.pop(is_int)
            if not known(c): raise Abstain('unknown condition')
            self.call(f_then if c > 0 else f_else)
        elif b == 'while$':
            body = self.pop(); cond = self.pop()
            while True:
                self.call(cond)
                c = self.pop(is_int)
                if not known(c): raise Abstain('unknown condition')
                if c <= 0: break
                self.call(body)
        elif b == 'substring$':
            ln = self.pop(is_int); start = self.pop(is_int); s = self.pop(is_str)
            if not (known(ln) and known(start) and known(s)): st.append(US)
            elif start > 0: st.append(s[start - 1:max(start - 1 + ln, start - 1)] if ln > 0 else '')
            elif start < 0:
                end = len(s) + start + 1
                st.append(s[max(end - ln, 0):end] if (ln > 0 and end > 0) else '')
            else: st.append('')
        elif b == 'text.length$':
            s = self.pop(is_str)
            if known(s) and (set(s) & TEX): self.opaque = True      # nesting deeper than 100 is a legitimate BibTeX error
            st.append(ref_text_length(s) if known(s) else UI)
        elif b == 'text.prefix$':
            n = self.pop(is_int); s = self.pop(is_str)
            if known(s) and (set(s) & TEX): self.opaque = True
            st.append(s[:max(n, 0)] if known(n) and known(s) and not (set(s) & TEX) else US)
        elif b == 'num.names$':
            s = self.pop(is_str)
            if not known(s) or (set(s) & TEX) or re.search(r'\s\s|^\s|\s$|[^ -~]', s) or re.match(r'(?i)^and\b|.*\band$', s): st.append(UI)
            elif s == '': st.append(0)
            else: st.append(1 + len(re.findall(r'(?i) and ', s.replace(' and ', ' and  '))))
        elif b == 'write$':
            self.buf.append(self.pop(is_str))
        elif b == 'newline$':
            if all(known(x) for x in self.buf):
                line = ''.join(self.buf)
                if any(c.isspace() and c != ' ' for c in line):
                    self.out_ok = False     # other white space than blanks: C19's
                self.lines.append(ref_wrap(line) + '\n')
            else:
                self.out_ok = False
            self.buf = []
        elif b == 'top$':
            v = self.pop(lambda v: is_int(v) or is_str(v))
            if known(v): self.printed.append(str(v) + '\n')
            else: self.print_ok = False
        elif b == 'stack$':
            while st:
                v = st.pop()
                if isinstance(v, tuple): raise Abstain('prints a function')
                if known(v): self.printed.append(str(v) + '\n')
                else: self.print_ok = False
        elif b == 'warning$':
            self.pop(is_str); self.warnings += 1
        else:
            raise Abstain('needs an entry')

def reference(cmds):
    r = Ref()
    for name, groups in cmds:
        n = S(name).upper()
        if n in ('INTEGERS', 'STRINGS') and len(groups) == 1:
            for t, v in groups[0]:
                if t != 2: raise Abstain('declaration')
                if S(v).lower() in r.vars or S(v).lower() in BUILTIN_NAMES:
                    # BibTeX: "... is already a type ... function name" -- re-declaring a name is an error
                    raise ExpectBibtexError('%s re-declaring the name %s' % (n, S(v)))
                r.vars[S(v).lower()] = ['int', 0] if n == 'INTEGERS' else ['str', '']
        elif n == 'FUNCTION' and len(groups) == 2 and len(groups[0]) == 1 and groups[0][0][0] == 2:
            f = S(groups[0][0][1]).lower()
            if f in r.vars or f in BUILTIN_NAMES: raise Abstain('declaration')
            r.vars[f] = ['fun', groups[1]]
        elif n == 'EXECUTE' and len(groups) == 1 and len(groups[0]) == 1 and groups[0][0][0] == 2:
            r.ident(S(groups[0][0][1]))
        elif n == 'MACRO' and len(groups) == 2 and all(len(g) == 1 and g[0][0] in (1, 2) for g in groups):
            pass
        else:
            raise Abstain('command outside the reference evaluator')
    return r

def same_value(ref_v, enc, r):
    if isinstance(ref_v, CaseOf):
        return enc[0] == 1 and len(enc[1]) == len(ref_v.s) and S(enc[1]).lower() == ref_v.s.lower()
    if not known(ref_v): return enc[0] == (0 if ref_v is UI else 1)
    if isinstance(ref_v, int): return enc == [0, ref_v]
    if isinstance(ref_v, str): return enc[0] == 1 and S(enc[1]) == ref_v
    if ref_v[0] == 'F': return enc == [3, ref_v[1]]
    if ref_v[1] in r.vars and r.vars[ref_v[1]][0] == 'fun': return enc == [3, r.vars[ref_v[1]][1]]
    return enc[0] == 4 and S(enc[1]) == ref_v[1]

def show(v):
    return repr(v)

def oracle_reference(arg, out):
    try:
        r = reference(arg[0])
    except Abstain:
        return None
    except ExpectBibtexError as e:
        if out[0] == 2:
            return '%s must be reported as a BibTeX error; a Python exception escaped instead' % e
        if out[0] == 0:
            return '%s must be reported as a BibTeX error; the run succeeded' % e
        return None
    except RecursionError:
        return None
    if out[0] == 3:
        return None
    if out[0] != 0:
        if r.opaque:
            return None
        return 'a well-typed program (reference result: stack %r) failed with %s' % (r.stack[::-1], 'a BibTeX error' if out[0] == 1 else 'a Python exception')
    st = out[1]
    stack = st[1]
    ref_stack = r.stack[::-1]
    if len(stack) != len(ref_stack) or not all(same_value(a, b, r) for a, b in zip(ref_stack, stack)):
        return 'final stack (top first) should be %r' % (ref_stack,) + (' (width$ was applied to %r)' % (r.width_args,) if r.width_args else '')
    if r.out_ok and S(st[0]) != ''.join(r.lines):
        return 'output should be %r, is %r' % (''.join(r.lines), S(st[0]))
    if r.out_ok and not all(same_value(a, b, r) for a, b in zip(r.buf, st[5])) or (r.out_ok and len(r.buf) != len(st[5])):
        return 'pending write$ buffer should be %r' % (r.buf,)
    if r.print_ok and S(st[8]) != ''.join(r.printed):
        return 'top$/stack$ should have printed %r, printed %r' % (''.join(r.printed), S(st[8]))
    vars_ = dict((S(k), v) for k, v in st[2])
    for n, (kind, val) in r.vars.items():
        if kind == 'fun' or not known(val):
            continue
        enc = vars_.get(n)
        if enc is None or enc[0] not in (1, 2) or not same_value(val, enc[1], r):
            return 'variable %s should hold %r' % (n, val)
    if len([w for w in st[7] if w[0] == 0]) != r.warnings:
        return 'warning$ should have reported %d messages' % r.warnings
    return None

# ----------------------------------------------------------------------------------------
PROBE_RE = re.compile(r'^<([^:>]*):(-?\d+):([^:>]*):(-?\d+):([^:>]*):([01]):([01]):\[([^\]>]*)\]>$')

def parse_probe_bib(text, macros):
    """the generated probe database (one entry per line: @type{key, name = value, ...}; value = {balanced} | "..." |
    macro, joined by #): key -> {field: value as BibTeX reads it}, and key -> number of undefined macros used.
    A macro expands iff a MACRO command of the style or an earlier @string of the database defined it (names are
    case-insensitive; NO macro is predefined, the month names neither); an undefined one contributes nothing and is
    reported; white space is normalised."""
    macros = dict(macros)
    db, undefined = {}, {}
    for line in text.split('\n'):
        m = re.match(r'@(\w+)\{(\w+)\s*(.*)\}\s*$', line)
        if not m:
            continue
        is_string = m.group(1).lower() == 'string'
        rest, fields, i, undef = m.group(3), {}, 0, 0
        if is_string:
            rest = m.group(2) + ' ' + rest
        while i < len(rest):
            fm = re.match(r'[,\s]*(\w+)\s*=\s*', rest[i:])
            if not fm:
                break
            i += fm.end(); name = fm.group(1).lower(); val = ''
            while True:
                if rest[i] == '{':
                    d, j = 1, i + 1
                    while d:
                        d += {'{': 1, '}': -1}.get(rest[j], 0); j += 1
                    val += rest[i + 1:j - 1]; i = j
                elif rest[i] == '"':
                    j = rest.index('"', i + 1); val += rest[i + 1:j]; i = j + 1
                else:
                    wm = re.match(r'\w+', rest[i:]); i += wm.end()
                    if wm.group(0).lower() in macros:
                        val += macros[wm.group(0).lower()]
                    else:
                        undef += 1
                hm = re.match(r'\s*#\s*', rest[i:])
                if not hm:
                    break
                i += hm.end()
            fields[name] = ' '.join(val.split())
        if is_string:
            macros.update(fields)
        else:
            db[m.group(2).lower()] = fields
            undefined[m.group(2).lower()] = undef
    return db, undefined

def style_macros(cmds):
    out = {}
    for name, groups in cmds:
        if S(name).upper() == 'MACRO' and len(groups) == 2 and groups[0] and groups[1] and groups[1][0][0] == 1:
            out[S(groups[0][0][1]).lower()] = S(groups[1][0][1])
    return out

def probe_note(db, key):
    """None = missing.  A field the entry defines itself always wins, however empty (C14's rule); otherwise the
    cross-referenced entry's field is inherited"""
    e = db.get(key.lower(), {})
    if 'note' in e:
        return e['note']
    if 'crossref' in e:
        return db.get(e['crossref'].lower(), {}).get('note')
    return None
_PROBE_SHAPES = None
def is_probe(cmds):
    """exactly a program of c03_gen.order_probe (so that shrinking cannot turn it into something else)"""
    global _PROBE_SHAPES
    if not cmds or S(cmds[0][0]) != 'ENTRY':
        return None
    if _PROBE_SHAPES is None:
        from props.c03_gen import probe_header, PROBE_STEPS
        from core import norm
        _PROBE_SHAPES = ([(wd, norm(probe_header(wd))) for wd in (True, False)], [norm(v) for v in PROBE_STEPS.values()])
    headers, steps = _PROBE_SHAPES
    for with_default, h in headers:
        if cmds[:len(h)] == h:
            rest = cmds[len(h):]
            while rest:
                for stp in steps:
                    if rest[:len(stp)] == stp:
                        rest = rest[len(stp):]
                        break
                else:
                    return None
            return (with_default,)
    return None

def oracle_probe(arg, out, with_default):
    """blocks of lines '<key:n:sortkey>' (each followed by the line its type function writes), separated by lines
    '#<command>' (see c03_gen.order_probe)"""
    if out[0] != 0:
        return 'the probe program failed (%s)' % ('BibTeX error' if out[0] == 1 else 'Python exception' if out[0] == 2 else 'does not end')
    types = dict((m.group(2).lower(), m.group(1).lower()) for m in re.finditer(r'@(\w+)\{(\w+)', S(arg[2])))
    tag_of = {'misc': '[M]', 'book': '[B]'}
    db, undefined = parse_probe_bib(S(arg[2]), style_macros(arg[0]))
    text = S(out[1][0])
    blocks, cur = [], None
    pending = None
    undefined_visits = 0
    for line in text.split('\n'):
        if pending is not None and line != pending:
            return 'call.type$ should have written %r after the line of the entry, got %r' % (pending, line)
        if pending is not None:
            pending = None
            continue
        if line.startswith('#'):
            cur = []; blocks.append((line[1:], cur))
        elif line:
            m = PROBE_RE.match(line)
            if not m or cur is None:
                return 'unexpected output line %r' % line
            cur.append((m.group(1), int(m.group(2)), m.group(3), int(m.group(4)), m.group(5)))
            want = probe_note(db, m.group(1))
            got = (int(m.group(6)), int(m.group(7)), m.group(8))
            exp = (1, 1, '') if want is None else (0, int(want.strip() == ''), want)
            if got != exp:
                return ('entry %s: the note field is %s, so missing$ / empty$ / the field itself should give %r, gave %r'
                        % (m.group(1), 'absent' if want is None else 'present with value %r' % want, exp, got))
            t = types.get(m.group(1).lower())
            if t is None:
                return 'cite$ gave %r, which is not in the database' % m.group(1)
            if t in tag_of:
                pending = tag_of[t]
            else:
                undefined_visits += 1
                pending = '[D]' if with_default else None
    if pending is not None:
        return 'call.type$ should have written %r at the end' % pending
    shown = set(k.lower() for _, rows in blocks for k in [r[0] for r in rows])
    want_undef = sum(undefined.get(k, 0) for k in shown)
    got_reports = len([w for w in out[1][7] if w[0] == 2])
    if blocks and got_reports != want_undef:
        return ('the cited entries use %d macros that neither a MACRO command nor an @string defines (no macro is predefined, the month '
                'names neither): %d problems should be reported while reading, %d were' % (want_undef, want_undef, got_reports))
    nwarn = len([w for w in out[1][7] if w[0] == 1])
    if nwarn != undefined_visits:
        return 'call.type$ should have warned %d times about an entry type without a function, warned %d times' % (undefined_visits, nwarn)
    order, n_of, counter = None, {}, 0
    mt_of = {}           # citation -> (m, t) as last assigned
    for label, rows in blocks:
        keys = [r[0] for r in rows]
        if label == 'first':
            order = keys
            for k, n, sk, m_, t_ in rows:
                if n != 0 or sk != '' or m_ != 0 or t_ != '':
                    return 'entry variables of %s should start as 0 / "" (n=%d, sort.key$=%r, m=%d, t=%r)' % (k, n, sk, m_, t_)
            continue
        if order is None:
            return 'no first pass'
        want = order[::-1] if label in ('reverse', 'reset_rev') else order
        if label == 'sorted':
            sk_of = dict((k, sk) for k, n, sk, m_, t_ in rows)
            if sorted(keys) != sorted(order):
                return 'SORT changed the citations: %r -> %r' % (order, keys)
            want = sorted(order, key=lambda k: sk_of[k])     # list.sort is stable
            if keys != want:
                return 'SORT should give the stable order %r (keys %r), gave %r' % (want, [sk_of[k] for k in want], keys)
            order = keys
        elif label == 'reset':
            # ITERATE or REVERSE {probe.reset}: either direction visits every citation once
            if keys != order and keys != order[::-1]:
                return 'the reset pass visited %r, citation order is %r' % (keys, order)
        elif keys != want:
            return '%s visited %r, expected %r' % (label.upper(), keys, want)
        for i, (k, n, sk, m_, t_) in enumerate(rows):
            if label == 'count':
                g = counter + i + 1
                if n != g:
                    return 'entry variable n of %s should be %d during the counting pass, is %d' % (k, g, n)
                if (m_, t_) != (g + 7, 'x%d' % g):
                    return 'entry variables m / t of %s should be %d / %r right after their assignment, are %d / %r' % (k, g + 7, 'x%d' % g, m_, t_)
            elif label == 'reset':
                if (m_, t_) != (0, ''):
                    return 'entry variables m / t of %s were assigned #0 / "" and should read 0 / "", read %d / %r' % (k, m_, t_)
        if label == 'count':
            for k in keys:
                counter += 1
                n_of[k] = counter          # a key cited twice shares one frame: the last visit wins
                mt_of[k] = (counter + 7, 'x%d' % counter)
        elif label == 'reset':
            for k in keys:
                mt_of[k] = (0, '')
        else:
            for k, n, sk, m_, t_ in rows:
                if k in n_of and n != n_of[k]:
                    return 'entry variable n of %s should still be %d, is %d' % (k, n_of[k], n)
                if k in mt_of and (m_, t_) != mt_of[k]:
                    return 'entry variables m / t of %s should still be %d / %r, are %d / %r' % ((k,) + mt_of[k] + (m_, t_))
    return None

def oracle(fn, arg, out):
    pr = is_probe(arg[0])
    if pr:
        return oracle_probe(arg, out, pr[0])
    return oracle_reference(arg, out)
