# helpers of the C03 check: AST <-> .bst text, encoders of the implementation's state
from core import norm, S

class HarnessBug(BaseException):
    pass
class Timeout(BaseException):
    pass
class OutOfDomain(BaseException):
    """the program prints / stringifies an interpreter object: outside the modelled domain"""
    pass
def on_alarm(signum, frame):
    raise Timeout('implementation run exceeded the time limit (non-terminating program?)')

# ---- AST constructors (canonical nested lists: strings are code-point lists)
def I(z): return [0, z]
def Sx(s): return [1, norm(s)]
def Id(n): return [2, norm(n)]
def Q(n): return [3, norm(n)]
def F(*body): return [4, list(body)]
def cmd(name, *groups): return [norm(name), [list(g) for g in groups]]

def instr_text(i):
    t, v = i
    if t == 0: return '#%d' % v
    if t == 1: return '"%s"' % S(v)
    if t == 2: return S(v)
    if t == 3: return "'" + S(v)
    return '{ ' + ' '.join(instr_text(x) for x in v) + ' }'

def to_bst(cmds):
    lines = []
    for name, groups in cmds:
        lines.append(S(name) + ' ' + ' '.join('{ ' + ' '.join(instr_text(x) for x in g) + ' }' for g in groups))
    return '\n'.join(lines) + '\n'

def printable(cmds):
    """can this AST be written as .bst source and read back unchanged?"""
    import re
    name_ok = re.compile(r'^[^#"{}\s%\']+[^#"{}\s%]*$')
    def ok(i):
        t, v = i
        if t == 0: return True
        if t == 1: return all(c not in (34, 10, 13) for c in v)
        if t == 2: return bool(name_ok.match(S(v)))
        if t == 3: return bool(re.match(r'^[^#"{}\s%]*$', S(v)))
        return all(ok(x) for x in v)
    return all(all(ok(x) for x in g) for _, gs in cmds for g in gs)

def walk(body):
    for i in body:
        yield i
        if i[0] == 4:
            for x in walk(i[1]):
                yield x

def all_names(cmds):
    out = set()
    for _, groups in cmds:
        for g in groups:
            for i in walk(g):
                if i[0] in (2, 3):
                    out.add(S(i[1]).lower())
    return out

def entry_field_names(cmds):
    names = []
    for name, groups in cmds:
        if S(name).lower() == 'entry' and groups:
            for i in groups[0]:
                if i[0] in (1, 2, 3):
                    n = S(i[1])
                    if n.lower() not in [x.lower() for x in names]:
                        names.append(n)
    return names

# ---- encoders of pybtex objects
def enc_instr(e):
    from pybtex.bibtex.interpreter import Integer, String, Identifier, QuotedVar, FunctionLiteral
    if isinstance(e, FunctionLiteral): return [4, [enc_instr(x) for x in e.body]]
    if isinstance(e, Integer): return [0, e.value()]
    if isinstance(e, String): return [1, norm(e.value())]
    if isinstance(e, Identifier): return [2, norm(e.value())]
    if isinstance(e, QuotedVar): return [3, norm(e.value())]
    raise HarnessBug('unknown parsed element %r' % (e,))

def enc_command(c):
    return [norm(c[0]), [[enc_instr(x) for x in g] for g in c[1:]]]

def name_of_obj(it, o):
    for k in it.vars:
        v = it.vars[k]
        if v is o or getattr(v, 'orig', None) is o:
            return k.lower()
    return None

def enc_value(it, v):
    from pybtex.bibtex.interpreter import MissingField, Function
    if isinstance(v, bool): raise HarnessBug('bool on the stack')
    if isinstance(v, int): return [0, v]
    if isinstance(v, MissingField): return [2, norm(v.name)]
    if isinstance(v, str): return [1, norm(v)]
    if isinstance(v, Function): return [3, [enc_instr(x) for x in v.body]]
    n = name_of_obj(it, v)
    if n is None: return [5]
    return [4, norm(n)]

def enc_obj(it, o):
    from pybtex.bibtex import interpreter as m
    if isinstance(o, m.EntryInteger): return [3, norm(o.name)]
    if isinstance(o, m.EntryString): return [4, norm(o.name)]
    if isinstance(o, m.Integer): return [1, enc_value(it, o.value())]
    if isinstance(o, m.String): return [2, enc_value(it, o.value())]
    if isinstance(o, m.Crossref): return [6]
    if isinstance(o, m.Field): return [5, norm(o.name)]
    if isinstance(o, m.Function): return [7, [enc_instr(x) for x in o.body]]
    return None    # a built-in

def enc_lit(v):
    if isinstance(v, int): return [0, v]
    return [1, norm(v)]

def enc_state(it, text_out, captured, info, printed):
    vars_ = []
    for k in it.vars:
        e = enc_obj(it, it.vars[k])
        if e is not None:
            vars_.append([norm(k.lower()), e])
    evars = [[norm(k), [[norm(n), enc_value(it, v)] for n, v in fr.items()]] for k, fr in it.entry_vars.items() if fr]
    macros = [[enc_lit(k), enc_lit(v)] for k, v in it.macros.items()]
    warns = []
    for idx, e in enumerate(captured):
        if idx in info['user']:
            warns.append([0, enc_value(it, e.args[0])])
        elif idx in info['read']:
            warns.append([2])
        else:
            warns.append([1])
    return [norm(text_out), [enc_value(it, v) for v in reversed(it.stack)], vars_, evars, macros,
            [enc_value(it, v) for v in it.output_buffer], [norm(c) for c in it.citations], warns, norm(printed)]

def read_result(it, field_names, nwarn):
    """what READ found, as the interpreter will see it (database API only)"""
    data = it.bib_data
    entries = []
    for c in it.citations:
        e = data.entries[c]
        fields = []
        for n in field_names:
            try:
                v = e._find_field(n, data)
            except KeyError:
                continue
            fields.append([norm(n.lower()), norm(v)])
        try:
            cr = [norm(data.entries[e.fields['crossref']].key)]
        except KeyError:
            cr = []
        entries.append([norm(c), [norm(e.key), norm(e.type), fields, cr]])
    return [[norm(c) for c in it.citations], entries, norm(data.preamble), nwarn]

def fmt_table(triples):
    """format_name(name, format) for the names the run asked for"""
    from pybtex.bibtex import utils
    from pybtex.bibtex.names import format_name
    from pybtex.exceptions import PybtexError
    seen, out = set(), []
    for names, n, fmt in triples:
        if not (isinstance(names, str) and isinstance(fmt, str) and isinstance(n, int) and not isinstance(n, bool)):
            continue
        try:
            parts = utils.split_name_list(str(names))
        except Exception:
            continue
        if not 1 <= n <= len(parts):
            continue
        key = (parts[n - 1], str(fmt))
        if key in seen:
            continue
        seen.add(key)
        try:
            r = [0, norm(format_name(*key))]
        except PybtexError:
            r = [1]
        except Exception:
            r = [2]
        out.append([norm(key[0]), norm(key[1]), r])
    return out

_CW = None
def cw_table(arg):
    global _CW
    from pybtex.charwidths import charwidths
    if _CW is None:
        _CW = [[ord(c), w] for c, w in charwidths.items() if ord(c) < 256]
    extra = set()
    def strs(x):
        if isinstance(x, list):
            for y in x:
                strs(y)
        elif isinstance(x, int) and x >= 256:
            extra.add(x)
    strs(arg)
    return _CW + [[c, charwidths.get(chr(c), 0)] for c in sorted(extra) if c < 0x110000 and chr(c) in charwidths]
