# C20 -- .aux files are read faithfully.  Model: coq/Model/Aux.v; theorems: coq/Props/C20.v
import itertools, os, re, shutil, tempfile, io as _io
from core import *

ID = 'C20'
CMDS = ['citation', 'bibdata', 'bibstyle', '@input']
TOP = 'a.aux'

# ----------------------------------------------------------------------------------------
# implementation side
_SCRATCH = {}
_ROOT = [None]      # set by gen() in the parent to the check's run directory (removed by core at the end)
def _scratch():
    """one private scratch directory per process: under the check's run directory when there is
    one (the fork-pool workers inherit _ROOT), else a tempfile.mkdtemp() removed at exit"""
    pid = os.getpid()
    if pid not in _SCRATCH or not os.path.isdir(_SCRATCH[pid]):
        if _ROOT[0] and os.path.isdir(_ROOT[0]):
            _SCRATCH[pid] = tempfile.mkdtemp(prefix='w%d_' % pid, dir=_ROOT[0])
        else:
            _SCRATCH[pid] = tempfile.mkdtemp(prefix='c20_')
            import atexit
            atexit.register(shutil.rmtree, _SCRATCH[pid], True)
    return _SCRATCH[pid]

ABS = '/ABS/'       # placeholder for "the absolute path of the scratch directory" in names and contents

def _subst(o, a, b):
    if isinstance(o, str):
        return o.replace(a, b)
    if isinstance(o, (list, tuple)):
        return [_subst(x, a, b) for x in o]
    return o

def _in_tree(files, f):
    """lay the files out in a fresh directory and run f(d) with that directory as cwd (auxfile opens
    \\@input names as written, i.e. relative to the cwd), remove it again.  `files` maps paths AS WRITTEN
    to contents: a name may have directory parts, may be spelled in several ways (./x, d/../x: each
    spelling is an entry with the same content) and may start with /ABS/ = the absolute path of the
    scratch directory (also inside contents).  Returns f's result with the real directory replaced
    by /ABS/ again."""
    base = _scratch()
    d = os.path.join(base, 't')
    os.mkdir(d)
    cwd = os.getcwd()
    try:
        seen = set()
        for name, content in files:
            n = S(name).replace(ABS, d + '/')
            if not n or n.endswith('/'):
                continue
            real = os.path.normpath(os.path.join(d, n))
            if real in seen or not real.startswith(d + '/'):
                continue
            seen.add(real)
            os.makedirs(os.path.dirname(real), exist_ok=True)
            with open(real, 'wb') as fh:
                fh.write(S(content).replace(ABS, d + '/').encode('utf-8'))
        os.chdir(d)
        return _subst(f(d), d + '/', ABS)
    finally:
        os.chdir(cwd)
        shutil.rmtree(d, ignore_errors=True)

def _loc_of_text(text, prefix):
    """(lineno or -1) named by the rendered report line '<prefix>[in line N: ]message'"""
    if not text.startswith(prefix):
        return -3
    m = re.match(r'in line (\d+): ', text[len(prefix):])
    return int(m.group(1)) if m else -1

def _describe_exc(e):
    """[file?, lineno, rendered?] of a pybtex error object, through its public rendering"""
    from pybtex.errors import format_error
    try:
        fname = e.get_filename()
        plain = str(e)
        text = format_error(e, 'ERROR: ')
        last = text.split('\n')[-1]
        if not last.endswith(plain):
            return [[fname] if fname is not None else [], -3, [text]]
        pre = (fname + ': ') if fname else ''
        if not last.startswith(pre):
            return [[fname] if fname is not None else [], -3, [text]]
        return [[fname] if fname is not None else [], _loc_of_text(last[len(pre):], 'ERROR: '), [text]]
    except Exception as x:      # rendering a reported error must not raise (F6)
        return [[], -2, ['rendering raised %r' % (x,)]]

def _warnings_of(text):
    """the (file, lineno) named by the WARNING lines printed in non-strict mode"""
    out = []
    for ln in text.split('\n'):
        k = ln.find(': WARNING: ')
        if k >= 0:
            out.append([[ln[:k]], _loc_of_text(ln[k + 2:], 'WARNING: '), [ln]])
        elif ln.startswith('WARNING: '):
            out.append([[], _loc_of_text(ln, 'WARNING: '), [ln]])
    return out

def _run_mode(mode, body):
    """run body() with report_error configured as capture (0) / strict (1) / non-strict (2);
    returns the res-like encoding  [0, [value..., errs]] / [1, err, errs] / [2]"""
    import pybtex.errors as errors, pybtex.io
    from pybtex.exceptions import PybtexError
    old_stderr = pybtex.io.stderr
    buf = _io.StringIO()
    captured = []
    reported = lambda: ([_describe_exc(e) for e in captured] if mode == 0 else _warnings_of(buf.getvalue()) if mode == 2 else [])
    try:
        errors.set_strict_mode(mode != 2)
        pybtex.io.stderr = buf
        try:
            if mode == 0:
                with errors.capture() as captured:
                    val = body()
            else:
                val = body()
        except PybtexError as e:
            return [1, _describe_exc(e), reported()]
        except RecursionError:
            return [2]
        except Exception as e:
            return [2]
        return [0, list(val) + [reported()]]
    finally:
        errors.set_strict_mode(True)
        errors.error_code = 0
        pybtex.io.stderr = old_stderr

def standins(strings):
    """the model's lower() is ASCII.  Non-ASCII letters whose lower() differs from themselves (E-acute,
    capital sigma ...) are shown to the model as ASCII stand-ins with the same lower-classes: U -> X,
    U.lower() -> x for a letter pair X/x that occurs nowhere in the case.  Every other non-ASCII
    character lowers to itself in Python and in the model alike and is passed unchanged.
    strings: lists of code points.  Returns {code point: stand-in code point}."""
    used = set()
    for t in strings:
        used.update(t)
    ups = sorted(c for c in used if c > 127 and len(chr(c).lower()) == 1 and ord(chr(c).lower()) != c and ord(chr(c).lower()) > 127)
    if not ups:
        return {}
    free = [x for x in range(97, 123) if x not in used and (x - 32) not in used]
    table = {}
    for c in ups:
        lo = ord(chr(c).lower())
        if lo in table:                      # a second upper-case form of the same letter: outside the domain
            continue
        if not free:
            break
        x = free.pop()
        table[c] = x - 32
        table[lo] = x
    return table

def _case_strings(fn, arg):
    if fn == 1:
        return [t for f in arg[1] for t in f]
    if fn == 5:
        return [t for f in arg[2] for t in f] + [t for t in arg[0]] + [arg[1]]
    if fn == 4:
        return [arg[1]] + [v for _, v in arg[3]]
    return []

def _map(o, table):
    if isinstance(o, list):
        return [_map(x, table) for x in o]
    return table.get(o, o)

def model_arg(fn, arg):
    table = standins(_case_strings(fn, arg)) if fn in (1, 4, 5) else {}
    if not table:
        return arg
    if fn == 1:
        return [arg[0], _map(arg[1], table)]
    if fn == 5:
        return [_map(arg[0], table), _map(arg[1], table), _map(arg[2], table)]
    return [arg[0], _map(arg[1], table), arg[2], [[c, _map(v, table)] for c, v in arg[3]]]

def _finish(fn, arg, out):
    """norm the wrapper's result; when the case has stand-ins, append the table (canon applies it, so
    that the comparison happens in the model's alphabet; the oracle sees the real characters)"""
    out = norm(out)
    table = standins(_case_strings(fn, arg))
    if table and out[0] in (0, 1):
        out = out + [[[k, v] for k, v in sorted(table.items())]]
    return out

def impl_parse(arg):
    from pybtex import auxfile
    mode, files = arg
    def body():
        d = auxfile.parse_file(top[0])
        return [d.citations, [d.style] if d.style is not None else [], [d.data] if d.data is not None else []]
    top = ['']
    def run(d):
        top[0] = (S(files[0][0]) if files else '').replace(ABS, d + '/')
        return _run_mode(mode, body)
    return _finish(1, arg, _in_tree(files, run))

def impl_match(arg):
    from pybtex.auxfile import AuxData
    m = AuxData.command_re.match(S(arg[0]))
    if not m:
        return []
    return [[CMDS.index(m.group(1)), norm(m.group(2))]]

def impl_lines(arg):
    import pybtex.io
    def body():
        with pybtex.io.open_unicode('f.aux') as fh:
            return [norm(l) for l in fh]
    return _in_tree([[norm('f.aux'), arg[0]]], lambda d: body())

def impl_handlers(arg):
    from pybtex.auxfile import AuxData, AuxDataContext
    mode, fname, lineno, ops = arg
    def body():
        a = AuxData(None)
        a.context = AuxDataContext(S(fname))
        a.context.lineno = lineno
        a.context.line = ''
        for c, v in ops:
            if c != 3:
                a.handle_command(CMDS[c], S(v))
        return [a.citations, [a.style] if a.style is not None else [], [a.data] if a.data is not None else []]
    return _finish(4, arg, _run_mode(mode, body))

def impl_makebib(arg):
    from pybtex import Engine
    style, suffix, files = arg
    class Fmt(object):
        default_suffix = S(suffix)
    class E(Engine):
        def format_from_files(self, bib_files_or_filenames, style, citations=['*'], **kw):
            return [bib_files_or_filenames, [style] if style is not None else [], citations]
    def body():
        return E().make_bibliography(top[0], style=S(style[0]) if style else None, bib_format=Fmt)
    top = ['']
    def run(d):
        top[0] = (S(files[0][0]) if files else '').replace(ABS, d + '/')
        return _run_mode(1, body)
    return _finish(5, arg, _in_tree(files, run))

FILES = ('L', ('T', 'X', 'S'))
FUNCS = {
    1: ('pybtex.auxfile.parse_file', impl_parse, ('T', 'X', FILES)),
    2: ('AuxData.command_re.match', impl_match, ('T', 'S')),
    3: ('iteration over pybtex.io.open_unicode(file)', impl_lines, ('T', 'S')),
    4: ('AuxData.handle_citation/handle_bibstyle/handle_bibdata', impl_handlers, ('T', 'X', 'X', 'X', ('L', ('T', 'X', 'S')))),
    5: ('Engine.make_bibliography -> format_from_files arguments', impl_makebib, ('T', ('O', 'S'), 'S', FILES)),
}

# ----------------------------------------------------------------------------------------
# comparison: only what the property talks about -- citations, style, data, and per reported
# error the file and line named (not the error class, not the wording, not the context line)
def _cerr(e):
    return [e[0], e[1]]

def canon(fn, r):
    if not isinstance(r, list) or not r:
        return r
    if fn in (1, 4, 5) and ((r[0] == 0 and len(r) == 3) or (r[0] == 1 and len(r) == 4)):
        table = {k: v for k, v in r[-1]}      # implementation output of a case with stand-ins
        r = [r[0]] + _map(r[1:-1], table)
    if fn in (1, 4, 5):
        if r[0] == 3:           # model: nesting fuel exhausted == implementation: RecursionError
            return [2]
        if r[0] == 1:
            # a raised error: file and line are compared when the error names a line (the
            # reported kinds); a fatal error / an unopenable file compares as "pybtex error"
            e = r[1]
            loc = _cerr(e) if e[1] >= 1 or e[1] < -1 else []
            return [1, loc, [_cerr(x) for x in r[2]]]
        if r[0] == 0 and fn != 5:
            v = r[1]
            return [0, v[0], v[1], v[2], [_cerr(x) for x in v[3]]]
        if r[0] == 0 and fn == 5:
            return [0, r[1][:3]]
    return r

# ----------------------------------------------------------------------------------------
# the oracle: the property text, re-implemented in plain Python, on the implementation's output
HEADS = ['\\citation{', '\\bibdata{', '\\bibstyle{', '\\@input{']
def _ref_lines(content):
    """the lines of a text file as the file object yields them: a line ends at \\n, \\r\\n or \\r
    and NOWHERE else (form feed, \\x0b, \\x1c-\\x1e, U+0085, U+2028, U+2029 are ordinary characters)"""
    lines = re.split('\r\n|\r|\n', content)
    if lines and lines[-1] == '':
        lines.pop()
    return lines

def _balanced(v):
    d = 0
    for c in v:
        if c == '{':
            d += 1
        elif c == '}':
            d -= 1
            if d < 0:
                return False
    return d == 0

def _clean_lines(content):
    """the reference reader's view of one file: per line (command index or None, value).
    A command line is a line that STARTS (column 0) with \\citation{ / \\bibdata{ / \\bibstyle{ / \\@input{ ;
    every other line -- whatever it contains, also command-looking text after a comment sign, after
    spaces or tabs, inside another TeX command, or after a character that str.splitlines (but not a
    file object) takes for a line end -- is ignored ("every other line ignored").
    None when the text of the property does not say how the file is to be read: a command line that is
    not exactly  head + value + '}'  with a brace-balanced value (then the TeX argument and the greedy
    regex agree on the value)."""
    out = []
    for ln in _ref_lines(content):
        k = next((k for k, h in enumerate(HEADS) if ln.startswith(h)), None)
        if k is None:
            out.append((None, ln)); continue
        if not ln.endswith('}'):
            return None
        v = ln[len(HEADS[k]):-1]
        if not _balanced(v):
            return None
        out.append((k, v))
    return out

def expected(files):
    """visits in reading order: (file, lineno, cmd, value) with inputs expanded in place; None if the
    document is outside what the property text determines (unclean line, missing or cyclic input)"""
    fs = {}
    for name, content in files:
        fs.setdefault(S(name), S(content))
    parsed = {}
    for n, c in fs.items():
        parsed[n] = _clean_lines(c)
    visits = []
    def walk(name, depth):
        if depth > 8 or name not in parsed or parsed[name] is None:
            return False
        for i, (k, v) in enumerate(parsed[name], 1):
            if k is None:
                continue
            if k == 3:
                if not walk(v, depth + 1):
                    return False
            else:
                visits.append((name, i, k, v))
        return True
    if not files or not walk(S(files[0][0]), 0):
        return None
    return visits

def oracle_parse(mode, files, out):
    visits = expected(files)
    if visits is None:
        return None
    cits = []; style = None; data = None
    need = {}; allow = {}        # loc -> number of reports demanded / permitted
    pairs = {}                   # citation loc -> [(key, earlier different spellings)]
    first_problem = None
    spellings = {}               # lower-cased key -> set of spellings seen so far
    for idx, (f, i, k, v) in enumerate(visits):
        loc = (f, i)
        if k == 0:
            firsts = 0; later = 0
            for key in v.split(','):
                seen = spellings.setdefault(key.lower(), [])
                if any(s != key for s in seen):
                    later += 1
                    pairs.setdefault(loc, []).append((key, sorted(set(x for x in seen if x != key))))
                    if len(set(seen)) == 1 and key not in seen:
                        firsts += 1          # the second spelling of this key appears here
                seen.append(key)
                cits.append(key)
            if later:
                allow[loc] = allow.get(loc, 0) + later
                if firsts:
                    need[loc] = need.get(loc, 0) + 1
                    if first_problem is None:
                        first_problem = loc
        elif k == 2:
            if style is None:
                style = v
            else:
                need[loc] = need.get(loc, 0) + 1; allow[loc] = allow.get(loc, 0) + 1
                if first_problem is None:
                    first_problem = loc
        elif k == 1:
            if data is None:
                data = v.split(',')
            else:
                need[loc] = need.get(loc, 0) + 1; allow[loc] = allow.get(loc, 0) + 1
                if first_problem is None:
                    first_problem = loc
    if out[0] == 2:
        return 'reading a well-formed .aux document raised a non-pybtex exception'
    def bad_report(e):
        if e[1] == -2:
            return 'a reported error cannot be rendered: %s' % S(e[2][0]) if e[2] and isinstance(e[2][0], list) else 'a reported error cannot be rendered'
        return None
    reports = out[1][3] if out[0] == 0 else out[2]
    for e in reports + ([out[1]] if out[0] == 1 else []):
        m = bad_report(e)
        if m:
            return m
        # a report located at a \\citation line is about a key cited in two spellings: its text names both
        loc = (S(e[0][0]) if e[0] else None, e[1])
        if loc in pairs and e[2] and isinstance(e[2][0], list):
            msgline = S(e[2][0]).split('\n')[-1]
            if not any(key in msgline and any(p in msgline for p in prevs) for key, prevs in pairs[loc]):
                return 'the report at %s line %d does not name both spellings (%r): %r' % (loc[0], loc[1], pairs[loc][:2], msgline)
    if mode == 1 and first_problem is not None:
        if out[0] != 1:
            return 'strict mode: the problem at %s line %d was not raised' % first_problem
        e = out[1]
        got = (S(e[0][0]) if e[0] else None, e[1])
        if got != first_problem:
            return 'strict mode: the error raised names %r line %r, the first problem is at %s line %d' % (got[0], got[1], first_problem[0], first_problem[1])
        return None
    # the reports: each names a (file, line) where a problem occurs, every problem is reported there
    got = {}
    for e in reports:
        loc = (S(e[0][0]) if e[0] else None, e[1])
        got[loc] = got.get(loc, 0) + 1
    if mode != 1:
        for loc, n in need.items():
            if got.get(loc, 0) < n:
                return 'the problem at %s line %d is reported %d time(s) with that file and line, expected at least %d (reports: %r)' % (loc[0], loc[1], got.get(loc, 0), n, sorted(got, key=str))
    for loc, n in got.items():
        if n > allow.get(loc, 0):
            return 'a report names %r line %r, where no second \\bibstyle/\\bibdata or differently spelled key occurs' % loc
    fatal = data is None or style is None
    if fatal:
        if out[0] != 1:
            return 'a document without \\bibdata or \\bibstyle was read without a pybtex error'
        return None
    if out[0] != 0:
        return 'a complete document was not read: pybtex error %r' % (out[1][:2],)
    c, s, d = out[1][0], out[1][1], out[1][2]
    if [S(x) for x in c] != cits:
        return 'citations %r, expected %r' % ([S(x) for x in c], cits)
    if (S(s[0]) if s else None) != style:
        return 'style %r, expected %r' % (S(s[0]) if s else None, style)
    if ([S(x) for x in d[0]] if d else None) != data:
        return 'data %r, expected %r' % ([S(x) for x in d[0]] if d else None, data)
    return None

def oracle(fn, arg, out):
    if fn == 1:
        return oracle_parse(arg[0], arg[1], out)
    if fn == 5:
        # make_bibliography hands on exactly what was read: data + suffix, the style unless overridden, the citations
        visits = expected(arg[2])
        if visits is None or out[0] != 0:
            return None
        cits = [key for (f, i, k, v) in visits if k == 0 for key in v.split(',')]
        styles = [v for (f, i, k, v) in visits if k == 2]
        datas = [v for (f, i, k, v) in visits if k == 1]
        if not styles or not datas:
            return 'make_bibliography went on without \\bibdata or \\bibstyle'
        want_style = S(arg[0][0]) if arg[0] else styles[0]
        got = out[1]
        if [S(x) for x in got[0]] != [d + S(arg[1]) for d in datas[0].split(',')]:
            return 'bib files %r' % ([S(x) for x in got[0]],)
        if (S(got[1][0]) if got[1] else None) != want_style:
            return 'style handed on: %r, expected %r' % (S(got[1][0]) if got[1] else None, want_style)
        if [S(x) for x in got[2]] != cits:
            return 'citations handed on: %r, expected %r' % ([S(x) for x in got[2]], cits)
    return None

# ----------------------------------------------------------------------------------------
def describe(fn, arg):
    if fn == 1:
        return {'report_error mode': ['capture', 'strict', 'non-strict'][arg[0]], 'files': {S(n): S(c) for n, c in reversed(arg[1])}, 'top': S(arg[1][0][0]) if arg[1] else None}
    if fn == 2:
        return {'line': S(arg[0])}
    if fn == 3:
        return {'content': S(arg[0])}
    if fn == 4:
        return {'mode': arg[0], 'file': S(arg[1]), 'lineno': arg[2], 'calls': [('handle_' + CMDS[c].lstrip('@'), S(v)) for c, v in arg[3]]}
    return {'style': S(arg[0][0]) if arg[0] else None, 'suffix': S(arg[1]), 'files': {S(n): S(c) for n, c in reversed(arg[2])}}

def nontrivial(fn, arg, out):
    if fn in (1, 4):
        return (out[0] == 0 and (len(out[1][0]) > 0 or len(out[1][3]) > 0)) or out[0] == 1
    if fn == 2:
        return len(out) > 0
    if fn == 3:
        return len(out) > 1
    return out[0] == 0

# ----------------------------------------------------------------------------------------
# generators
MENU = ['\\citation{a}', '\\citation{A}', '\\citation{b,a}', '\\bibstyle{s}', '\\bibstyle{t}',
        '\\bibdata{d,e}', '\\bibdata{f}', '\\relax', '\\@input{b.aux}']
SUBS = [None, '\\citation{A}\n', '\\bibstyle{u}\n\\citation{B,a}\n\\bibdata{g}\n']
MENU_T = ['\\citation{a}', '\\bibstyle{s}', '\\bibdata{d}', '\\@input{b.aux}', '\\citation{A}']
MENU_B = ['\\citation{A}', '\\bibstyle{t}', '\\bibdata{e}', '\\@input{c.aux}', '\\@input{a.aux}', '\\@input{b.aux}']
C_FIXED = '\\bibstyle{v}\n\\citation{a,c}\n'
# unrelated lines that merely CONTAIN a command after column 0: all must be ignored
GHOST = ['%\\bibdata{old}', '  \\bibstyle{s2}', '\\@writefile{toc}{\\citation{x}}', '\\gdef\\x{\\citation{A}}',
         '\t\\citation{z}', '% \\@input{b.aux}', '\\relax\\bibdata{g2}', ' \\@input{nosuch.aux}']
MENU_G = MENU[:7] + [MENU[8]] + GHOST
# the characters str.splitlines() takes for line ends although a file object does not
SEPS = ['\x0b', '\x0c', '\x1c', '\x1d', '\x1e', '\x85', '\u2028', '\u2029']
def menu_sep(c):
    return ['\\bibstyle{s}', '\\bibstyle{t}', '\\bibdata{d}', '\\citation{a}',
            '\\relax' + c + '\\citation{g}', '%' + c + '\\bibstyle{u}', '\\citation{a' + c + 'b,A' + c + 'b}']
MENU_T3 = ['\\bibstyle{s}', '\\bibstyle{t}', '\\bibdata{d,e}', '\\citation{a}', '\\citation{A,b}', '\\relax']
# keys / names that are format templates or TeX: reports must still render and name both spellings
MENU_BR = ['\\bibstyle{s{0}}', '\\bibstyle{t%s}', '\\bibdata{d{b},e\\f,{0}}', '\\citation{Foo{x}}', '\\citation{foo{x}}',
           '\\citation{Baz{0},baz{0}}', '\\citation{%s,%S}', '\\citation{a\\b,A\\b,{}}']

def _canon_path(p):
    """where a path as written lies in the scratch tree (ABS-relative, normalised)"""
    import posixpath
    q = p[len(ABS):] if p.startswith(ABS) else p
    return posixpath.normpath(q)

def _resolvable(pth, disk):
    """every directory the path walks through exists in the tree (build/../x needs a build/)"""
    import posixpath
    q = pth[len(ABS):] if pth.startswith(ABS) else pth
    parts = q.split('/')[:-1]
    cur = ''
    for part in parts:
        cur = posixpath.normpath(posixpath.join(cur, part)) if cur or part else part
        if cur in ('', '.'):
            cur = ''
            continue
        if cur.startswith('..') or not any(k.startswith(cur + '/') for k in disk):
            return False
    return True

def case_files(top, disk, mentioned):
    """the file map of a case: paths AS WRITTEN -> content.  disk: canonical relative path -> content (what lies
    in the tree); every spelling in `mentioned` (and the top path) that leads to an existing file gets an entry
    with that file's content, so the map says what the code must open for each name it meets."""
    out = []
    keys = set()
    for pth in [top] + list(mentioned) + sorted(disk):
        c = _canon_path(pth)
        if pth not in keys and c in disk and not c.startswith('..') and _resolvable(pth, disk):
            keys.add(pth)
            out.append([pth, disk[c]])
    if not out or out[0][0] != top:
        out.insert(0, [top, disk.get(_canon_path(top), '')]) if _canon_path(top) in disk else None
    return out

def gen_dirs(quick):
    """directory structure: the top file through a relative path with a directory part and through an
    absolute path; \\@input names with and without directory parts, spelled in several ways; decoys at the
    doubled path (what would be opened if a name were joined onto the including file's directory)"""
    inputs = ['ch.aux', 'build/ch.aux', ABS + 'build/ch.aux', './ch.aux', 'build/../ch.aux', ABS + 'ch.aux']
    chs = {'ch.aux': '\\citation{root}\n', 'build/ch.aux': '\\citation{inbuild}\n\\bibstyle{u}\n',
           'build/build/ch.aux': '\\citation{decoy}\n'}
    for top in ['top.aux', 'build/top.aux', ABS + 'build/top.aux', ABS + 'top.aux', './build/top.aux']:
        for x in inputs:
            for mask in range(8):
                disk = {k: v for i, (k, v) in enumerate(sorted(chs.items())) if mask >> i & 1}
                disk[_canon_path(top)] = '\\bibstyle{s}\n\\bibdata{d}\n\\@input{%s}\n\\citation{k}\n\\bibstyle{t}\n' % x
                files = case_files(top, disk, inputs)
                for mode in (0, 1, 2):
                    yield [mode, files]
    # two levels: parts/one.aux -> parts/two.aux -> three.aux, decoys at parts/parts/two.aux and parts/three.aux
    pool = {'parts/two.aux': '\\citation{two}\n\\@input{three.aux}\n\\citation{Two}\n', 'three.aux': '\\citation{three}\n\\bibdata{e}\n',
            'parts/parts/two.aux': '\\citation{decoy2}\n', 'parts/three.aux': '\\citation{decoy3}\n'}
    for top in ['parts/one.aux', ABS + 'parts/one.aux']:
        for mask in range(16):
            disk = {k: v for i, (k, v) in enumerate(sorted(pool.items())) if mask >> i & 1}
            disk['parts/one.aux'] = '\\bibdata{d}\n\\@input{parts/two.aux}\n\\bibstyle{s}\n\\bibdata{f}\n'
            files = case_files(top, disk, ['parts/two.aux', 'three.aux'])
            for mode in (0, 1, 2):
                yield [mode, files]

# non-ASCII cite keys: pairs equal under casefold but NOT under lower (distinct keys, nothing to report),
# pairs equal under lower (one key in two spellings: reported)
MENU_U = ['\\bibstyle{s}', '\\bibdata{d}', '\\citation{ma\u00df}', '\\citation{mass}', '\\citation{\u017ftone,stone}',
          '\\citation{\u03c2}', '\\citation{\u03c3}', '\\citation{\u03a3}', '\\citation{\u00c9t\u00e9,\u00e9t\u00e9}', '\\citation{\u00c4rger,\u00e4rger,MASS}']

def doc(lines, term='\n'):
    return ''.join(l + term for l in lines)

KEYS = ['ma\u00df', 'mass', '\u017ftone', 'stone', '\u03c2', '\u03c3', '\u03a3', '\u00c9t\u00e9', '\u00e9t\u00e9', 'Foo{x}', 'foo{x}', 'Baz{0}', 'baz{0}', '%s', '%S', 'a\\b', 'A\\b', 'k1', 'K1', 'key', 'Key', 'KEY', 'kEy', 'b', 'B', '*', 'x y', 'Knuth:1984', 'knuth:1984', 'a_b', 'A_b', '', ' a', '\u20ac', 'z9']
OTHER = GHOST[:6] + ['\\relax\x0c\\citation{g}', '%\u2028\\bibstyle{u}', '\\relax\x85\\bibdata{q}', '\\relax\x1c\\citation{h}'] + ['\\relax ', '\\newlabel{sec:1}{{1}{1}}', '\\bibcite{k1}{1}', '', '% \\citation{c}', ' \\citation{z}', '\\citationx{q}',
         '\\bibstyle {s}', '\\Citation{a}', '\\providecommand\\hyper@newdestlabel[2]{}', '\\@writefile{toc}{\\contentsline {section}{\\numberline {1}Intro}{1}{}}',
         '\\gdef \\@abspage@last{1}', '\\input{b.aux}', 'citation{a}', '\\\\citation{a}']
ODD = ['\\citation{a}% }', '\\citation{a', '\\@input{', '\\bibstyle{a}\\bibdata{b}', '\\citation{a}\x0b\\bibstyle{z}', '\\citation{{a}}',
       '\\bibdata{}', '\\bibstyle{}', '\\citation{}', '\\citation{a,,b}', '\\citation{a, b}', '\\citation{a}}', '\\bibdata{x,y,}',
       '\\citation{a\u2028A}', '\\citation{a}\x0c', '\t\\bibdata{q}', '\\citation{k1}\u00a0', '\\@input{nosuch.aux}']

def rand_line(rng, names, me, odd):
    r = rng.random()
    if r < 0.45:
        ks = [rng.choice(KEYS[:29] if not odd else KEYS) for _ in range(rng.choice([1, 1, 1, 2, 3]))]
        return '\\citation{%s}' % ','.join(ks)
    if r < 0.55:
        return '\\bibstyle{%s}' % rng.choice(['plain', 'alpha', 'unsrt', 's', 'st{0}', 'a%s'])
    if r < 0.65:
        return '\\bibdata{%s}' % ','.join(rng.choice(['refs', 'extra', 'db/main', 'x', 'r{e}f', 'x\\y']) for _ in range(rng.choice([1, 1, 2, 3])))
    if r < 0.75 and names:
        return '\\@input{%s}' % rng.choice(names)
    if odd and r < 0.85:
        return rng.choice(ODD)
    return rng.choice(OTHER if odd else OTHER[:14])

def rand_tree(rng, odd=False):
    """1..4 files; file i inputs only files j > i (acyclic) unless odd"""
    n = rng.choice([1, 1, 2, 2, 3, 4])
    names = ['a.aux', 'b.aux', 'c.aux', 'chap-d.aux'][:n]
    layout = rng.random()
    if layout < 0.25:
        names = ['out/a.aux', 'out/b.aux', 'c.aux', 'out/sub/d.aux'][:n]
    elif layout < 0.35:
        names = [ABS + 'out/a.aux', 'out/b.aux', ABS + 'c.aux', 'out/sub/d.aux'][:n]
    files = []
    for i, name in enumerate(names):
        later = names[i + 1:]
        if odd and rng.random() < 0.15:
            later = later + [rng.choice(names), 'missing.aux']
        lines = [rand_line(rng, later, name, odd) for _ in range(rng.randint(0, 9))]
        if i == 0 and rng.random() < 0.8:
            if rng.random() < 0.9:
                lines.insert(rng.randint(0, len(lines)), '\\bibstyle{plain}')
            if rng.random() < 0.9:
                lines.insert(rng.randint(0, len(lines)), '\\bibdata{refs,more}')
        if odd:
            term = rng.choice(['\n', '\n', '\r\n', '\r', None])
            if term is None:
                content = ''.join(l + rng.choice(['\n', '\r\n', '\r', '\n\n']) for l in lines)
            else:
                content = doc(lines, term)
            if rng.random() < 0.3 and content:
                content = content.rstrip('\r\n')
        else:
            content = doc(lines)
        files.append([name, content])
    if layout < 0.35 and rng.random() < 0.5:      # decoys where a name joined onto the includer's directory would lead
        for dec in ['out/out/b.aux', 'out/c.aux', 'out/out/sub/d.aux']:
            files.append([dec, '\\citation{decoy}\n\\bibstyle{decoy}\n'])
    return files

def mutate(rng, s):
    if not s:
        return s
    alpha = '\\{}@,*aAbcitonbdsyleput \n\r\x0b'
    for _ in range(rng.choice([1, 1, 2, 3])):
        i = rng.randrange(len(s) + 1)
        op = rng.random()
        if op < 0.3:
            s = s[:i] + s[i + 1:]
        elif op < 0.55:
            s = s[:i] + rng.choice(alpha) + s[i:]
        elif op < 0.75:
            s = s[:i] + rng.choice(alpha) + s[i + 1:]
        elif op < 0.9:
            s = s[:i] + s[max(0, i - rng.randint(1, 12)):i] + s[i:]
        else:
            s = s[:i]
    return s

PINNED = [
    # F22 / F6: second \bibstyle, captured -- the report must keep its line and be renderable
    (1, [0, [[TOP, '\\bibstyle{a}\n\\bibstyle{b}\n\\bibdata{d}\n\\citation{k}\n']]]),
    (1, [2, [[TOP, '\\bibstyle{a}\n\\bibstyle{b}\n\\bibdata{d}\n\\citation{k}\n']]]),
    (1, [1, [[TOP, '\\bibstyle{a}\n\\bibstyle{b}\n\\bibdata{d}\n\\citation{k}\n']]]),
    # an error after returning from a nested file names the outer file and line
    (1, [0, [[TOP, '\\bibdata{d}\n\\bibstyle{s}\n\\@input{b.aux}\n\\relax\n\\bibstyle{t}\n'], ['b.aux', '\\citation{x}\n\\citation{X}\n']]]),
    (1, [0, [[TOP, '\\@input{b.aux}\n\\citation{x}\n\\bibdata{d}\n\\bibstyle{s}\n'], ['b.aux', '\\relax\n\\relax\n\\citation{X}\n\\bibdata{e}\n\\bibdata{f}\n']]]),
    (1, [0, [[TOP, '\\citation{a}\n']]]), (1, [1, [[TOP, '\\bibdata{a}\n']]]), (1, [2, [[TOP, '\\bibstyle{a}\n']]]), (1, [0, [[TOP, '']]]),
    (1, [0, []]), (1, [0, [[TOP, '\\@input{a.aux}\n']]]), (1, [0, [[TOP, '\\bibdata{d}\\bibstyle{s}\n\\@input{zz.aux}\n']]]),
    (1, [0, [[TOP, '\\citation{a,A,a}\r\n\\bibstyle{s}\r\\bibdata{d}']]]),
    # lines that only look like commands are ignored; the value runs to the last closing brace
    (1, [0, [[TOP, ' \\citation{z}\n%\\citation{c}\n\\bibstyle{s}\n\\bibdata{d}\n\\citation{a}% }\n\\citation{{b}}x\n']]]),
    (1, [1, [[TOP, '\t\\bibstyle{q}\n\\bibstyle{s}\n\\bibdata{d}\n x\\bibdata{e}\n\\citation{k}\n']]]),
    # three spellings; the report compares with the most recent one
    (1, [0, [[TOP, '\\bibstyle{s}\n\\bibdata{d}\n\\citation{a}\n\\citation{A}\n\\citation{A}\n\\citation{a}\n']]]),
    # the same file read twice; a file nested three deep; errors on the way back
    (1, [0, [[TOP, '\\@input{b.aux}\n\\@input{b.aux}\n\\bibdata{d}\n'], ['b.aux', '\\bibstyle{s}\n\\@input{c.aux}\n\\bibstyle{t}\n'], ['c.aux', '\\citation{q}\n\\bibdata{e}\n']]]),
]

def gen(tier, rng):
    quick = tier == 'quick'
    _ROOT[0] = os.path.join(VERIF, '_run', '%s-%d' % (ID, os.getpid()))
    for fn, arg in PINNED:
        yield ('pinned', fn, arg)
    # -- exhaustive small scope: every document of <= N menu lines, every mode, three nested files
    N = 4 if quick else 5
    for n in range(0, N + 1):
        for ls in itertools.product(MENU, repeat=n):
            subs = SUBS if MENU[8] in ls else [None]
            for sub in subs:
                files = [[TOP, doc(ls)]] + ([['b.aux', sub]] if sub is not None else [])
                for mode in ((0, 1, 2) if n <= 4 else (0,)):
                    yield ('exhaustive', 1, [mode, files])
    # -- exhaustive with command-looking text at column > 0 among the unrelated lines (at least one per document)
    NG = 3 if quick else 4
    for n in range(1, NG + 1):
        for ls in itertools.product(MENU_G, repeat=n):
            if not any(l in GHOST for l in ls):
                continue
            files = [[TOP, doc(ls)]] + ([['b.aux', SUBS[2]]] if MENU[8] in ls else [])
            for mode in ((0, 1, 2) if n <= 3 else (0,)):
                yield ('exhaustive_ghost', 1, [mode, files])
    # -- exhaustive with each splitlines-only separator inside unrelated lines (before command-looking text) and inside keys
    for c in SEPS:
        menu = menu_sep(c)
        for n in range(1, 4):
            for ls in itertools.product(menu, repeat=n):
                if not any(c in l for l in ls):
                    continue
                for mode in ((0, 1, 2) if quick or n < 3 else (0, 1, 2)):
                    yield ('exhaustive_separators', 1, [mode, [[TOP, doc(ls)]]])
    # -- exhaustive over line terminators: \\r only, \\r\\n, mixed, last line unterminated
    for n in range(1, 4 if quick else 5):
        for ls in itertools.product(MENU_T3, repeat=n):
            for tv in range(4):
                if tv == 0:
                    content = doc(ls, '\r')
                elif tv == 1:
                    content = doc(ls, '\r\n')
                elif tv == 2:
                    content = ''.join(l + ['\r', '\n', '\r\n'][i % 3] for i, l in enumerate(ls))
                else:
                    content = '\r'.join(ls)
                for mode in (0, 1, 2):
                    yield ('exhaustive_terminators', 1, [mode, [[TOP, content]]])
    # -- exhaustive over keys and names with braces, {0}, %s, backslashes
    for n in range(1, 4 if quick else 5):
        for ls in itertools.product(MENU_BR, repeat=n):
            for mode in (0, 1, 2):
                yield ('exhaustive_braces', 1, [mode, [[TOP, doc(ls)]]])
    # -- directory structure in the real-file tree
    for arg in gen_dirs(quick):
        yield ('exhaustive_dirs', 1, arg)
    # -- non-ASCII keys
    for n in range(1, 4 if quick else 5):
        for ls in itertools.product(MENU_U, repeat=n):
            if not any(ord(ch) > 127 for l in ls for ch in l):
                continue
            for mode in (0, 1, 2):
                yield ('exhaustive_unicode', 1, [mode, [[TOP, doc(ls)]]])
    # -- exhaustive nesting: a.aux -> b.aux -> c.aux | a.aux | b.aux
    NT, NB = (3, 2) if quick else (3, 3)
    for n in range(1, NT + 1):
        for ls in itertools.product(MENU_T, repeat=n):
            if MENU_T[3] not in ls:
                continue
            for k in range(0, NB + 1):
                for bs in itertools.product(MENU_B, repeat=k):
                    files = [[TOP, doc(ls)], ['b.aux', doc(bs)], ['c.aux', C_FIXED]]
                    for mode in (0, 1, 2):
                        yield ('exhaustive_nested', 1, [mode, files])
    # -- structured random, mostly valid
    for i in range(1500 if quick else 20000):
        yield ('random', 1, [rng.choice([0, 0, 1, 2]), rand_tree(rng)])
    # -- odd: other line ends, unrelated and half-formed lines, cycles, missing files
    for i in range(1500 if quick else 20000):
        yield ('odd', 1, [rng.choice([0, 0, 1, 2]), rand_tree(rng, odd=True)])
    # -- malformed: token-level damage to valid documents
    for i in range(1500 if quick else 20000):
        files = rand_tree(rng, odd=rng.random() < 0.3)
        k = rng.randrange(len(files))
        files[k][1] = mutate(rng, files[k][1])
        yield ('malformed', 1, [rng.choice([0, 1, 2]), files])
    # -- the regular expression, small scope: heads x every tail over {{ }} a , \n} up to the bound
    heads = ['\\citation', '\\bibdata', '\\bibstyle', '\\@input', '\\input', '\\bibstyl', 'citation', '\\\\citation', ' \\citation',
             '\\Citation', '\\citation{', '\\@input{a}', '\\bibdata{}}', '\\citationbibdata', '\\', '']
    T = 5 if quick else 6
    for h in heads:
        for n in range(0, T + 1):
            for t in itertools.product('{}a,\n', repeat=n):
                yield ('regex_sweep', 2, [h + ''.join(t)])
    for i in range(500 if quick else 5000):
        ln = rng.choice(OTHER + ODD + MENU)
        yield ('regex_lines', 2, [mutate(rng, ln) if rng.random() < 0.7 else ln])
    # -- line iteration: every content over {a \n \r \f U+2028} up to the bound
    T = 5 if quick else 6
    for n in range(0, T + 1):
        for t in itertools.product('a\n\r\x0c\u2028', repeat=n):
            yield ('lines_sweep', 3, [''.join(t)])
    # -- the handlers called directly
    hm = [(0, 'a'), (0, 'A'), (0, 'a,A'), (2, 's'), (2, ''), (1, 'd,e'), (1, '')]
    for n in range(0, (4 if quick else 5) + 1):
        for ops in itertools.product(hm, repeat=n):
            for mode in (0, 1, 2):
                yield ('handlers_exhaustive', 4, [mode, 'x.aux', 7, [list(o) for o in ops]])
    for i in range(500 if quick else 10000):
        ops = []
        for _ in range(rng.randint(0, 8)):
            c = rng.choice([0, 0, 0, 1, 2])
            v = ''.join(rng.choice('aAbB,, \n{}*\u20ac\u00a0') for _ in range(rng.randint(0, 6)))
            ops.append([c, v])
        yield ('handlers_random', 4, [rng.choice([0, 1, 2]), rng.choice(['x.aux', 'dir/y.aux', 'z']), rng.randint(1, 50), ops])
    # -- Engine.make_bibliography
    for i in range(300 if quick else 5000):
        yield ('make_bibliography', 5, [rng.choice([[], [], ['unsrt'], ['']]), rng.choice(['.bib', '.bib', '', '.yaml']), rand_tree(rng, odd=rng.random() < 0.2)])

RULE = ('exhaustive: every a.aux of <= N lines from a 9-line menu (\\citation{a} {A} {b,a}, two \\bibstyle, two \\bibdata, \\relax, \\@input{b.aux}) x three b.aux '
        '(missing / one citation / style+citation+data) x the three report_error modes (capture, strict, non-strict); every a.aux -> b.aux -> c.aux|a.aux|b.aux nesting '
        'from 5- and 6-line menus (including cycles); every a.aux of <= 3/4 lines from a 16-line menu whose unrelated lines carry command-looking text at column > 0 (after %, after blanks/tabs, inside \\@writefile / \\gdef); random: trees of 1-4 files nested to depth 3 with citation lists of 1-3 keys in case variants, "*", unrelated TeX lines; '
        'odd: \\r, \\r\\n and missing line ends, half-formed command lines, missing and cyclic inputs; malformed: character-level damage; '
        'plus exhaustive small-scope sweeps of command_re (16 heads x all tails over {{ }} a , \\n}), of the line iteration (all contents over {a \\n \\r \\f U+2028}), '
        'of handler call sequences, and Engine.make_bibliography. distinct = distinct (function, argument); non-trivial = a citation was read or an error was reported/raised.')
EXHAUSTIVE = {'quick': 'all a.aux of <= 4 lines over a 9-line menu x 3 b.aux x 3 modes; all a.aux of <= 3 lines over a 16-line menu with 8 ghost-command lines x 3 modes; all nestings a(<=3 of 5) -> b(<=2 of 6) -> c; command_re tails <= 5; file contents <= 5; handler sequences <= 4 of 7',
              'thorough': 'all a.aux of <= 4 lines over a 9-line menu x 3 b.aux x 3 modes, and of 5 lines in capture mode; all a.aux of <= 4 lines over the 16-line ghost menu; all nestings a(<=3 of 5) -> b(<=3 of 6) -> c; command_re tails <= 6; file contents <= 6; handler sequences <= 5 of 7'}
TRUSTED_BASE = ['modelled (not verified) code: pybtex/auxfile.py (all of it), pybtex/errors.py report_error, the line iteration of io.open in text mode (universal newlines), Engine.make_bibliography lines 45-59',
                'command_re is a hand-written matcher (Model/Aux.v match_command) with a proved characterisation, compared with the live re object on an exhaustive small-scope sweep',
                'the file system is a function name -> content; pybtex.io.open_unicode / kpsewhich are exercised through real files in a temporary directory']
ASSUMPTIONS = ['str.lower is modelled on ASCII; non-ASCII letters that are their own lower() are exact in the model, non-ASCII upper-case letters are shown to the model as unused ASCII stand-in pairs with the same lower-classes (model_arg / standins); letters whose lower() is longer than one character or ASCII (U+0130, U+212A) are outside the domain',
               'the file system is a function from the path AS WRITTEN (in parse_file(...) or \\@input{...}) to a content: the harness lays the files out in a directory tree and lists every spelling the case mentions',
               'a file is read as the sequence of lines io.open(..., newline=None) yields (lines_of, compared on every run); decoding errors are outside the domain',
               'the model bounds \\@input nesting by fuel (64 in the runner); Python bounds it by its recursion limit: cyclic inputs end in RecursionError there and in NoFuel in the model, compared as equal']
PARTIAL = []
